import QipVerif.Lemmas.SchedFull
import QipVerif.Lemmas.SchedRuleGen
/-!
# C05: the names `schedule_den_full` gives a meaning to, and the set of the tree under test

`interpretedNames`: the instruction names for which `GateOK` has a non-opaque clause — the printed names of
the library gates with complex semantics except `FREDKIN` and `GLOBALPHASE` (`libNames`), the other
spellings `H CX iSWAP`, and `SWAPALPHA` / `SWAPalpha`.  Every such name is **realised** (`interpreted_realised`):
there is an instruction of that name, flagged self-commuting, with an operator satisfying `GateOK` — so a
name of this list inside `_SELF_COMMUTING_GATES` is covered by `schedule_den_full`, not excluded by it.
A name outside the list inside the set (say `QASMU`) would have no clause at all: instructions of that name
would be flagged `sc = true`, hence not opaque, and circuits containing them would silently fall outside the
theorem.  `Props/C05.lean` therefore proves, about the regenerated set, that every listed name is interpreted.
-/
namespace QipVerif
open Matrix Sched

/-- library names with complex semantics whose two same-name instances commute when they share sorted controls
or sorted targets -/
def libNames : List GName :=
  [.X, .Y, .Z, .S, .T, .SNOT, .SQRTNOT, .IDLE, .RX, .RY, .RZ, .PHASEGATE,
   .CNOT, .CSIGN, .CZ, .CY, .CS, .CT, .CRX, .CRY, .CRZ, .CPHASE,
   .SWAP, .ISWAP, .SQRTSWAP, .SQRTISWAP, .BERKELEY, .TOFFOLI]

def aliasNames : List String := ["H", "CX", "iSWAP"]

/-- the names for which `GateOK` has a library or a SWAPALPHA clause -/
def interpretedNames : List String := libNames.map GName.toString ++ aliasNames ++ swapAlphaNames

/-- a canonical placement of a library name on three qubits -/
def canon (n : GName) : Gate :=
  if oneQ n then ⟨n, [0], [], {}⟩
  else if ctlQ n then ⟨n, [1], [0], {}⟩
  else if symQ n then ⟨n, [0, 1], [], {}⟩
  else ⟨n, [2], [0, 1], {}⟩

theorem canon_ok : ∀ n ∈ libNames, wfG 3 (canon n) = true ∧ shapeOK (canon n) = true ∧ n ≠ .FREDKIN := by decide

theorem alias_ok : ∀ s ∈ aliasNames, ∃ n ∈ libNames, aliasOf s = some n := by decide

/-- the instruction the scheduler sees for a gate, under the name `s`, flagged self-commuting -/
def insNamed (s : String) (γ : Gate) : Ins := ⟨s, isort γ.targets, isort γ.controls, 1, true⟩

/-- **every interpreted name is realised** by an instruction flagged self-commuting that satisfies `GateOK`
(on three qubits, every valuation) -/
theorem interpreted_realised (ρ : ℕ → ℝ) : ∀ s ∈ interpretedNames,
    ∃ (a : Ins) (A : Matrix (St 3) (St 3) ℂ), a.name = s ∧ a.sc = true ∧ GateOK 3 ρ a A := by
  intro s hs
  simp only [interpretedNames, List.mem_append, List.mem_map] at hs
  rcases hs with (⟨n, hn, rfl⟩ | hs) | hs
  · obtain ⟨hwf, hsh, _⟩ := canon_ok n hn
    obtain ⟨A, hA, _⟩ := wfG_sem ρ (fun _ => true) (canon n) hwf
    refine ⟨insNamed n.toString (canon n), A, rfl, rfl, Or.inl ⟨canon n, hwf, hsh, hA, rfl, rfl, Or.inl ?_⟩⟩
    show n.toString = (canon n).name.toString
    unfold canon
    split
    · rfl
    · split
      · rfl
      · split <;> rfl
  · obtain ⟨n, hn, hal⟩ := alias_ok s hs
    obtain ⟨hwf, hsh, _⟩ := canon_ok n hn
    obtain ⟨A, hA, _⟩ := wfG_sem ρ (fun _ => true) (canon n) hwf
    refine ⟨insNamed s (canon n), A, rfl, rfl, Or.inl ⟨canon n, hwf, hsh, hA, rfl, rfl, Or.inr ?_⟩⟩
    show aliasOf s = some (canon n).name
    rw [hal]
    unfold canon
    split
    · rfl
    · split
      · rfl
      · split <;> rfl
  · exact ⟨⟨s, isort [0, 1], [], 1, true⟩, _, rfl, rfl,
      Or.inr (Or.inl ⟨0, 1, by decide, 0, hs, rfl, rfl, rfl⟩)⟩

/-- a flagged instruction has its name in the tree's set (the first guard of the same-name part) -/
theorem flagged_inSet (a : Ins) (h : Gen.SchedRule.flagged a = true) : Gen.SchedRule.inSet a.name = true := by
  unfold Gen.SchedRule.flagged at h
  cases hi : Gen.SchedRule.inSet a.name with
  | true => rfl
  | false => simp [hi] at h

/-- an instruction list in which every flag is the tree's flag has no self-commuting `FREDKIN`
as soon as the tree's set does not list `FREDKIN` -/
theorem tree_no_fredkin (hF : Gen.SchedRule.inSet "FREDKIN" = false) {ns : List Ins} (h : ∀ a ∈ ns, TreeIns a) :
    ∀ a ∈ ns, a.name = "FREDKIN" → a.sc = false := by
  intro a ha hn
  have := h a ha
  unfold TreeIns at this
  cases hf : Gen.SchedRule.flagged a with
  | false => rw [this, hf]
  | true =>
    have := flagged_inSet a hf
    rw [hn, hF] at this
    cases this

end QipVerif
