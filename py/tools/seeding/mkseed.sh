#!/bin/bash
# mkseed.sh Cxx  -> creates worktree /tmp/seed-Cxx and /tmp/seedout-Cxx/PROPERTY.txt, prints prompt
P=$1
WT=/tmp/seed-$P; OUT=/tmp/seedout-$P
git -C /repo worktree remove --force $WT 2>/dev/null; rm -rf $OUT
git -C /repo worktree add -q --detach $WT HEAD
cp /repo/src/qutip_qip/version.py $WT/src/qutip_qip/
mkdir -p $OUT/1 $OUT/2
python3 - "$P" "$OUT" <<'PY'
import json,sys
pid,out=sys.argv[1],sys.argv[2]
for l in open('/verif/properties.jsonl'):
    p=json.loads(l)
    if p['id']==pid:
        a=p['anchors']
        t=f"Property {pid}: {p['title']}\n\nStatement: {p['statement']}\n\nQuantified over: {p['quantifier']['text']}\n\nWhy the existing tests cannot settle it: {p['why_tests_cant']}\n\nAnchors (files): {', '.join(a['files'])}\nMechanisms:\n"+"\n".join(f"  - {m['name']} ({m['where']})" for m in a['mechanism'])+f"\nObserve at: {', '.join(a['observe_at'])}\n"
        open(out+'/PROPERTY.txt','w').write(t)
PY
sed "s#{WT}#$WT#g; s#{OUT}#$OUT#g" ${SEEDPROMPT:-/tmp/seed-prompt4.txt}
