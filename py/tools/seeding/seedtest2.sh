#!/bin/bash
# seedtest2.sh <verif-root> <property id> <patch.diff> [demo.py]  — like py/tools/seedtest.sh but with the harness + lean taken from <verif-root> (a stable snapshot)
set -u
VR=$1; PID=$2; PATCH=$(readlink -f "$3"); DEMO=${4:-}; [ -n "$DEMO" ] && DEMO=$(readlink -f "$DEMO")
TAG=$$
WT=/tmp/wt-seed-$TAG; LN=/tmp/lean-seed-$TAG
git -C /repo worktree add -q --detach $WT HEAD
cp /repo/src/qutip_qip/version.py $WT/src/qutip_qip/
rsync -a --delete $VR/lean/ $LN/
mkdir -p /tmp/seed-evidence /tmp/seed-replays
cleanup() { git -C /repo worktree remove --force $WT 2>/dev/null; rm -rf $LN; }
trap cleanup EXIT
if [ -n "$DEMO" ]; then
  PYTHONPATH=$WT/src /venv/bin/python -W ignore $DEMO >/dev/null 2>&1; echo "demo on clean tree: exit $?"
fi
git -C $WT apply $PATCH || { echo "patch does not apply"; exit 2; }
if [ -n "$DEMO" ]; then
  PYTHONPATH=$WT/src /venv/bin/python -W ignore $DEMO >/dev/null 2>&1; echo "demo with change:   exit $?"
fi
cd $VR
VERIF_REPO=$WT VERIF_LEAN=$LN VERIF_EVIDENCE=/tmp/seed-evidence VERIF_REPLAYS=/tmp/seed-replays/$TAG ./check $PID --tier ${TIER:-quick} 2>&1 | grep -v "^KNOWN-FINDING" | tail -${TAILN:-8}
echo "check exit: ${PIPESTATUS[0]}"
python3 -c "
import json
d=json.load(open('/tmp/seed-evidence/$PID.json'))
b=d.get('broken') or d.get('coverage',{}).get('broken') or []
print('obligations broken:', sorted(set(x.get('what') if isinstance(x,dict) else str(x)[:30] for x in b)))
" 2>/dev/null
