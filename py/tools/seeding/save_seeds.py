#!/usr/bin/env python3
"""save_seeds.py <wave> <resultdir> Cxx [Cxx ...] — store tested seeds (/tmp/seedout-Cxx/{1,2} + <resultdir>/Cxx-k.txt
written by seedtest2.sh) under /verif/seeded/Cxx-n with the first result recorded in meta.json"""
import json, os, re, shutil, sys
wave = int(sys.argv[1]); rd = sys.argv[2]; props = sys.argv[3:]
os.chdir('/verif')
def nextn(p):
    ns = [int(d.split('-')[1]) for d in os.listdir('seeded') if d.startswith(p + '-')]
    return max(ns) + 1 if ns else 1
for p in props:
    for k in (1, 2):
        f = f'{rd}/{p}-{k}.txt'
        if not os.path.exists(f):
            print('no result for', p, k); continue
        t = open(f).read()
        ex = re.search(r'check exit: (\d+)', t); ex = ex.group(1) if ex else '?'
        dem = re.findall(r'demo (?:on clean tree|with change):\s+exit (\d+)', t)
        br = re.search(r'obligations broken: (.*)', t); br = br.group(1) if br else '?'
        viol = re.findall(r'^VIOLATION.*$', t, re.M)
        if dem != ['0', '1']:
            print('DEMO PROBLEM', p, k, dem); continue
        if ex == '0':
            r = 'MISSED'; why = 'check exit 0: no obligation broken, no failing input'
        elif ex == '1' and viol and all('no-failing-input-found' in v for v in viol):
            r = 'caught-no-input'; why = f'obligations broken: {br}; VIOLATION ... no-failing-input-found'
        elif ex == '1' and viol:
            r = 'caught'; why = f'obligations broken: {br}; VIOLATION with concrete failing inputs'
        else:
            print('UNCLEAR', p, k, ex, viol[:1]); continue
        n = nextn(p); d = f'seeded/{p}-{n}'; os.makedirs(d)
        src = f'/tmp/seedout-{p}/{k}'
        shutil.copy(src + '/patch.diff', d); shutil.copy(src + '/demo.py', d)
        m = json.load(open(src + '/meta.json'))
        m['confirmed_by_builder'] = {'what_i_ran': ['git apply in a scratch worktree of /repo', 'demo.py: exit 0 clean / exit 1 with the change', f'seedtest2.sh /verif {p} patch.diff demo.py (private worktree, private copy of lean/)'], 'first_result': r, 'caught_by_or_why_missed': why, 'wave': wave}
        json.dump(m, open(d + '/meta.json', 'w'), indent=1)
        print(d, r, br)
