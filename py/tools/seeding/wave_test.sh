#!/bin/bash
# wave_test.sh <resultdir> Cxx [Cxx ...] — for every delivered /tmp/seedout-Cxx/1: pinned suite with the change
# (baseline.py in the seeder's worktree) and the property's check (seedtest2.sh), all seeds in parallel.
# Results: <resultdir>/Cxx-1.txt (read by save_seeds.py), <resultdir>/Cxx-baseline.txt
RD=$1; shift; mkdir -p $RD
cd "$(dirname "$0")/../../.."
for P in "$@"; do
  S=/tmp/seedout-$P/1
  [ -f $S/patch.diff ] && [ -f $S/demo.py ] && [ -f $S/meta.json ] || { echo "$P: not delivered"; continue; }
  ( py/tools/seeding/seedtest2.sh /verif $P $S/patch.diff $S/demo.py > $RD/$P-1.txt 2>&1 ) &
  ( git -C /tmp/seed-$P checkout -- . ; git -C /tmp/seed-$P apply $S/patch.diff && /venv/bin/python py/tools/baseline.py /tmp/seed-$P > $RD/$P-baseline.txt 2>&1; git -C /tmp/seed-$P checkout -- . ) &
done
wait
for P in "$@"; do echo "== $P: $(tail -1 $RD/$P-baseline.txt 2>/dev/null)"; grep -h 'demo \|check exit\|obligations' $RD/$P-1.txt 2>/dev/null; grep -c '^VIOLATION' $RD/$P-1.txt 2>/dev/null; done
