"""corpus_add.py <property id> <replay.json>...  — append the witnesses of replay files to corpus/<id>.jsonl (deduplicated).
Manual step after a seeded change was caught; the corpus is replayed with the property oracle at the start of every check."""
import json, os, sys
V = os.path.dirname(os.path.dirname(os.path.dirname(os.path.abspath(__file__))))
pid = sys.argv[1]
path = os.path.join(V, "corpus", pid + ".jsonl")
os.makedirs(os.path.dirname(path), exist_ok=True)
have = set(open(path).read().splitlines()) if os.path.exists(path) else set()
sys.path.insert(0, os.path.join(V, "py"))
import importlib
from vlib.core import Ctx
chk = importlib.import_module("props." + pid.lower()).CHECK
ctx = Ctx("quick", 0)
# only witnesses that PASS on the current (clean) tree belong in the corpus
kept = set()
for line in have:
    try:
        fails, _ = chk.oracle_replay(ctx, json.loads(line))
    except Exception:
        fails = True
    if not fails:
        kept.add(line)
if len(kept) != len(have):
    print(f"dropped {len(have) - len(kept)} witnesses that fail on the clean tree")
have = kept
n = 0
for f in sys.argv[2:]:
    d = json.load(open(f))
    if d.get("kind") != "failing-input":
        continue
    line = json.dumps(d["witness"], sort_keys=True)
    try:
        fails, _ = chk.oracle_replay(ctx, d["witness"])
    except Exception:
        fails = True
    if fails:
        print("  skipped (fails on the clean tree):", f); continue
    if line not in have:
        have.add(line); n += 1
open(path, "w").write("\n".join(sorted(have)) + "\n")
print(f"{pid}: corpus now has {len(have)} witnesses (+{n})")
