"""Regenerates the table of DESIGN.md section 11 from seeded/*/meta.json (between the markers SEED-TABLE-BEGIN/END)."""
import json, os, re, glob
V = os.path.dirname(os.path.dirname(os.path.dirname(os.path.abspath(__file__))))
def key(d):
    m = re.match(r"(C\d+)-(\d+)$", os.path.basename(d)); return (m.group(1), int(m.group(2)))
rows = ["| seed | change (needs to manifest: see meta.json) | first run | caught by / why missed | after strengthening |", "|---|---|---|---|---|"]
n = {"caught": 0, "caught-no-input": 0, "MISSED": 0}; fixed_later = 0
for d in sorted(glob.glob(os.path.join(V, "seeded", "C*-*")), key=key):
    m = json.load(open(os.path.join(d, "meta.json")))
    c = m.get("confirmed_by_builder", {})
    first = c.get("first_result", "?"); n[first] = n.get(first, 0) + 1
    after = c.get("after_strengthening", "") or ""
    if after: fixed_later += 1
    cell = lambda s, k: (s if isinstance(s, str) else json.dumps(s) if s else "").replace("|", "/").replace("\n", " ")[:k]
    rows.append(f"| {os.path.basename(d)} | {cell(m.get('summary'), 150)} | {first} | {cell(c.get('caught_by_or_why_missed'), 260)} | {cell(after, 220)} |")
summary = (f"\n{sum(n.values())} seeded changes: {n.get('caught',0)} caught with a concrete failing input on the first run, "
           f"{n.get('caught-no-input',0)} caught without a failing input (`no-failing-input-found`), {n.get('MISSED',0)} missed; "
           f"{fixed_later} of the latter two groups are caught with a concrete input after strengthening (last column).\n")
p = os.path.join(V, "DESIGN.md"); s = open(p).read()
a = s.index("<!-- SEED-TABLE-BEGIN -->"); b = s.index("<!-- SEED-TABLE-END -->")
s = s[:a] + "<!-- SEED-TABLE-BEGIN -->\n" + "\n".join(rows) + "\n" + summary + s[b:]
open(p, "w").write(s)
print(n, fixed_later)
