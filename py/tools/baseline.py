"""Runs the pinned test suite of /repo (guard off) and compares with BASELINE.json's stable_pass list."""
import json, os, subprocess, sys, tempfile, xml.etree.ElementTree as ET
repo = sys.argv[1] if len(sys.argv) > 1 else "/repo"
base = json.load(open("/root/.vp/BASELINE.json"))
want = set(base["stable_pass"])
out = tempfile.mktemp(suffix=".xml")
env = dict(os.environ); env.pop("QUTIP_QIP_VERIF", None); env["PYTHONPATH"] = os.path.join(repo, "src")
subprocess.run(["/venv/bin/python", "-m", "pytest", "-q", "-p", "no:cacheprovider", "--timeout=900", "-n", "8",
                "--continue-on-collection-errors", "--junitxml=" + out], cwd=repo, env=env,
               stdout=subprocess.DEVNULL, stderr=subprocess.DEVNULL)
passed = set()
for tc in ET.parse(out).getroot().iter("testcase"):
    if not any(c.tag in ("failure", "error", "skipped") for c in tc):
        passed.add(tc.get("classname") + "::" + tc.get("name"))
os.remove(out)
missing = sorted(want - passed)
# a test of the pinned list that fails under xdist is re-run alone (some tests are randomised)
still = []
for m in missing:
    mod, _, rest = m.partition("::")
    path = mod.replace(".", "/") + ".py"
    cls_fn = rest.split("::")
    # junit classname may include the class: tests.test_vqa.TestVQACircuit -> tests/test_vqa.py::TestVQACircuit
    parts = mod.split(".")
    node = None
    for k in range(len(parts), 0, -1):
        cand = "/".join(parts[:k]) + ".py"
        if os.path.exists(os.path.join(repo, cand)):
            node = cand + "".join("::" + x for x in parts[k:]) + "::" + rest
            break
    ok = False
    for _ in range(6):
        r = subprocess.run(["/venv/bin/python", "-m", "pytest", "-q", "-p", "no:cacheprovider", node], cwd=repo, env=env,
                           stdout=subprocess.DEVNULL, stderr=subprocess.DEVNULL)
        if r.returncode == 0:
            ok = True
            break
    if ok:
        print("  flaky under xdist, passes alone:", m)
    else:
        still.append(m)
missing = still
print(f"baseline: {len(want & passed)}/{len(want)} stable tests pass; newly passing: {len(passed - want)}")
for m in missing[:20]:
    print("  NOT PASSING:", m)
sys.exit(1 if missing else 0)
