"""Runs the pinned test suite of /repo (guard off) and compares with BASELINE.json's stable_pass list."""
import json, os, subprocess, sys, tempfile, xml.etree.ElementTree as ET
repo = sys.argv[1] if len(sys.argv) > 1 else "/repo"
base = json.load(open("/root/.vp/BASELINE.json"))
want = set(base["stable_pass"])
out = tempfile.mktemp(suffix=".xml")
env = dict(os.environ); env.pop("QUTIP_QIP_VERIF", None); env["PYTHONPATH"] = os.path.join(repo, "src")
subprocess.run(["/venv/bin/python", "-m", "pytest", "-q", "-p", "no:cacheprovider", "--timeout=900", "-n", "8",
                "--continue-on-collection-errors", "--junitxml=" + out], cwd=repo, env=env,
               stdout=subprocess.DEVNULL, stderr=subprocess.DEVNULL)
passed = set()
for tc in ET.parse(out).getroot().iter("testcase"):
    if not any(c.tag in ("failure", "error", "skipped") for c in tc):
        passed.add(tc.get("classname") + "::" + tc.get("name"))
os.remove(out)
missing = sorted(want - passed)
print(f"baseline: {len(want & passed)}/{len(want)} stable tests pass; newly passing: {len(passed - want)}")
for m in missing[:20]:
    print("  NOT PASSING:", m)
sys.exit(1 if missing else 0)
