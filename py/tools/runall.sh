#!/bin/bash
# runall.sh [tier] [outdir] — run every claimed check on /repo (4 at a time), one log per property, summary at the end
TIER=${1:-quick}; OUT=${2:-/tmp/runall}; mkdir -p $OUT; rm -f $OUT/summary.txt
cd "$(dirname "$0")/../.."
for p in C01 C02 C03 C04 C05 C06 C07 C08 C09 C10 C11 C12 C13 C14 C15 C16 C17 C18 C19 C20; do echo $p; done | \
 xargs -P ${PAR:-4} -I{} sh -c 's=$(date +%s); ./check {} --tier '$TIER' > '$OUT'/{}.log 2>&1; e=$?; echo "{} exit=$e $(( $(date +%s)-s ))s" >> '$OUT'/summary.txt'
sort $OUT/summary.txt
