"""Regenerates MANIFEST.json from the property modules (py/props) and py/tools/manifest_static.json."""
import importlib, json, os, sys
HERE = os.path.dirname(os.path.abspath(__file__))
VERIF = os.path.dirname(os.path.dirname(HERE))
sys.path.insert(0, os.path.join(VERIF, "py"))
static = json.load(open(os.path.join(HERE, "manifest_static.json")))
checks = []
claimed = set()
for pid in static["claimed"]:
    mod = importlib.import_module("props." + pid.lower())
    c = mod.CHECK
    claimed.add(pid)
    checks.append({
        "property_id": pid,
        "quick_cmd": f"./check {pid} --tier quick",
        "thorough_cmd": f"./check {pid} --tier thorough",
        "evidence_file": f"evidence/{pid}.json",
        "replay_cmd_template": f"./check {pid} --replay {{path}}",
        "engine": "lean4-proof+correspondence",
        "level_claimed": {"category": "proof", "text": c.level_text, "design_ref": f"DESIGN.md section 5, {pid}"},
        "level_note": c.level_note,
        "technique": c.technique,
    })
na = [x for x in static["not_applicable"] if x["property_id"] not in claimed]
listed = {x["property_id"] for x in na}
for line in open(os.path.join(VERIF, "properties.jsonl")):
    pid = json.loads(line)["id"]
    if pid not in claimed and pid not in listed:
        na.append({"property_id": pid, "reason": "not claimed: model, theorems and correspondence for this property are not finished (DESIGN.md section 8); no weaker technique is substituted"})
man = {
    "version": 1,
    "setup_cmd": "./check setup",
    "hooks": static["hooks"],
    "engines": static["engines"],
    "checks": checks,
    "notes": static["notes"],
    "not_applicable": na,
}
json.dump(man, open(os.path.join(VERIF, "MANIFEST.json"), "w"), indent=1)
print("claimed:", sorted(claimed))
