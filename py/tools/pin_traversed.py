"""Measure the TRAVERSED source pins of pins/<id>.json: run `./check Cxx --tier quick` on the clean /repo with the call tracer
(VERIF_TRACE_CALLS, py/vlib/pins.py), map the executed code objects of src/qutip_qip to pin items and merge them into the file.

usage: pin_traversed.py [--par N] [--keep DIR] [--from-trace DIR] [ids…]      (default: every claimed property C01…C20)

* executed function / method / property  ->  item named by its qualname up to the first `.<locals>` (nested functions and lambdas
  belong to their outermost def; getter and setter of a property are one item);
* every file in which such a function lives  ->  all its module-level assignments (tables, constants, defaults; not `__all__`);
* every class one of whose methods ran  ->  its class-level assignments (`Class.NAME`);
* code that is only imported (module / class bodies), version.py and __init__.py: not pinned; names `item_hash` cannot resolve
  (functions defined under `if` / `try`, lambdas at module or class level) are skipped and counted.
Merge: items already listed keep their kind (`transcribed` when the key is absent); an executed item covered by a transcribed item
(the same name, or a whole-class pin of its class) is not added; new items get `"kind": "traversed"`; traversed items that are no
longer executed are dropped.  The file is re-read immediately before it is written (other builders add transcribed items).
The check must exit 0 (clean tree), otherwise the file is left alone.  The evidence / replays of these runs go to a scratch
directory.  Refresh of the hashes alone (after a fix: commit): py/tools/pin_sources.py."""
# the normalised-AST hash depends on the interpreter's ast.dump: always run under the interpreter ./check uses
import os as _os, sys as _sys
if _os.path.exists("/venv/bin/python") and _os.path.realpath(_sys.executable) != _os.path.realpath("/venv/bin/python"):
    _os.execv("/venv/bin/python", ["/venv/bin/python"] + _sys.argv)

import ast, json, os, shutil, subprocess, sys, tempfile
from concurrent.futures import ThreadPoolExecutor
sys.path.insert(0, os.path.join(os.path.dirname(os.path.abspath(__file__)), ".."))
from vlib import pins
from vlib.paths import REPO, VERIF

SKIP_FILES = ("version.py", "__init__.py")


def assignments(tree_body):
    out = []
    for n in tree_body:
        if isinstance(n, (ast.Assign, ast.AnnAssign)):
            for t in (n.targets if isinstance(n, ast.Assign) else [n.target]):
                if isinstance(t, ast.Name) and t.id != "__all__" and t.id not in out:
                    out.append(t.id)
    return out


def items_of_trace(recs, repo=REPO):
    """-> (sorted list of (file, name), number of executed code objects that could not be mapped)"""
    want, files, classes, unresolved = set(), set(), set(), 0
    for file, qual, _line, kind in recs:
        if kind != "func" or os.path.basename(file) in SKIP_FILES:
            continue                                      # module and class bodies run on import: not "called"
        name = qual.split(".<locals>")[0]
        if "<" in name:                                   # <lambda> / <genexpr> at module or class level
            unresolved += 1
            continue
        want.add((file, name))
        files.add(file)
        if "." in name:
            classes.add((file, name.rsplit(".", 1)[0]))
    for file in files:
        try:
            tree = ast.parse(open(os.path.join(repo, file)).read())
        except (OSError, SyntaxError):
            continue
        for a in assignments(tree.body):
            want.add((file, a))
        for f2, cls in classes:
            if f2 != file:
                continue
            for node in pins._find(tree, cls):
                if isinstance(node, ast.ClassDef):
                    for a in assignments(node.body):
                        want.add((file, cls + "." + a))
    out, trees = [], {}
    for file, name in sorted(want):
        if pins.item_hash(repo, file, name, trees) is None:
            unresolved += 1
        else:
            out.append((file, name))
    return out, unresolved


def trace_check(pid, workdir):
    """run the quick check with the tracer -> (exit code, trace records)"""
    out = os.path.join(workdir, "trace", pid)
    os.makedirs(os.path.dirname(out), exist_ok=True)
    env = dict(os.environ, VERIF_TRACE_CALLS=out, VERIF_REPO=REPO,
               VERIF_EVIDENCE=os.path.join(workdir, "evidence"), VERIF_REPLAYS=os.path.join(workdir, "replays"))
    env.pop("VERIF_SEED", None)
    with open(os.path.join(workdir, pid + ".log"), "w") as log:
        rc = subprocess.run([os.path.join(VERIF, "check"), pid, "--tier", "quick"], env=env, stdout=log,
                            stderr=subprocess.STDOUT, cwd=VERIF).returncode
    return rc, pins.read_trace(out)


def merge(pid, traversed, head):
    """merge the measured items into pins/<pid>.json (re-read now) -> (transcribed, traversed kept, added, dropped)"""
    d = pins.load(pid)                                    # read immediately before writing
    keep = [it for it in d.get("items", []) if pins.kind_of(it) != "traversed"]
    old_tv = {(it["file"], it["name"]): it for it in d.get("items", []) if pins.kind_of(it) == "traversed"}
    have = {(it["file"], it["name"]) for it in keep}

    def covered(file, name):
        parts = name.split(".")
        return any((file, ".".join(parts[:k])) in have for k in range(1, len(parts) + 1))

    trees, new, added = {}, [], 0
    for file, name in traversed:
        if covered(file, name):
            continue
        h = pins.item_hash(REPO, file, name, trees)
        if h is None:
            continue
        if (file, name) not in old_tv:
            added += 1
        new.append({"file": file, "name": name, "hash": h, "kind": "traversed"})
    dropped = len(set(old_tv) - {(it["file"], it["name"]) for it in new})
    d["items"] = keep + new
    d["traversed_at"] = head
    json.dump(d, open(pins.pin_file(pid), "w"), indent=1)
    return len(keep), len(new), added, dropped


def main():
    argv = sys.argv[1:]
    par, keepdir, from_trace, ids = 3, None, None, []
    while argv:
        a = argv.pop(0)
        if a == "--par":
            par = int(argv.pop(0))
        elif a == "--keep":
            keepdir = argv.pop(0)
        elif a == "--from-trace":
            from_trace = argv.pop(0)
        else:
            ids.append(a)
    ids = ids or ["C%02d" % i for i in range(1, 21)]
    head = subprocess.run(["git", "-C", REPO, "rev-parse", "--short", "HEAD"], capture_output=True, text=True).stdout.strip()
    dirty = subprocess.run(["git", "-C", REPO, "status", "--porcelain", "--untracked-files=no"], capture_output=True,
                           text=True).stdout.strip()
    if dirty:
        print("the tree under test has uncommitted changes: the traversed set is measured on the clean tree only")
        return 2
    work = keepdir or tempfile.mkdtemp(prefix="pin-traversed-")
    os.makedirs(work, exist_ok=True)
    bad = 0

    def one(pid):
        if from_trace:
            return pid, 0, pins.read_trace(os.path.join(from_trace, "trace", pid))
        rc, recs = trace_check(pid, work)
        return pid, rc, recs

    with ThreadPoolExecutor(max_workers=max(1, par)) as ex:
        for pid, rc, recs in ex.map(one, ids):
            if rc != 0:
                print(f"{pid}: check exit {rc} on the clean tree — pins left alone (log: {work}/{pid}.log)")
                bad += 1
                continue
            if not recs:
                print(f"{pid}: no trace records — pins left alone")
                bad += 1
                continue
            trav, unresolved = items_of_trace(recs)
            ntr, ntv, added, dropped = merge(pid, trav, head)
            nfunc = sum(1 for r in recs if r[3] == "func")
            print(f"{pid}: {nfunc} executed code objects -> {len(trav)} items ({unresolved} not resolvable); "
                  f"pins: {ntr} transcribed + {ntv} traversed ({added} new, {dropped} dropped)")
    if not keepdir and not bad:
        shutil.rmtree(work, ignore_errors=True)
    return 1 if bad else 0


if __name__ == "__main__":
    sys.exit(main())
