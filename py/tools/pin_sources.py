"""Refresh the hashes of pins/<id>.json from the current /repo (manual step after the models were re-validated against
changed code, e.g. after a fix: commit).  usage: pin_sources.py [ids…]   (default: every pins/*.json);  --check only reports.
Transcribed and traversed items are treated alike (the hash of every listed item); the SET of traversed items is re-measured by
py/tools/pin_traversed.py — run it after this refresh when a fix added, removed or renamed functions / module-level names, or
re-routed calls (a traversed item that vanished is reported NOT FOUND here and dropped there)."""
# the normalised-AST hash depends on the interpreter's ast.dump: always run under the interpreter ./check uses
import os as _os, sys as _sys
if _os.path.exists("/venv/bin/python") and _os.path.realpath(_sys.executable) != _os.path.realpath("/venv/bin/python"):
    _os.execv("/venv/bin/python", ["/venv/bin/python"] + _sys.argv)

import glob, json, os, subprocess, sys
sys.path.insert(0, os.path.join(os.path.dirname(os.path.abspath(__file__)), ".."))
from vlib import pins
from vlib.paths import REPO, VERIF
args = [a for a in sys.argv[1:] if not a.startswith("--")]
only_check = "--check" in sys.argv
ids = args or sorted(os.path.basename(p)[:-5] for p in glob.glob(os.path.join(VERIF, "pins", "C*.json")))
head = subprocess.run(["git", "-C", REPO, "rev-parse", "--short", "HEAD"], capture_output=True, text=True).stdout.strip()
bad = 0
for pid in ids:
    d = pins.load(pid)
    changed = 0
    trees = {}
    for it in d.get("items", []):
        h = pins.item_hash(REPO, it["file"], it["name"], trees)
        if h is None:
            print(f"  {pid}: NOT FOUND ({pins.kind_of(it)}) {it['file']}::{it['name']}"); bad += 1
        elif h != it.get("hash"):
            changed += 1
            if only_check:
                print(f"  {pid}: differs ({pins.kind_of(it)}) {it['file']}::{it['name']}")
            if not only_check:
                it["hash"] = h
    if not only_check:
        d["pinned_at"] = head
        json.dump(d, open(pins.pin_file(pid), "w"), indent=1)
    n_tv = sum(1 for it in d.get("items", []) if pins.kind_of(it) == "traversed")
    print(f"{pid}: {len(d.get('items', [])) - n_tv} transcribed + {n_tv} traversed items, {changed} {'differ' if only_check else 'refreshed'}")
sys.exit(1 if bad else 0)
