"""Merge fixes/<id>-findings.json proposals into known_findings.json (manual step, never run by a check).
usage: merge_findings.py C07 C20 ...   — fixed entries get the /repo commit whose subject equals the patch's .msg"""
import json, os, subprocess, sys
V = os.path.dirname(os.path.dirname(os.path.dirname(os.path.abspath(__file__))))
kf = json.load(open(os.path.join(V, "known_findings.json")))
log = subprocess.run(["git", "-C", "/repo", "log", "--format=%h %s"], capture_output=True, text=True).stdout.splitlines()
for pid in sys.argv[1:]:
    p = os.path.join(V, "fixes", pid + "-findings.json")
    if not os.path.exists(p):
        print("no proposal for", pid); continue
    kf["findings"] = [f for f in kf["findings"] if f.get("property") != pid or f.get("_manual")]
    for f in json.load(open(p))["findings"]:
        f = dict(f)
        if f["status"] == "fixed":
            patch = f.get("patch") or f.get("fix") or f.get("commit") or ""
            msgf = os.path.join(V, patch.replace(".patch", ".msg")) if patch.endswith(".patch") else None
            commit = None
            if msgf and os.path.exists(msgf):
                subj = open(msgf).read().strip().splitlines()[0]
                for line in log:
                    h, _, s = line.partition(" ")
                    if s.strip() == subj.strip():
                        commit = h
            if commit is None:
                print(f"  {pid}: fixed entry has no matching commit in /repo yet ({patch}) - skipped"); continue
            f["commit"] = commit
            import re as _re
            w = _re.sub(r"^(fixed: property=\S+ \S+ )+", "", f["what"])
            f["what"] = f"fixed: property={pid} {commit} " + w
        kf["findings"].append(f)
        print("  merged", pid, f["status"], f["what"][:90])
json.dump(kf, open(os.path.join(V, "known_findings.json"), "w"), indent=1)
