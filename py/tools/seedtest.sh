#!/bin/bash
# seedtest.sh <property id> <patch.diff> [demo.py]   — run a check against a seeded change WITHOUT touching /repo or
# /verif/lean: the change is applied in the scratch worktree /tmp/wt-main, the Lean project is copied to /tmp/lean-seed.
set -u
PID=$1; PATCH=$2; DEMO=${3:-}
WT=/tmp/wt-main
[ -d $WT ] || { git -C /repo worktree add -q $WT HEAD; }
git -C $WT checkout -q --detach $(git -C /repo rev-parse HEAD) 2>/dev/null; git -C $WT checkout -q -- . ; cp /repo/src/qutip_qip/version.py $WT/src/qutip_qip/
rsync -a --delete /verif/lean/ /tmp/lean-seed/
mkdir -p /tmp/seed-evidence /tmp/seed-replays
if [ -n "$DEMO" ]; then
  PYTHONPATH=$WT/src /venv/bin/python -W ignore $DEMO >/dev/null 2>&1; echo "demo on clean tree: exit $?"
fi
git -C $WT apply $PATCH || { echo "patch does not apply"; exit 2; }
if [ -n "$DEMO" ]; then
  PYTHONPATH=$WT/src /venv/bin/python -W ignore $DEMO >/dev/null 2>&1; echo "demo with change:   exit $?"
fi
cd /verif
VERIF_REPO=$WT VERIF_LEAN=/tmp/lean-seed VERIF_EVIDENCE=/tmp/seed-evidence VERIF_REPLAYS=/tmp/seed-replays ./check $PID --tier quick 2>&1 | grep -v "^KNOWN-FINDING" | tail -6
echo "check exit: ${PIPESTATUS[0]}"
git -C $WT checkout -q -- .
