#!/bin/bash
# seedtest.sh <property id> <patch.diff> [demo.py]   — run a check against a seeded change WITHOUT touching /repo or
# /verif/lean: the change is applied in a private scratch worktree, the Lean project is copied to a private scratch dir.
set -u
PID=$1; PATCH=$(readlink -f "$2"); DEMO=${3:-}; [ -n "$DEMO" ] && DEMO=$(readlink -f "$DEMO")
TAG=$$
WT=/tmp/wt-seed-$TAG; LN=/tmp/lean-seed-$TAG
git -C /repo worktree add -q --detach $WT HEAD
cp /repo/src/qutip_qip/version.py $WT/src/qutip_qip/
rsync -a --delete /verif/lean/ $LN/
mkdir -p /tmp/seed-evidence /tmp/seed-replays
cleanup() { git -C /repo worktree remove --force $WT 2>/dev/null; rm -rf $LN; }
trap cleanup EXIT
if [ -n "$DEMO" ]; then
  PYTHONPATH=$WT/src /venv/bin/python -W ignore $DEMO >/dev/null 2>&1; echo "demo on clean tree: exit $?"
fi
git -C $WT apply $PATCH || { echo "patch does not apply"; exit 2; }
if [ -n "$DEMO" ]; then
  PYTHONPATH=$WT/src /venv/bin/python -W ignore $DEMO >/dev/null 2>&1; echo "demo with change:   exit $?"
fi
cd /verif
VERIF_REPO=$WT VERIF_LEAN=$LN VERIF_EVIDENCE=/tmp/seed-evidence VERIF_REPLAYS=/tmp/seed-replays ./check $PID --tier ${TIER:-quick} 2>&1 | grep -v "^KNOWN-FINDING" | tail -6
echo "check exit: ${PIPESTATUS[0]}"
