"""Check flow shared by all properties (DESIGN.md section 3)."""
import argparse, hashlib, json, os, random, sys, time, traceback, importlib, re

from . import lean
from .paths import VERIF, LEAN, EVIDENCE, REPLAYS, KNOWN, REPO, GUARD

if os.environ.get("VERIF_TRACE_CALLS"):
    # measurement of the traversed source pins (py/tools/pin_traversed.py): record which code of $VERIF_REPO/src/qutip_qip is
    # executed; installed here, before any property module imports or calls the package (helper processes import this module too)
    from . import pins as _trace_pins
    _trace_pins.install_tracer_from_env()


class TranslatorError(Exception):
    pass


def canon(obj):
    return json.dumps(obj, sort_keys=True, default=str)


class CorrResult:
    """Accumulates what a correspondence run covered."""

    def __init__(self):
        self.evaluations = 0
        self._keys = set()
        self.samples = []
        self.hist = {}
        self.disagreements = []
        self.exhaustive = False
        self.rule = ""
        self.notes = []

    def case(self, inp, nontrivial=True, tags=()):
        """Register one executed case.  `inp` is its canonical input (JSON-serialisable)."""
        self.evaluations += 1
        if nontrivial:
            self._keys.add(hashlib.sha1(canon(inp).encode()).digest()[:10])
        for t in tags:
            self.hist[t] = self.hist.get(t, 0) + 1
        if len(self.samples) < 6 or (self.evaluations % 97 == 0 and len(self.samples) < 12):
            self.samples.append(inp)

    def disagree(self, inp, model, impl, what="model/implementation outputs differ", witness=None):
        self.disagreements.append({"input": inp, "model": model, "impl": impl, "what": what,
                                   "witness": witness})

    @property
    def distinct_nontrivial(self):
        return len(self._keys)


class Ctx:
    def __init__(self, tier, seed):
        self.tier = tier
        self.seed = seed
        self.rng = random.Random(seed)
        self.t0 = time.time()
        self._drivers = {}
        self.thorough = tier == "thorough"

    def driver(self, name):
        if name not in self._drivers:
            self._drivers[name] = lean.Driver(name)
        return self._drivers[name]

    def elapsed(self):
        return time.time() - self.t0

    def log(self, *a):
        print("[check]", *a, flush=True)


class PropertyCheck:
    """Base class; one subclass instance per property in py/props/cXX.py (module attribute CHECK)."""
    id = "C00"
    lean_modules = []     # Lean modules holding the property theorems
    drivers = []          # lean_exe targets used by the correspondence
    theorems = []         # fully qualified names of the property theorems (audited, counted)
    technique = ""
    trusted_base = []
    assumptions = []
    rule = ""

    def regenerate(self, ctx):
        """Rewrite lean/QipVerif/Gen/* from /repo's working tree.  Raise TranslatorError."""
        return []

    def correspondence(self, ctx, res):
        raise NotImplementedError

    def oracle_replay(self, ctx, witness):
        """Evaluate the property on the real code for one witness -> (fails, detail)."""
        raise NotImplementedError

    def oracle_search(self, ctx, budget_s):
        """Search the implementation for a failing input.  Yield witnesses that FAIL."""
        return iter(())

    def oracle_always(self, ctx):
        """Cheap property-level sweep on the real code run on every check; yield failing witnesses."""
        return iter(())

    def finding_matches(self, witness, finding):
        return canon(witness) == canon(finding.get("witness"))


# ------------------------------------------------------------------------------------------

def load_findings(pid):
    if not os.path.exists(KNOWN):
        return []
    data = json.load(open(KNOWN))
    return [f for f in data.get("findings", []) if f.get("property") == pid]


def write_replay(pid, payload):
    d = os.path.join(REPLAYS, pid)
    os.makedirs(d, exist_ok=True)
    h = hashlib.sha1(canon(payload).encode()).hexdigest()[:10]
    path = os.path.join(d, f"{payload.get('kind', 'replay')}-{h}.json")
    payload = dict(payload)
    payload["replay_cmd"] = f"./check {pid} --replay {os.path.relpath(path, VERIF)}"
    with open(path, "w") as f:
        json.dump(payload, f, indent=1, sort_keys=True, default=str)
    return os.path.relpath(path, VERIF)


def failing_theorems_from_log(log, theorems):
    """Best effort: which property theorems are named in error messages / failing modules."""
    bad = []
    for m in re.finditer(r"error: ([^\n]*)", log):
        bad.append(m.group(1)[:300])
    return bad[:20]


def run_check(chk: PropertyCheck, tier: str, seed: int):
    ctx = Ctx(tier, seed)
    pid = chk.id
    os.environ[GUARD] = "1"
    broken = []          # [(kind, detail)]
    violations = []      # replay paths
    known_lines = []
    findings = load_findings(pid)
    res = CorrResult()
    axioms_seen = {}
    discharged = 0
    infra_error = None

    # 1. regenerate ---------------------------------------------------------------------
    try:
        gen = chk.regenerate(ctx) or []
        if gen:
            ctx.log(f"regenerated {len(gen)} file(s) from {REPO}")
    except TranslatorError as e:
        broken.append(("translator", f"translator could not regenerate: {e}"))
    except Exception as e:
        broken.append(("translator", "translator crashed: " + "".join(traceback.format_exception_only(type(e), e)).strip()))

    # 1b. source pins: is the code the hand-written model transcribes still the code that is there? ----------
    try:
        from . import pins as _pins
        moved = _pins.check_kinds(pid)
        if moved:
            for text in _pins.describe(moved):
                broken.append(("source-pin", text))
        else:
            n_tr, n_tv = _pins.counts(pid)
            if n_tr + n_tv:
                ctx.log(f"source pins: {n_tr} transcribed + {n_tv} traversed item(s) unchanged")
    except Exception as e:
        broken.append(("source-pin", "source pins could not be evaluated: " + repr(e)))

    # 2. build --------------------------------------------------------------------------
    build_ok, log, bt = lean.lake_build(list(chk.lean_modules) + list(chk.drivers))
    ctx.log(f"lake build {'ok' if build_ok else 'FAILED'} in {bt:.1f}s")
    drivers_ok = True
    if not build_ok:
        broken.append(("proof", "lake build failed: " + "; ".join(failing_theorems_from_log(log, chk.theorems))))
        # the models/drivers may still build even if a proof does not
        d_ok, dlog, _ = lean.lake_build(list(chk.drivers)) if chk.drivers else (True, "", 0)
        drivers_ok = d_ok
        if not d_ok:
            broken.append(("driver", "model driver does not build"))

    # 3. audit --------------------------------------------------------------------------
    hits = lean.forbidden_scan(list(chk.lean_modules) + [f"Drv.{d}" for d in []])
    if hits:
        broken.append(("audit", "forbidden tokens: " + ", ".join(hits[:10])))
    if build_ok:
        axioms_seen, aout = lean.audit(chk.lean_modules, chk.theorems)
        for t, ax in axioms_seen.items():
            if ax is None:
                broken.append(("audit", f"theorem {t} not found by #print axioms"))
            elif not set(ax) <= lean.ALLOWED_AXIOMS:
                broken.append(("audit", f"theorem {t} depends on {sorted(set(ax) - lean.ALLOWED_AXIOMS)}"))
            else:
                discharged += 1
        if tier == "thorough":
            ok, out = lean.leanchecker(chk.lean_modules)
            ctx.log("leanchecker " + ("ok" if ok else "FAILED"))
            if not ok:
                broken.append(("audit", "leanchecker rejected the compiled modules: " + out[-500:]))

    # 4. correspondence -----------------------------------------------------------------
    if drivers_ok:
        try:
            chk.correspondence(ctx, res)
        except Exception as e:
            infra_error = "correspondence harness crashed: " + traceback.format_exc()
        if res.disagreements:
            broken.append(("correspondence", f"{len(res.disagreements)} disagreement(s); first: "
                           + canon(res.disagreements[0])[:600]))
        ctx.log(f"correspondence: {res.evaluations} cases, {res.distinct_nontrivial} distinct non-trivial, "
                f"{len(res.disagreements)} disagreement(s)")

    # 5. known findings -----------------------------------------------------------------
    def is_known(w):
        return any(f.get("status") == "known" and chk.finding_matches(w, f) for f in findings)

    for f in findings:
        try:
            fails, detail = chk.oracle_replay(ctx, f["witness"])
        except Exception as e:
            fails, detail = None, "replay crashed: " + repr(e)
        if f.get("status") == "known":
            if fails:
                line = f"KNOWN-FINDING: property={pid} {f['what']}"
                print(line, flush=True)
                known_lines.append(line)
            else:
                ctx.log(f"note: known finding no longer reproduces ({f['what']}): {detail}")
        elif f.get("status") == "fixed":
            if fails:
                path = write_replay(pid, {"property": pid, "kind": "failing-input", "witness": f["witness"],
                                          "observed": detail, "note": "regression of fixed finding " + f.get("commit", "")})
                violations.append((path, False))

    # 6. always-on property sweep on the implementation -----------------------------------
    seen_w = set()

    def consider(w, detail, origin):
        key = canon(w)
        if key in seen_w or is_known(w):
            return False
        seen_w.add(key)
        path = write_replay(pid, {"property": pid, "kind": "failing-input", "witness": w,
                                  "observed": detail, "origin": origin,
                                  "broken": [b[1] for b in broken]})
        violations.append((path, False))
        return True

    # corpus: minimised past failures (witnesses found while testing seeded changes) are replayed first
    corpus_n = 0
    cpath = os.path.join(VERIF, "corpus", pid + ".jsonl")
    if os.path.exists(cpath):
        for line in open(cpath):
            line = line.strip()
            if not line:
                continue
            try:
                w = json.loads(line)
                fails, detail = chk.oracle_replay(ctx, w)
            except Exception as e:
                fails, detail = None, repr(e)
            corpus_n += 1
            if fails:
                consider(w, detail, "corpus witness")
    try:
        for w, detail in chk.oracle_always(ctx):
            consider(w, detail, "property sweep on the implementation")
            if len(violations) >= 3:
                break
    except Exception:
        infra_error = (infra_error or "") + "oracle sweep crashed: " + traceback.format_exc()

    # 7. a broken obligation: search for a failing input -----------------------------------
    if broken and not violations:
        ctx.log("broken: " + " | ".join(f"{k}: {d[:200]}" for k, d in broken))
        found = False
        for d in res.disagreements[:50]:
            w = d.get("witness")
            if w is None:
                continue
            try:
                fails, detail = chk.oracle_replay(ctx, w)
            except Exception as e:
                fails, detail = False, repr(e)
            if fails and consider(w, detail, "disagreement input"):
                found = True
                break
        if not found:
            budget = 600 if tier == "thorough" else 150
            try:
                for w, detail in chk.oracle_search(ctx, budget):
                    if consider(w, detail, "failing-input search"):
                        found = True
                        break
            except Exception:
                ctx.log("search crashed: " + traceback.format_exc())
        if not found:
            path = write_replay(pid, {"property": pid, "kind": "no-failing-input-found",
                                      "broken": [{"what": k, "detail": d} for k, d in broken],
                                      "first_disagreement": res.disagreements[:1]})
            violations.append((path, True))

    # 8. evidence ---------------------------------------------------------------------------
    wall = time.time() - ctx.t0
    cov = {
        "obligations": len(chk.theorems),
        "discharged": discharged,
        "checker_cmd": "cd lean && lake build " + " ".join(chk.lean_modules)
                       + "  # then `#print axioms` of every listed theorem (py/vlib/lean.py:audit)",
        "trusted_base": list(chk.trusted_base),
        "theorems": {t: axioms_seen.get(t) for t in chk.theorems},
        "evaluations": res.evaluations,
        "distinct_nontrivial": res.distinct_nontrivial,
        "rule": res.rule or chk.rule,
        "samples": res.samples[:12] if res.samples else [{"theorems": chk.theorems[:3]}],
        "exhaustive": bool(res.exhaustive),
        "histogram": res.hist,
        "correspondence_disagreements": len(res.disagreements),
        "known_findings_reproduced": known_lines,
        "corpus_witnesses_replayed": corpus_n,
        "broken": [{"what": k, "detail": d[:500]} for k, d in broken],
        "notes": res.notes,
    }
    ev = {"property_id": pid, "tier": tier, "seed": seed, "level": "proof", "coverage": cov,
          "assumptions": list(chk.assumptions), "wall_s": round(wall, 2), "violations": len(violations)}
    os.makedirs(EVIDENCE, exist_ok=True)
    with open(os.path.join(EVIDENCE, pid + ".json"), "w") as f:
        json.dump(ev, f, indent=1, sort_keys=True, default=str)

    for path, nofound in violations:
        print(f"VIOLATION property={pid} replay={path}" + (" no-failing-input-found" if nofound else ""), flush=True)
    if violations:
        return 1
    if infra_error:
        print(infra_error, file=sys.stderr)
        return 2
    ctx.log(f"{pid} ok: {discharged}/{len(chk.theorems)} theorems audited, {res.evaluations} correspondence cases, "
            f"{wall:.1f}s")
    return 0


def run_replay(chk, path):
    ctx = Ctx("quick", 0)
    os.environ[GUARD] = "1"
    data = json.load(open(path if os.path.isabs(path) else os.path.join(VERIF, path)))
    if data.get("kind") == "no-failing-input-found":
        print("replay names broken obligations, no concrete input:")
        print(json.dumps(data.get("broken"), indent=1))
        return 1
    fails, detail = chk.oracle_replay(ctx, data["witness"])
    print(("FAILS: " if fails else "passes: ") + str(detail))
    return 1 if fails else 0


def run_setup():
    """MANIFEST.setup_cmd: build the Lean modules and drivers of every claimed property."""
    man = json.load(open(os.path.join(VERIF, "MANIFEST.json")))
    targets = []
    for c in man["checks"]:
        chk = importlib.import_module("props." + c["property_id"].lower()).CHECK
        try:
            chk.regenerate(Ctx("quick", 0))
        except Exception as e:
            print("regenerate failed for", chk.id, e)
        for t in list(chk.lean_modules) + list(chk.drivers):
            if t not in targets:
                targets.append(t)
    ok, log, dt = lean.lake_build(targets)
    print(log[-3000:])
    print(f"setup: built {len(targets)} targets in {dt:.0f}s: {'ok' if ok else 'FAILED'}")
    return 0 if ok else 1


def main(argv=None):
    ap = argparse.ArgumentParser()
    ap.add_argument("property")
    ap.add_argument("--tier", default=os.environ.get("VERIF_TIER", "quick"), choices=["quick", "thorough"])
    ap.add_argument("--replay")
    a = ap.parse_args(argv)
    if a.property == "setup":
        return run_setup()
    seed = int(os.environ.get("VERIF_SEED", "0") or 0)
    mod = importlib.import_module("props." + a.property.lower())
    chk = mod.CHECK
    try:
        if a.replay:
            return run_replay(chk, a.replay)
        return run_check(chk, a.tier, seed)
    except Exception:
        traceback.print_exc()
        return 2
