"""Lean side of a check: build, axiom audit, forbidden-token scan, model drivers."""
import os, re, subprocess, time, json, hashlib, tempfile
from .paths import LEAN

ALLOWED_AXIOMS = {"propext", "Classical.choice", "Quot.sound"}
FORBIDDEN = re.compile(
    r"\bsorry\b|\badmit\b|^\s*axiom\s|native_decide|bv_decide|implemented_by|\bunsafe\s|maxHeartbeats\s+0\b",
    re.M,
)


def _env():
    e = dict(os.environ)
    e.pop("LEAN_PATH", None)
    return e


def lake_build(targets, timeout=3600):
    """Build the given lake targets.  Returns (ok, log)."""
    t0 = time.time()
    p = subprocess.run(["lake", "build", *targets], cwd=LEAN, env=_env(),
                       stdout=subprocess.PIPE, stderr=subprocess.STDOUT, text=True, timeout=timeout)
    return p.returncode == 0, p.stdout, time.time() - t0


def strip_comments(src: str) -> str:
    # block comments (nesting handled by repeated removal of innermost), then line comments
    prev = None
    while prev != src:
        prev = src
        src = re.sub(r"/-(?:(?!/-|-/).)*?-/", " ", src, flags=re.S)
    src = re.sub(r"--[^\n]*", "", src)
    return src


def module_file(mod: str) -> str:
    return os.path.join(LEAN, *mod.split(".")) + ".lean"


def transitive_local_modules(mods):
    """All modules of this project reachable through imports from `mods`."""
    seen, todo = set(), list(mods)
    while todo:
        m = todo.pop()
        if m in seen:
            continue
        f = module_file(m)
        if not os.path.exists(f):
            continue
        seen.add(m)
        for line in open(f):
            mm = re.match(r"\s*(?:public\s+)?import\s+([\w.]+)", line)
            if mm and (mm.group(1).startswith("QipVerif") or mm.group(1).startswith("Drv")):
                todo.append(mm.group(1))
    return sorted(seen)


def forbidden_scan(mods):
    """Forbidden tokens (outside comments) in the given modules and everything local they import."""
    hits = []
    for m in transitive_local_modules(mods):
        src = strip_comments(open(module_file(m)).read())
        for mt in FORBIDDEN.finditer(src):
            line = src.count("\n", 0, mt.start()) + 1
            hits.append(f"{m}:{line}: {mt.group(0).strip()}")
    return hits


def audit(modules, theorems, timeout=1800):
    """`#print axioms` for every theorem; returns dict name -> list of axioms (or None if missing)."""
    src = "".join(f"import {m}\n" for m in modules)
    for t in theorems:
        src += f"#print axioms {t}\n"
    os.makedirs(os.path.join(LEAN, ".audit"), exist_ok=True)
    path = os.path.join(LEAN, ".audit", "audit_%s.lean" % hashlib.sha1(src.encode()).hexdigest()[:12])
    open(path, "w").write(src)
    p = subprocess.run(["lake", "env", "lean", path], cwd=LEAN, env=_env(),
                       stdout=subprocess.PIPE, stderr=subprocess.STDOUT, text=True, timeout=timeout)
    out = p.stdout
    res = {t: None for t in theorems}
    # messages: "'name' depends on axioms: [a, b]"  or "'name' does not depend on any axioms"
    flat = re.sub(r"\s+", " ", out)
    for t in theorems:
        short = re.escape(t)
        m = re.search(r"'(?:[\w.]*\.)?%s' depends on axioms: \[([^\]]*)\]" % short, flat)
        if m:
            res[t] = [a.strip() for a in m.group(1).split(",") if a.strip()]
            continue
        if re.search(r"'(?:[\w.]*\.)?%s' does not depend on any axioms" % short, flat):
            res[t] = []
    try:
        os.remove(path)
    except OSError:
        pass
    return res, out


def leanchecker(modules, timeout=3600):
    p = subprocess.run(["lake", "env", "leanchecker", *modules], cwd=LEAN, env=_env(),
                       stdout=subprocess.PIPE, stderr=subprocess.STDOUT, text=True, timeout=timeout)
    return p.returncode == 0, p.stdout


class Driver:
    """A compiled model driver speaking the line protocol (one request line, one answer line)."""

    def __init__(self, name):
        self.name = name
        self.path = os.path.join(LEAN, ".lake", "build", "bin", name)

    def run(self, lines, timeout=3600):
        if not lines:
            return []
        for l in lines:
            if "\n" in l:
                raise ValueError("newline in protocol line")
        data = "\n".join(lines) + "\n"
        p = subprocess.run([self.path], input=data, stdout=subprocess.PIPE, stderr=subprocess.PIPE,
                           text=True, timeout=timeout)
        if p.returncode != 0:
            raise RuntimeError(f"driver {self.name} failed: {p.stderr[-2000:]}")
        out = p.stdout.split("\n")
        if out and out[-1] == "":
            out.pop()
        if len(out) != len(lines):
            raise RuntimeError(f"driver {self.name}: {len(lines)} requests, {len(out)} answers")
        return out
