"""Source pins: the code of /repo a property check is tied to, item by item, by a hash of the normalised AST.

pins/<id>.json = {"pinned_at": "<repo commit>", "traversed_at": "<repo commit>", "items": [{"file": "src/qutip_qip/...py",
"name": "Class.method" | "function" | "NAME" (module-level assignment) | "Class.NAME" (class-level assignment) | "Class" (whole
class), "hash": "<sha256 of the normalised AST>", "kind": "transcribed" (default when absent) | "traversed"}]}.

Two kinds of items:
* transcribed — the functions / methods / tables the property's HAND-WRITTEN model (lean/QipVerif/Model/*.lean) transcribes, the
  translator reads structurally, or whose contract the model assumes.  Listed by hand.
* traversed   — the glue: every function / method / property of src/qutip_qip that is EXECUTED while the property's quick check
  runs on the clean tree (regeneration, correspondence, known findings, corpus, oracle sweeps; helper processes included), plus all
  module-level assignments of every file in which such a function lives and the class-level assignments of every class one of whose
  methods ran (constructors, base classes, helpers, defaults, tables).  MEASURED by `py/tools/pin_traversed.py` with the call
  tracer below (`VERIF_TRACE_CALLS=<file>`), never listed by hand.  Code that is only imported (module and class bodies) does not
  count; version.py and __init__.py are left out.  The set is what ONE quick run (default seed) executes: it shows which code the
  check's inputs pass through, not that the check would notice a behavioural change there.

A check recomputes every hash from the working tree of $VERIF_REPO.  A difference means: the code the model was written from /
the check was measured through is no longer the code that is there, so the tie between model and code is broken for that item
(obligation `source-pin`, the text names the kind); the check then searches for a failing input like for any other broken
obligation (`VIOLATION … replay=…`, or `… no-failing-input-found` when behaviour is unchanged).  The normalised AST ignores
comments, blank lines, formatting and docstrings, nothing else; a property's getter and setter are hashed together.  Hashes are
refreshed by hand with `py/tools/pin_sources.py` (both kinds alike) after the model has been re-validated against changed code; the
traversed SET is re-measured with `py/tools/pin_traversed.py` (never at run time)."""
import ast, hashlib, json, os
from .paths import REPO, VERIF as ROOT

def _strip_docstrings(node):
    for n in ast.walk(node):
        if isinstance(n, (ast.FunctionDef, ast.AsyncFunctionDef, ast.ClassDef, ast.Module)):
            b = n.body
            if b and isinstance(b[0], ast.Expr) and isinstance(getattr(b[0], "value", None), ast.Constant) \
                    and isinstance(b[0].value.value, str):
                n.body = b[1:] or [ast.Pass()]
    return node

def _find(tree, name):
    """every definition of `name` (a property has a getter and a setter of the same name): list of nodes, [] if absent"""
    parts = name.split(".")
    scopes = [tree.body]
    nodes = []
    for i, p in enumerate(parts):
        nodes = []
        for scope in scopes:
            for n in scope:
                if isinstance(n, (ast.FunctionDef, ast.AsyncFunctionDef, ast.ClassDef)) and n.name == p:
                    nodes.append(n)
                elif isinstance(n, (ast.Assign, ast.AnnAssign)) and i == len(parts) - 1:
                    tg = n.targets if isinstance(n, ast.Assign) else [n.target]
                    if any(isinstance(t, ast.Name) and t.id == p for t in tg):
                        nodes.append(n)
        if not nodes:
            return []
        scopes = [getattr(n, "body", []) for n in nodes]
    return nodes

def item_hash(repo, file, name, _trees=None):
    """hash of one item; `_trees`: optional dict used as a cache of parsed files (docstrings stripped once per file)"""
    path = os.path.join(repo, file)
    try:
        if _trees is not None:
            if path not in _trees:
                try:
                    _trees[path] = _strip_docstrings(ast.parse(open(path).read()))
                except (OSError, SyntaxError):
                    _trees[path] = None
            tree = _trees[path]
            if tree is None:
                return None
        else:
            tree = ast.parse(open(path).read())
    except (OSError, SyntaxError):
        return None
    nodes = _find(tree, name)
    if not nodes:
        return None
    if _trees is None:
        nodes = [_strip_docstrings(n) for n in nodes]
    text = "\n".join(ast.dump(n, annotate_fields=True, include_attributes=False) for n in nodes)
    return hashlib.sha256(text.encode()).hexdigest()[:24]

def pin_file(pid):
    return os.path.join(ROOT, "pins", pid + ".json")

def load(pid):
    p = pin_file(pid)
    return json.load(open(p)) if os.path.exists(p) else {"items": []}

def kind_of(it):
    return it.get("kind") or "transcribed"

def counts(pid):
    """-> (number of transcribed items, number of traversed items)"""
    items = load(pid).get("items", [])
    t = sum(1 for it in items if kind_of(it) == "traversed")
    return len(items) - t, t

def check_kinds(pid, repo=None):
    """-> list of (file, name, why, kind) for every pinned item whose source is not the pinned one"""
    repo = repo or REPO
    out = []
    trees = {}
    for it in load(pid).get("items", []):
        h = item_hash(repo, it["file"], it["name"], trees)
        if h is None:
            out.append((it["file"], it["name"], "not found in the source", kind_of(it)))
        elif h != it.get("hash"):
            out.append((it["file"], it["name"], "source differs from the pinned text", kind_of(it)))
    return out

def check(pid, repo=None):
    """-> list of (file, name, why) for every pinned item (of either kind) whose source is not the pinned one"""
    return [m[:3] for m in check_kinds(pid, repo)]

def describe(moved, limit=8):
    """the broken-obligation texts for the result of check_kinds: one per kind, naming the kind"""
    out = []
    for kind, label in (("transcribed", "source-pin (transcribed): modelled source changed (the model was written from other text): "),
                        ("traversed", "source-pin (traversed glue): code the check passes through changed (the traversed set was "
                                      "measured on other text): ")):
        m = [x for x in moved if x[3] == kind]
        if m:
            out.append(label + "; ".join(f"{f}::{n} ({why})" for f, n, why, _ in m[:limit])
                       + (f" … and {len(m) - limit} more" if len(m) > limit else ""))
    return out


# ------------------------------------------------------------------------------------------------------------------
# call tracer (VERIF_TRACE_CALLS=<outfile>): which code objects of $VERIF_REPO/src/qutip_qip are executed by this process
# and by the processes it forks / starts (they inherit the variable and import vlib.core).  Every NEW code object is written
# through at once as one JSON line [file, qualname, first line, "func" | "class" | "module"] to <outfile>.<pid>, so helper
# processes that leave with os._exit lose nothing.  Python >= 3.12: sys.monitoring PY_START with DISABLE per code object (no
# cost after the first call); older: sys.setprofile / threading.setprofile.

_TRACE = {"on": False}

def install_tracer_from_env():
    out = os.environ.get("VERIF_TRACE_CALLS")
    if not out or _TRACE["on"]:
        return False
    import sys
    roots = {os.path.join(REPO, "src", "qutip_qip") + os.sep, os.path.join(os.path.realpath(REPO), "src", "qutip_qip") + os.sep}
    roots = tuple(roots)
    cut = {r: len(r) - len(os.path.join("src", "qutip_qip") + os.sep) for r in roots}
    seen = set()
    st = {"pid": None, "fh": None}

    def record(code):
        fn = code.co_filename
        if not fn.startswith(roots):
            return
        key = (fn, getattr(code, "co_qualname", code.co_name), code.co_firstlineno)
        if key in seen:
            return
        seen.add(key)
        pid = os.getpid()
        if st["pid"] != pid:                         # first record of this process (also: a forked child)
            st["pid"], st["fh"] = pid, open(f"{out}.{pid}", "a", buffering=1)
        root = next(r for r in roots if fn.startswith(r))
        kind = "module" if code.co_name == "<module>" else ("func" if code.co_flags & 0x1 else "class")
        st["fh"].write(json.dumps([fn[cut[root]:], key[1], key[2], kind]) + "\n")

    mon = getattr(sys, "monitoring", None)
    if mon is not None:
        tool = None
        for tid in (mon.PROFILER_ID, 3, 4, mon.COVERAGE_ID):
            try:
                mon.use_tool_id(tid, "verif-trace-calls")
                tool = tid
                break
            except ValueError:
                continue
        if tool is not None:
            def on_start(code, offset):
                record(code)
                return mon.DISABLE
            mon.register_callback(tool, mon.events.PY_START, on_start)
            mon.set_events(tool, mon.events.PY_START)
            _TRACE["on"] = True
            return True
    import threading

    def prof(frame, event, arg):
        if event == "call":
            record(frame.f_code)
    sys.setprofile(prof)
    threading.setprofile(prof)
    _TRACE["on"] = True
    return True

def read_trace(out):
    """-> set of (file, qualname, first line, kind) from <out>.<pid> of every process of one traced run"""
    import glob
    recs = set()
    for p in glob.glob(out + ".*"):
        for line in open(p):
            line = line.strip()
            if line:
                try:
                    recs.add(tuple(json.loads(line)))
                except ValueError:
                    pass                             # a line cut off by a killed helper
    return recs
