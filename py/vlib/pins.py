"""Source pins: the functions / classes / module-level tables of /repo that a property's HAND-WRITTEN model transcribes.

pins/<id>.json = {"pinned_at": "<repo commit>", "items": [{"file": "src/qutip_qip/...py", "name": "Class.method" | "function" |
"NAME" (module-level assignment) | "Class" (whole class), "hash": "<sha256 of the normalised AST>"}]}.
A check recomputes every hash from the working tree of $VERIF_REPO.  A difference means: the code the model was written from is no
longer the code that is there, so the tie between model and code is broken for that item (obligation `source-pin`); the check then
searches for a failing input like for any other broken obligation.  The normalised AST ignores comments, blank lines, formatting and
docstrings, nothing else.  Pins are refreshed by hand with `py/tools/pin_sources.py` after the model has been re-validated against
changed code (never at run time)."""
import ast, hashlib, json, os
from .paths import REPO, VERIF as ROOT

def _strip_docstrings(node):
    for n in ast.walk(node):
        if isinstance(n, (ast.FunctionDef, ast.AsyncFunctionDef, ast.ClassDef, ast.Module)):
            b = n.body
            if b and isinstance(b[0], ast.Expr) and isinstance(getattr(b[0], "value", None), ast.Constant) \
                    and isinstance(b[0].value.value, str):
                n.body = b[1:] or [ast.Pass()]
    return node

def _find(tree, name):
    """every definition of `name` (a property has a getter and a setter of the same name): list of nodes, [] if absent"""
    parts = name.split(".")
    scopes = [tree.body]
    nodes = []
    for i, p in enumerate(parts):
        nodes = []
        for scope in scopes:
            for n in scope:
                if isinstance(n, (ast.FunctionDef, ast.AsyncFunctionDef, ast.ClassDef)) and n.name == p:
                    nodes.append(n)
                elif isinstance(n, (ast.Assign, ast.AnnAssign)) and i == len(parts) - 1:
                    tg = n.targets if isinstance(n, ast.Assign) else [n.target]
                    if any(isinstance(t, ast.Name) and t.id == p for t in tg):
                        nodes.append(n)
        if not nodes:
            return []
        scopes = [getattr(n, "body", []) for n in nodes]
    return nodes

def item_hash(repo, file, name):
    path = os.path.join(repo, file)
    try:
        tree = ast.parse(open(path).read())
    except (OSError, SyntaxError):
        return None
    nodes = _find(tree, name)
    if not nodes:
        return None
    text = "\n".join(ast.dump(_strip_docstrings(n), annotate_fields=True, include_attributes=False) for n in nodes)
    return hashlib.sha256(text.encode()).hexdigest()[:24]

def pin_file(pid):
    return os.path.join(ROOT, "pins", pid + ".json")

def load(pid):
    p = pin_file(pid)
    return json.load(open(p)) if os.path.exists(p) else {"items": []}

def check(pid, repo=None):
    """-> list of (file, name, why) for every pinned item whose source is not the pinned one"""
    repo = repo or REPO
    out = []
    for it in load(pid).get("items", []):
        h = item_hash(repo, it["file"], it["name"])
        if h is None:
            out.append((it["file"], it["name"], "not found in the source"))
        elif h != it.get("hash"):
            out.append((it["file"], it["name"], "source differs from the pinned text"))
    return out
