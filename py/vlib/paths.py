import os
VERIF = os.path.dirname(os.path.dirname(os.path.dirname(os.path.abspath(__file__))))
LEAN = os.path.join(VERIF, "lean")
REPO = os.environ.get("VERIF_REPO", "/repo")
EVIDENCE = os.path.join(VERIF, "evidence")
REPLAYS = os.path.join(VERIF, "replays")
CORPUS = os.path.join(VERIF, "corpus")
KNOWN = os.path.join(VERIF, "known_findings.json")
GUARD = "QUTIP_QIP_VERIF"
