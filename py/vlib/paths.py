import os
VERIF = os.path.dirname(os.path.dirname(os.path.dirname(os.path.abspath(__file__))))
LEAN = os.environ.get("VERIF_LEAN") or os.path.join(VERIF, "lean")   # VERIF_LEAN: scratch copy for mutation runs
REPO = os.environ.get("VERIF_REPO", "/repo")
EVIDENCE = os.environ.get("VERIF_EVIDENCE") or os.path.join(VERIF, "evidence")
REPLAYS = os.environ.get("VERIF_REPLAYS") or os.path.join(VERIF, "replays")
CORPUS = os.path.join(VERIF, "corpus")
KNOWN = os.path.join(VERIF, "known_findings.json")
GUARD = "QUTIP_QIP_VERIF"
