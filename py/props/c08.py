"""C08 — operator embedding.  Correspondence of lean/QipVerif/Model/Embed.lean (digit tuples),
Model/EmbedFlat.lean (flat indices of the stored matrices: kron / _Indexer arithmetic of QuTiP) and
Model/EmbedArgs.lean (argument forms) with qutip_qip.operations.gates.expand_operator and with the QuTiP /
numpy primitives the flat model transcribes, plus the direct numerical statement of the property."""
import ast, itertools, os, time, warnings
import numpy as np

from vlib.core import PropertyCheck
from vlib import paths


def _impl():
    from qutip_qip.operations.gates import expand_operator
    import qutip
    return expand_operator, qutip


def generic_oper(opdims, kind="generic", rng=None, unit=None):
    """An operator whose entries identify their own position (all distinct, non-zero)."""
    import qutip
    D = int(np.prod(opdims)) if len(opdims) else 1
    if kind == "generic":
        M = np.array([[1 + a * D + b for b in range(D)] for a in range(D)], dtype=complex)
    elif kind == "unit":
        M = np.zeros((D, D), dtype=complex)
        M[unit] = 1
    else:
        M = np.array([[complex(rng.randint(-8, 8), rng.randint(-8, 8)) for _ in range(D)] for _ in range(D)])
    return qutip.Qobj(M, dims=[list(opdims), list(opdims)]), M


def result_dtype_converted():
    """Model variant read from the tree: does expand_operator convert its *result* to `dtype`
    (a `.to(dtype)` call after the identities were built)?  Without it only the operand is converted and the
    result is CSR whenever an identity factor is tensored (proposed repair fixes/C08-1.patch)."""
    path = os.path.join(paths.REPO, "src", "qutip_qip", "operations", "gates.py")
    tree = ast.parse(open(path).read())
    for fn in ast.walk(tree):
        if isinstance(fn, ast.FunctionDef) and fn.name == "expand_operator":
            anchor = None
            for n in ast.walk(fn):
                if isinstance(n, ast.Assign) and any(isinstance(t, ast.Name) and t.id == "id_list" for t in n.targets):
                    anchor = n.lineno
            if anchor is None:
                return False
            for n in ast.walk(fn):
                if (isinstance(n, ast.Call) and isinstance(n.func, ast.Attribute) and n.func.attr == "to"
                        and n.lineno >= anchor
                        and any(isinstance(x, ast.Name) and x.id == "dtype" for a in n.args for x in ast.walk(a))):
                    return True
    return False


def classify_exc(e):
    msg = str(e)
    if isinstance(e, TypeError) and "non-int of type 'NoneType'" in msg:
        return "nosize"
    if isinstance(e, ValueError) and "same input and output dimensions" in msg:
        return "square"
    if isinstance(e, ValueError):
        if "target qutbis" in msg or "target qubits" in msg:
            return "count"
        if "smaller than N" in msg:
            return "range"
        if "do not match" in msg:
            return "dims"
        if "invalid order" in msg:
            return "permute"
        return "other:ValueError"
    if isinstance(e, IndexError):
        return "index"
    return "other:" + type(e).__name__


def impl_expand(dims, targets, oper, dtype=None):
    expand_operator, qutip = _impl()
    try:
        kw = {} if dtype is None else {"dtype": dtype}
        r = expand_operator(oper, dims=list(dims), targets=list(targets), **kw)
        return "ok", r
    except Exception as e:  # canonicalised below
        return classify_exc(e), None


def impl_call(**kw):
    """expand_operator with arbitrary keyword arguments; deprecation warnings silenced."""
    expand_operator, qutip = _impl()
    with warnings.catch_warnings():
        warnings.simplefilter("ignore")
        try:
            return "ok", expand_operator(**kw)
        except Exception as e:
            return classify_exc(e), None


def cells_matrix(body, tot, M, with_row=True):
    """matrix described by driver cells `X:Y:a:b` (or `Y:a:b`): entry = M[a, b]"""
    E = np.zeros((tot, tot), dtype=complex)
    for cell in filter(None, body.split(",")):
        f = cell.split(":")
        X, Y, a, b = map(int, f)
        E[X, Y] = M[a, b]
    return E


def spec_matrix(dims, targets, M):
    """C08's statement, written directly: element = M[x|targets, y|targets] * delta elsewhere."""
    dims = list(dims)
    N = len(dims)
    tot = int(np.prod(dims))
    od = [dims[t] for t in targets]
    idx = np.array(list(itertools.product(*[range(d) for d in dims])), dtype=int).reshape(tot, N)
    if len(targets):
        w = np.array([int(np.prod(od[i + 1:])) for i in range(len(od))])
        a = idx[:, targets] @ w
    else:
        a = np.zeros(tot, dtype=int)
    rest = [i for i in range(N) if i not in targets]
    if rest:
        wr = np.array([int(np.prod([dims[j] for j in rest[i + 1:]])) for i in range(len(rest))])
        r = idx[:, rest] @ wr
    else:
        r = np.zeros(tot, dtype=int)
    out = M[np.ix_(a, a)] * (r[:, None] == r[None, :])
    return out



# ------------------------------------------------------------------------------------------
# observation points that reach expand_operator through (mutable) objects
def gate_qobj_variant():
    """How Gate.get_qobj(num_qubits, dims) calls expand_operator in this tree (read with ast):
    (dims defaults to [2]*num_qubits, N=num_qubits is passed)."""
    path = os.path.join(paths.REPO, "src", "qutip_qip", "operations", "gateclass.py")
    tree = ast.parse(open(path).read())
    for cls in ast.walk(tree):
        if isinstance(cls, ast.ClassDef) and cls.name == "Gate":
            for fn in cls.body:
                if isinstance(fn, ast.FunctionDef) and fn.name == "get_qobj":
                    dims_default = any(isinstance(n, ast.Assign) and any(isinstance(t, ast.Name) and t.id == "dims"
                                                                          for t in n.targets) for n in ast.walk(fn))
                    passes_n = any(isinstance(n, ast.Call) and getattr(n.func, "id", None) == "expand_operator"
                                   and any(k.arg == "N" for k in n.keywords) for n in ast.walk(fn))
                    for n in ast.walk(fn):     # dims=<something other than the bare name> also counts as a default
                        if isinstance(n, ast.Call) and getattr(n.func, "id", None) == "expand_operator":
                            for k in n.keywords:
                                if k.arg == "dims" and not (isinstance(k.value, ast.Name) and k.value.id == "dims"):
                                    dims_default = True
                    return dims_default, passes_n
    from vlib.core import TranslatorError
    raise TranslatorError("Gate.get_qobj not found in operations/gateclass.py")


def hist_oper(od, oid):
    """operator object number `oid` on subsystems `od`: entries identify their position and the object"""
    import qutip
    D = int(np.prod(od))
    M = np.array([[1 + a * D + b + 1000 * oid for b in range(D)] for a in range(D)], dtype=complex)
    return qutip.Qobj(M, dims=[list(od), list(od)]), M


def targ_value(tk, tv):
    return None if tk == "none" else (tv if tk == "int" else list(tv))


def targ_str(tk, tv):
    return "none" if tk == "none" else ("i%d" % tv if tk == "int" else "l" + ",".join(map(str, tv)))


HIST_ENTRIES = {"evo": 1, "pulse-ideal": 1, "pulse-evo": 1, "pulse-noisy": 3, "drift": 2}
HIST_OUTPUTS = {"evo": [[0]], "pulse-ideal": [[0]], "pulse-evo": [[0]], "pulse-noisy": [[0, 1], [2]], "drift": [[0, 1]]}


class HistObject:
    """One real object of an entry point, driven through a history of public assignments and requests."""

    def __init__(self, entry, elems):
        from qutip_qip.pulse import Pulse, Drift, _EvoElement
        self.entry = entry
        q = [None if e["od"] is None else hist_oper(e["od"], e["oid"])[0] for e in elems]
        t = [targ_value(e["tk"], e["tv"]) for e in elems]
        if entry == "evo":
            self.obj = _EvoElement(q[0], t[0])
        elif entry in ("pulse-ideal", "pulse-evo"):
            self.obj = Pulse(q[0], t[0], tlist=None, coeff=True)
        elif entry == "pulse-noisy":
            self.obj = Pulse(q[0], t[0], tlist=None, coeff=True)
            self.obj.add_coherent_noise(q[1], t[1], coeff=True)
            self.obj.add_lindblad_noise(q[2], t[2], coeff=True)
        elif entry == "drift":
            self.obj = Drift()
            for qi, ti in zip(q, t):
                self.obj.add_drift(qi, ti)

    def _elem(self, i):
        o = self.obj
        if self.entry == "evo":
            return o
        if self.entry == "drift":
            return o.drift_hamiltonians[i]
        return o if i == 0 else (o.coherent_noise[0] if i == 1 else o.lindblad_noise[0])   # Pulse: public setters

    def set_targets(self, i, tk, tv):
        self._elem(i).targets = targ_value(tk, tv)

    def set_oper(self, i, od, oid):
        self._elem(i).qobj = None if od is None else hist_oper(od, oid)[0]

    def edit_targets(self, i, tv):
        """edit the element's OWN targets list object in place (reverse / item assignment / slice assignment)"""
        lst = self._elem(i).targets          # for a Pulse: the public getter returns the stored object
        if not isinstance(lst, list):
            self._elem(i).targets = list(tv)
            return
        if len(lst) == len(tv) and lst[::-1] == list(tv) and len(tv) > 1:
            lst.reverse()
        elif len(lst) == len(tv):
            for j, v in enumerate(tv):
                if lst[j] != v:
                    lst[j] = v
        else:
            lst[:] = list(tv)

    def get_shared(self, dims):
        """a request passing the SAME dims list object as the previous such request, edited in place to `dims`
        (a caller holding one list, e.g. processor.dims)"""
        if not hasattr(self, "shared_dims"):
            self.shared_dims = []
        self.shared_dims[:] = list(dims)
        return self.get(self.shared_dims)

    def get(self, dims):
        """-> ("ok", [Qobj, ...]) one per output of the entry point, or (error class, None)"""
        import contextlib, io
        o, e = self.obj, self.entry
        with warnings.catch_warnings(), contextlib.redirect_stdout(io.StringIO()):
            warnings.simplefilter("ignore")
            try:
                if e == "evo":
                    return "ok", [o.get_qobj(dims)]
                if e == "pulse-ideal":
                    return "ok", [o.get_ideal_qobj(dims)]
                if e == "pulse-evo":
                    return "ok", [o.get_ideal_qobjevo(dims)(0.0)]
                if e == "pulse-noisy":
                    qu, c = o.get_noisy_qobjevo(dims)
                    return "ok", [qu(0.0), c[0](0.0)]
                if e == "drift":
                    return "ok", [o.get_ideal_qobjevo(dims)(0.0)]
            except Exception as ex:
                return classify_exc(ex), None


def hist_wellformed(dims, cur):
    """is the request of one element well-formed for register dims (independent of the models)"""
    if cur["od"] is None:
        return len(dims) > 0, [0]
    od = cur["od"]
    ts = list(range(len(od))) if cur["tk"] == "none" else ([cur["tv"]] if cur["tk"] == "int" else list(cur["tv"]))
    return (len(ts) == len(od) and len(set(ts)) == len(ts) and all(0 <= t < len(dims) for t in ts)
            and [dims[t] for t in ts] == list(od)), ts


GATE_KINDS = {
    "X": dict(k=1, c=0), "RX": dict(k=1, c=0, arg=0.7), "CNOT": dict(k=2, c=1), "SWAP": dict(k=2, c=0),
    "CPHASE": dict(k=2, c=1, arg=0.3), "TOFFOLI": dict(k=3, c=2),
}


def make_gate(name, controls, targets):
    from qutip_qip.operations import Gate
    kw = {}
    if "arg" in GATE_KINDS[name]:
        kw["arg_value"] = GATE_KINDS[name]["arg"]
    return Gate(name, targets=list(targets), controls=(list(controls) if controls else None), **kw)


# ------------------------------------------------------------------------------------------
# numeric types of the integer-valued arguments (Model/EmbedNum.lean)
NUM_KINDS = {"int": "i", "bool": "b", "i64": "n", "i32": "n", "u8": "n", "arr0": "a", "float": "f", "f64": "f"}
NUM_INTEGRAL = ("int", "i64", "i32", "u8")          # types a well-formed request may not be refused for


def mk_num(kind, v):
    return {"int": int, "bool": bool, "i64": np.int64, "i32": np.int32, "u8": np.uint8, "arr0": np.array,
            "float": float, "f64": np.float64}[kind](v)


def num_s(x):
    return f"{NUM_KINDS[x[0]]}:{int(x[1])}"


def typed_container(form, nums):
    vals = [mk_num(k, v) for k, v in nums]
    if form == "tuple":
        return tuple(vals)
    if form == "array":                     # homogeneous kinds only (see _typed_cases)
        return np.array(vals)
    return vals


def typed_call(w):
    """perform the call described by a `typed` witness -> ("ok", [Qobj..]) | (error class, None); the operator matrix"""
    from qutip_qip.pulse import Pulse, Drift
    e = w["entry"]
    ts = None if w["targets"] is None else (mk_num(*w["targets"][1]) if w["targets"][0] == "scalar"
                                            else typed_container(w.get("tform", "list"), w["targets"][1]))
    dims = None if w["dims"] is None else (mk_num(*w["dims"][1]) if w["dims"][0] == "scalar"
                                           else typed_container(w.get("dform", "list"), w["dims"][1]))
    size = None if w.get("size") is None else mk_num(*w["size"])
    with warnings.catch_warnings():
        warnings.simplefilter("ignore")
        try:
            if e == "gate":
                nm = w["gate"]
                c = GATE_KINDS[nm]["c"]
                from qutip_qip.operations import Gate
                kw = {"arg_value": GATE_KINDS[nm]["arg"]} if "arg" in GATE_KINDS[nm] else {}
                g = Gate(nm, targets=list(ts[c:]), controls=(list(ts[:c]) if c else None), **kw)
                M = g.get_compact_qobj().full()
                kw2 = {}
                if size is not None:
                    kw2["num_qubits"] = size
                if dims is not None:
                    kw2["dims"] = dims
                return "ok", [g.get_qobj(**kw2)], M
            oper, M = generic_oper(w["od"])
            if e == "expand":
                kw = {}
                if size is not None:
                    kw["N"] = size
                if dims is not None:
                    kw["dims"] = dims
                if w["targets"] is not None:
                    kw["targets"] = ts
                expand_operator, _q = _impl()
                return "ok", [expand_operator(oper, **kw)], M
            if e == "pulse":
                return "ok", [Pulse(oper, ts).get_ideal_qobj(dims)], M
            if e == "drift":
                d = Drift()
                d.add_drift(oper, ts)
                return "ok", [d.get_ideal_qobjevo(dims)(0.0)], M
        except Exception as ex:
            return classify_exc(ex), None, (None if "M" not in dir() else M)
    raise ValueError(e)


def typed_line(w):
    """the request of a `typed` witness for the driver command `argst`"""
    e = w["entry"]
    if e == "gate":
        k = GATE_KINDS[w["gate"]]["k"]
        opl = [2] * k
    else:
        opl = w["od"]
    n = "none"
    if w["dims"] is None:
        if e == "gate":
            if w.get("size") is None:
                mx = max(int(v) for _k, v in w["targets"][1]) + 1
                d = f"qi:{mx}"
            else:
                d = "q" + num_s(w["size"])
        else:
            d = "none"
            n = "none" if w.get("size") is None else num_s(w["size"])
    elif w["dims"][0] == "scalar":
        d = "p" + num_s(w["dims"][1])
    else:
        d = "l" + ",".join(num_s(x) for x in w["dims"][1])
        if e == "expand" and w.get("size") is not None:
            n = num_s(w["size"])
    if w["targets"] is None:
        t = "none"
    elif w["targets"][0] == "scalar":
        t = "s" + num_s(w["targets"][1])
    else:
        t = "l" + ",".join(num_s(x) for x in w["targets"][1])
    return (f"argst n={n} dims={d} t={t} opl={','.join(map(str, opl))} opr={','.join(map(str, opl))} cyclic=0")


# ------------------------------------------------------------------------------------------
# large registers (9-12 subsystems): sparse operators, structured specification (no 2^N x 2^N dense matrix)
def sparse_oper(od, entries):
    """operator on subsystems `od` with the given non-zero entries [(a, b, value)], stored as CSR"""
    import qutip, scipy.sparse as sp
    D = int(np.prod(od))
    a, b, v = zip(*entries)
    m = sp.csr_matrix((np.array(v, dtype=complex), (np.array(a), np.array(b))), shape=(D, D))
    return qutip.Qobj(m, dims=[list(od), list(od)])


def spec_sparse(dims, targets, entries):
    """C08's statement for a sparse operator, as a dict (row, col) -> value: for every operator entry (a, b) and every
    assignment r of the other digits, element ((a on targets, r elsewhere), (b on targets, r elsewhere)) = value."""
    N = len(dims)
    W = [int(np.prod(dims[i + 1:])) for i in range(N)]
    od = [dims[t] for t in targets]
    rest = [i for i in range(N) if i not in targets]
    base = np.zeros(1, dtype=np.int64)
    for i in rest:
        base = (base[:, None] + W[i] * np.arange(dims[i])[None, :]).ravel()
    out = {}
    for a, b, v in entries:
        da = np.unravel_index(a, od) if od else ()
        db = np.unravel_index(b, od) if od else ()
        xa = sum(W[t] * int(x) for t, x in zip(targets, da))
        xb = sum(W[t] * int(x) for t, x in zip(targets, db))
        for r in base:
            out[(int(xa + r), int(xb + r))] = complex(v)
    return out


def qobj_entries(q):
    """non-zero stored entries of a (sparse) Qobj as dict (row, col) -> value"""
    import qutip
    m = q.to("csr").data.as_scipy().tocoo()
    return {(int(r), int(c)): complex(v) for r, c, v in zip(m.row, m.col, m.data) if v != 0}


def all_cases(maxN, alphabet=(2, 3, 4), maxk=3):
    for N in range(1, maxN + 1):
        for dims in itertools.product(alphabet, repeat=N):
            for k in range(1, min(maxk, N) + 1):
                for ts in itertools.permutations(range(N), k):
                    yield list(dims), list(ts)


class C08(PropertyCheck):
    id = "C08"
    lean_modules = ["QipVerif.Props.C08"]
    drivers = ["drv_embed"]
    theorems = [
        "QipVerif.C08.expand_eq_spec",
        "QipVerif.C08.newOrder_perm",
        "QipVerif.C08.newOrder_targets",
        "QipVerif.C08.permute_digits",
        "QipVerif.C08.permute_scatter",
        "QipVerif.C08.tensor_digits",
        "QipVerif.C08.flat_dims",
        "QipVerif.C08.flat_eq_digits",
        "QipVerif.C08.flat_eq_spec",
        "QipVerif.C08.flat_matrix_eq_spec",
        "QipVerif.C08.flat_entry_in_range",
        "QipVerif.C08.validate_rejects_count",
        "QipVerif.C08.validate_rejects_range",
        "QipVerif.C08.validate_rejects_dims",
        "QipVerif.C08.validate_ok_iff",
        "QipVerif.C08.args_plain",
        "QipVerif.C08.args_forms",
        "QipVerif.C08.args_one_sound",
        "QipVerif.C08.args_sound",
        "QipVerif.C08.args_cyclic",
        "QipVerif.C08.num_coerce_value",
        "QipVerif.C08.args_typed_sound",
        "QipVerif.C08.args_typed_int",
        "QipVerif.C08.history_get_current",
        "QipVerif.C08.elem_get_sound",
        "QipVerif.C08.embed_apply",
        "QipVerif.C08.embed_mul",
        "QipVerif.C08.embed_one",
        "QipVerif.C08.embed_comp",
    ]
    level_text = ("Lean 4 theorems, for every register size, dimension vector (positive entries), injective in-range target "
                  "list and operator: the entry stored at flat row X, flat column Y of what expand_operator returns — computed by "
                  "a model that transcribes QuTiP's own index arithmetic (tensor = iterated kron with "
                  "kron(A,B)[i,j] = A[i/n, j/n]*B[i%n, j%n]; Qobj.permute = permute.pyx's _Indexer: cumprod loop, single(), "
                  "all(), placement out[perm[n], perm[m]] = in[n, m]) applied to the code's new_order — equals the specified one: "
                  "the operator's entry at the flat indices formed by the target digits of X and Y, times a delta on all other "
                  "digits (flat_eq_spec, flat_matrix_eq_spec); the meaning of tensor and permute on subsystems is derived, not "
                  "assumed (tensor_digits, permute_digits), and the flat model equals the digit-tuple model used by the other "
                  "properties (flat_eq_digits). new_order is a permutation; validation accepts exactly well-formed requests; "
                  "every accepted call in any argument form (N=, dims=None, targets None/int/list, cyclic_permutation) is such a "
                  "well-formed placement on dims[:N] (args_*); numbers passed as bool / numpy integer / 0-d array / integral float are used with their own "
                  "value or the call raises (num_coerce_value, args_typed_sound); the objects that embed on demand (_EvoElement behind Pulse / "
                  "Drift) answer from their current fields only, after any history of re-assignments and requests "
                  "(history_get_current, elem_get_sound). Tie: histories on one real object (re-targeting through the public "
                  "setters, replacing the operator, changing dims) at every observation point (Pulse.get_ideal_qobj / "
                  "get_ideal_qobjevo / get_noisy_qobjevo, Drift, _EvoElement, Gate.get_qobj) are compared entry by entry; the whole matrix is compared position by position, "
                  "exhaustively for all dims in {2,3,4}^N, N<=3 (quick) / N<=4 (thorough) and all target tuples, sampled beyond; "
                  "the transcribed index conventions are compared with QuTiP's and numpy's primitives exhaustively on small shapes.")
    level_note = ("Trusted: Lean kernel (axioms propext, Classical.choice, Quot.sound); that QuTiP's compiled kron and "
                  "permute.dimensions realise the index formulas written in Model/EmbedFlat.lean (transcribed from permute.pyx / "
                  "the Kronecker definition; compared exhaustively on small shapes with qutip.core.data and numpy on every run, "
                  "not proved); the harness py/props/c08.py. No longer trusted: the meaning of tensor/permute on subsystems.")
    technique = ("Lean 4 proof (mixed-radix index arithmetic of QuTiP's kron/_Indexer refined to digit tuples; induction over the "
                 "list algorithm; Mathlib Kronecker/reindex algebra) + model/implementation correspondence")
    trusted_base = [
        "Lean 4.33 kernel; axioms propext, Classical.choice, Quot.sound",
        "index conventions of the stored matrices as transcribed in Model/EmbedFlat.lean: qutip.core.data.kron "
        "(row index = i_A*dim_B + i_B), permute.pyx _Indexer.__init__/single/all and the placement of "
        "_indices_csr_full / indices_dense, Qobj.permute passing dims[0] and order unchanged; compared on every run with "
        "qutip.core.data.permute.dimensions (Dense, CSR), Qobj.permute, qutip.core.data.kron, qutip.tensor and numpy "
        "(reshape/transpose, kron) for all structures in {2,3,4}^n, n<=3 (4 thorough) and all orders",
        "data-layer conversions of QuTiP (oper.to(dtype), dispatch of kron/permute between CSR/Dense/Dia) preserve the matrix",
        "the composition of the observation points from element operators as written in the harness (Pulse.get_noisy_qobjevo = "
        "ideal + coherent noise and the Lindblad operators, Drift = sum of its Hamiltonians, QobjEvo evaluated at t=0 with "
        "coeff=True; Gate.get_qobj's call of expand_operator read from the tree with ast)",
        "py/props/c08.py (harness, canonicalisation of exceptions to {count,range,dims,index,permute,square,nosize})",
    ]
    assumptions = ["linearity of expand_operator in the operator (additionally sampled with matrix units and random dense operators)",
                   "dimensions are positive (QuTiP refuses zero dimensions when the Qobj is built)"]
    rule = ("case = (dims over {2,3,4}, injective target tuple, operator kind, dtype, whole matrix or sampled rows) for the "
            "flat-index and the digit-tuple model; (structure, order) / (D, rest) for the index conventions; (N, dims, targets "
            "form, operator dims, cyclic) for the argument forms; (entry point, elements, sequence of assignments and "
            "requests) for histories on one object; (entry point, numeric type of every number) for typed requests; non-trivial = at least one non-target subsystem or a "
            "non-identity target order / a non-identity order; malformed and validation streams counted separately")

    # ---------------------------------------------------------------------------------
    def _compare_case(self, ctx, res, dims, targets, rows, kind="generic", dtype=None, unit=None):
        od = [dims[t] for t in targets]
        oper, M = generic_oper(od, kind, ctx.rng, unit)
        st, r = impl_expand(dims, targets, oper, dtype)
        inp = {"dims": dims, "targets": targets, "oper": kind, "dtype": dtype, "rows": rows[:4]}
        res.case(inp, nontrivial=(len(targets) < len(dims) or targets != sorted(targets)),
                 tags=[f"N={len(dims)}", f"k={len(targets)}", f"oper={kind}", f"dtype={dtype}"])
        w = {"kind": "valid", "dims": dims, "targets": targets}
        if st != "ok":
            res.disagree(inp, "ok", st, "implementation rejects a valid embedding", w)
            return
        full = r.full()
        if r.dims != [dims, dims]:
            res.disagree(inp, [dims, dims], r.dims, "dims of the result", w)
            return
        lines = [f"row dims={','.join(map(str, dims))} targets={','.join(map(str, targets))} x={X}" for X in rows]
        use_flat = int(np.prod(dims)) <= 300 or ctx.rng.random() < (0.05 if ctx.thorough else 1.0)
        if use_flat:     # the same rows from the flat-index model
            lines += ["f" + l for l in lines]
        outs = ctx.driver("drv_embed").run(lines)
        if use_flat:
            if outs[:len(rows)] != outs[len(rows):]:
                res.disagree(inp, outs[:len(rows)], outs[len(rows):], "digit-tuple model and flat-index model differ", w)
                return
            outs = outs[len(rows):]
        for X, o in zip(rows, outs):
            exp = {}
            body = o[3:].strip() if o.startswith("ok") else None
            if body is None:
                res.disagree(inp, o, "ok", "model refused", w)
                return
            for cell in filter(None, body.split(",")):
                Y, a, b = map(int, cell.split(":"))
                if M[a, b] != 0:
                    exp[Y] = complex(M[a, b])
            got = {int(Y): complex(full[X, Y]) for Y in np.nonzero(full[X])[0]}
            if exp != got:
                res.disagree(dict(inp, row=X), {str(k): str(v) for k, v in sorted(exp.items())},
                             {str(k): str(v) for k, v in sorted(got.items())},
                             "row of the expanded operator", w)
                return

    def _malformed(self, ctx, res, n):
        rng = ctx.rng
        lines, cases = [], []
        for _ in range(n):
            N = rng.randint(1, 4)
            dims = [rng.choice([2, 3, 4]) for _ in range(N)]
            k = rng.randint(1, 3)
            mode = rng.choice(["dup", "neg", "big", "count", "dims", "valid", "perm", "full"])
            ts = rng.sample(range(N), min(k, N))
            od = [dims[t] for t in ts]
            if mode == "dup" and ts:
                ts = ts + [rng.choice(ts)]
                od = od + [dims[ts[-1]]]
            elif mode == "neg":
                ts[rng.randrange(len(ts))] = -rng.randint(1, N + 1)
                od = [dims[t] if -N <= t < N else 2 for t in ts]
            elif mode == "big":
                ts[rng.randrange(len(ts))] = N + rng.randint(0, 2)
                od = [dims[t] if t < N else 2 for t in ts]
            elif mode == "count":
                od = od + [2] if rng.random() < 0.5 or len(od) < 2 else od[:-1]
            elif mode == "dims":
                j = rng.randrange(len(od))
                od[j] = {2: 3, 3: 4, 4: 2}[od[j]]
            elif mode == "perm":       # operator dims = the targets' dims in another order
                od = od[:]
                rng.shuffle(od)
            elif mode == "full":       # full-width operator with the register's dims, targets in any order
                ts = list(range(N))
                rng.shuffle(ts)
                od = list(dims)
            cases.append((dims, ts, od, mode))
            lines.append(f"validate dims={','.join(map(str, dims))} targets={','.join(map(str, ts))} "
                         f"opdims={','.join(map(str, od))}")
        outs = ctx.driver("drv_embed").run(lines)
        for (dims, ts, od, mode), o in zip(cases, outs):
            oper, _ = generic_oper(od)
            st, _r = impl_expand(dims, ts, oper)
            model = "ok" if o == "ok" else o.replace("err ", "")
            inp = {"dims": dims, "targets": ts, "opdims": od, "malformed": mode}
            res.case(inp, nontrivial=True, tags=[f"malformed={mode}", f"verdict={model}"])
            if st != model:
                res.disagree(inp, model, st, "validation verdict",
                             {"kind": "malformed", "dims": dims, "targets": ts, "opdims": od})

    def _validation_exhaustive(self, ctx, res, maxN):
        """Every request over a small alphabet: dims in {2,3}^N, every target tuple over -1..N (duplicates,
        negatives and out-of-range included), every operator dims tuple over {2,3} of length 1..3."""
        cases, lines = [], []
        for N in range(1, maxN + 1):
            for dims in itertools.product((2, 3), repeat=N):
                for k in range(1, 4):
                    for ts in itertools.product(range(-1, N + 1), repeat=k):
                        for kk in {k, min(k + 1, 3), max(k - 1, 1)}:
                            for od in itertools.product((2, 3), repeat=kk):
                                cases.append((list(dims), list(ts), list(od)))
        for dims, ts, od in cases:
            lines.append(f"validate dims={','.join(map(str, dims))} targets={','.join(map(str, ts))} "
                         f"opdims={','.join(map(str, od))}")
        outs = ctx.driver("drv_embed").run(lines)
        opers = {}
        for (dims, ts, od), o in zip(cases, outs):
            key = tuple(od)
            if key not in opers:
                opers[key] = generic_oper(od)[0]
            st, _r = impl_expand(dims, ts, opers[key])
            model = "ok" if o == "ok" else o.replace("err ", "")
            inp = {"dims": dims, "targets": ts, "opdims": od, "malformed": "exhaustive"}
            res.case(inp, nontrivial=True, tags=["validation-exhaustive", f"verdict={model}"])
            if st != model:
                res.disagree(inp, model, st, "validation verdict",
                             {"kind": "malformed", "dims": dims, "targets": ts, "opdims": od})
        res.notes.append(f"validation verdicts compared exhaustively for N <= {maxN}: dims over {{2,3}}, all target tuples of "
                         f"length 1-3 over -1..N, all operator dims tuples over {{2,3}} ({len(cases)} requests)")


    # ---------------------------------------------------------------------------------
    # the flat-index model (Model/EmbedFlat.lean): the remaining trusted conventions, then the whole matrix
    def _conventions(self, ctx, res, maxn):
        """The index conventions the flat model transcribes, compared with the primitives themselves:
        `_Indexer` / placement with qutip.core.data.permute.dimensions (Dense and CSR), Qobj.permute and
        numpy's reshape/transpose; `kron` with qutip.core.data.kron, qutip.tensor and numpy.kron."""
        import qutip
        from qutip.core import data as _data
        drv = ctx.driver("drv_embed")
        cases = [(list(st), list(o)) for n in range(1, maxn + 1)
                 for st in itertools.product((2, 3, 4), repeat=n) for o in itertools.permutations(range(n))]
        outs = drv.run([f"index dims={','.join(map(str, st))} order={','.join(map(str, o))}" for st, o in cases])
        for (st, order), o in zip(cases, outs):
            inp = {"convention": "permute", "structure": st, "order": order}
            res.case(inp, nontrivial=order != sorted(order), tags=["convention=permute", f"n={len(st)}"])
            size, n = int(np.prod(st)), len(st)
            if not o.startswith("ok "):
                res.disagree(inp, o, "ok", "the flat model refuses a permutation")
                continue
            nd_s, perm_s = o[3:].split("|")
            nd = [int(x) for x in nd_s.split(",")]
            perm = np.array([int(x) for x in perm_s.split(",")])
            M = (np.arange(size * size).reshape(size, size) + 1).astype(complex)
            if len(perm) != size or sorted(perm.tolist()) != list(range(size)):
                res.disagree(inp, perm.tolist(), "a permutation of the flat indices", "index.all() of the flat model")
                continue
            exp = np.zeros_like(M)
            exp[np.ix_(perm, perm)] = M          # out[perm[n], perm[m]] = in[n, m]
            q = qutip.Qobj(M, dims=[st, st]).permute(order)
            got = {
                "qutip permute.dimensions (Dense)": _data.permute.dimensions(_data.Dense(M), st, order).to_array(),
                "qutip permute.dimensions (CSR)": _data.permute.dimensions(_data.to(_data.CSR, _data.Dense(M)), st, order).to_array(),
                "numpy reshape/transpose": M.reshape(st + st).transpose(order + [n + x for x in order]).reshape(size, size),
                "Qobj.permute": q.full(),
            }
            if nd != [st[x] for x in order] or q.dims != [nd, nd]:
                res.disagree(inp, nd, q.dims, "new_dimensions of the permuted object")
            for name, g in got.items():
                if not np.array_equal(g, exp):
                    res.disagree(inp, "placement by the flat model's index.all()", name, "index convention of " + name)
        # orders that are not permutations: same refusal
        bad = []
        for n in (1, 2, 3):
            for st in itertools.product((2, 3), repeat=n):
                for ln in (n - 1, n, n + 1):
                    for order in itertools.product(range(n + 2), repeat=ln):
                        if ln and sorted(order) != list(range(n)):
                            bad.append((list(st), list(order)))
        outs = drv.run([f"index dims={','.join(map(str, st))} order={','.join(map(str, o))}" for st, o in bad])
        for (st, order), o in zip(bad, outs):
            size = int(np.prod(st))
            try:
                _data.permute.dimensions(_data.Dense(np.eye(size, dtype=complex)), st, order)
                impl = "ok"
            except ValueError as e:
                m = str(e)
                impl = ("err order-length" if "wrong number" in m else "err order-element" if "invalid order element" in m
                        else "err order-duplicate" if "duplicate order element" in m else "err other:" + m[:40])
            except Exception as e:
                impl = "err other:" + type(e).__name__
            inp = {"convention": "permute-refusal", "structure": st, "order": order}
            res.case(inp, nontrivial=True, tags=["convention=permute-refusal", o])
            if o.split("|")[0].strip() != impl and not (o.startswith("ok") and impl == "ok"):
                res.disagree(inp, o[:60], impl, "refusal of an order by _Indexer")
        # kron with identities
        kc = [(D, list(rest)) for D in (1, 2, 3, 4) for m in range(0, 3 if not ctx.thorough else 4)
              for rest in itertools.product((2, 3, 4), repeat=m)]
        outs = drv.run([f"kron d={D} rest={','.join(map(str, rest))}" for D, rest in kc])
        for (D, rest), o in zip(kc, outs):
            inp = {"convention": "kron", "D": D, "rest": rest}
            res.case(inp, nontrivial=bool(rest), tags=["convention=kron", f"m={len(rest)}"])
            P = (np.arange(D * D).reshape(D, D) + 1).astype(complex)
            tot = D * int(np.prod(rest)) if rest else D
            E = cells_matrix(o[3:].strip(), tot, P)
            d, a = _data.Dense(P), P
            for r in rest:
                d = _data.kron(d, qutip.identity(r).data)
                a = np.kron(a, np.eye(r))
            t = qutip.tensor([qutip.Qobj(P)] + [qutip.identity(r) for r in rest]).full()
            for name, g in (("qutip.core.data.kron", d.to_array()), ("numpy.kron", a), ("qutip.tensor", t)):
                if g.shape != E.shape or not np.array_equal(g, E):
                    res.disagree(inp, "entries of the flat model's tensorIds", name, "index convention of " + name)
        res.notes.append(f"index conventions of the flat model compared with the primitives: permute over all structures in "
                         f"{{2,3,4}}^n, n <= {maxn}, all orders (qutip permute.dimensions Dense/CSR, Qobj.permute, numpy "
                         f"reshape/transpose), {len(bad)} non-permutation orders (same refusal), kron with identities for "
                         f"{len(kc)} shapes (qutip.core.data.kron, qutip.tensor, numpy.kron)")

    def _flat_exhaustive(self, ctx, res, maxN):
        """Every stored entry (row, col) of expand_operator(...).full() against the flat-index model."""
        cases = list(all_cases(maxN))
        outs = ctx.driver("drv_embed").run(
            [f"flat dims={','.join(map(str, d))} targets={','.join(map(str, t))}" for d, t in cases])
        for (dims, ts), o in zip(cases, outs):
            od = [dims[t] for t in ts]
            oper, M = generic_oper(od)
            st, r = impl_expand(dims, ts, oper)
            inp = {"flat": True, "dims": dims, "targets": ts}
            res.case(inp, nontrivial=(len(ts) < len(dims) or ts != sorted(ts)),
                     tags=["flat-matrix", f"N={len(dims)}", f"k={len(ts)}"])
            w = {"kind": "valid", "dims": dims, "targets": ts}
            if st != "ok":
                res.disagree(inp, "ok", st, "implementation rejects a valid embedding", w)
                continue
            if not o.startswith("ok "):
                res.disagree(inp, o, "ok", "the flat model refuses (QuTiP's permute would raise)", w)
                continue
            nd_s, body = o[3:].split("|")
            nd = [int(x) for x in nd_s.split(",")]
            if r.dims != [nd, nd]:
                res.disagree(inp, [nd, nd], r.dims, "dims of the result", w)
                continue
            full = r.full()
            E = cells_matrix(body, int(np.prod(dims)), M)
            if full.shape != E.shape or not np.array_equal(full, E):
                badpos = np.argwhere(full != E)[0].tolist() if full.shape == E.shape else "shape"
                res.disagree(dict(inp, position=badpos), str(E[tuple(badpos)]) if badpos != "shape" else str(E.shape),
                             str(full[tuple(badpos)]) if badpos != "shape" else str(full.shape),
                             "stored entry (row, col) of the expanded operator", w)
        res.notes.append(f"flat-index model: the whole matrix (every row/column position) compared for all dims in "
                         f"{{2,3,4}}^N, N <= {maxN}, all injective target tuples of length 1-3 ({len(cases)} matrices)")

    # ---------------------------------------------------------------------------------
    # the other argument forms (Model/EmbedArgs.lean)
    @staticmethod
    def _make_oper(opL, opR):
        import qutip
        if list(opL) == list(opR):
            return generic_oper(opL)
        a, b = int(np.prod(opL)), int(np.prod(opR))
        M = (np.arange(a * b).reshape(a, b) + 1).astype(complex)
        return qutip.Qobj(M, dims=[list(opL), list(opR)]), M

    @staticmethod
    def _args_kwargs(N, dims, tk, tv, cyc):
        kw = {}
        if N is not None:
            kw["N"] = N
        if dims is not None:
            kw["dims"] = list(dims)
        if tk == "int":
            kw["targets"] = tv
        elif tk == "list":
            kw["targets"] = list(tv)
        if cyc:
            kw["cyclic_permutation"] = True
        return kw

    def _args_space(self, ctx):
        Ns = [None, 0, 1, 2, 3]
        dimss = [None] + [list(d) for n in (1, 2, 3) for d in itertools.product((2, 3), repeat=n)]
        targs = ([("none", None)] + [("int", t) for t in range(-1, 4)] + [("list", [t]) for t in range(-1, 4)]
                 + [("list", [a, b]) for a in range(-1, 4) for b in range(-1, 4)])
        ops = [([2], [2]), ([3], [3]), ([2, 2], [2, 2]), ([2, 3], [2, 3]), ([3, 2], [3, 2]), ([2], [3]), ([2, 2], [4])]
        for N in Ns:
            for dims in dimss:
                for tk, tv in targs:
                    for opL, opR in ops:
                        for cyc in (False, True):
                            yield N, dims, tk, tv, opL, opR, cyc

    def _args_exhaustive(self, ctx, res):
        drv = ctx.driver("drv_embed")
        cases = list(self._args_space(ctx))
        if not ctx.thorough:          # quick: every non-cyclic request, a seeded third of the cyclic ones
            cases = [c for c in cases if not c[6] or ctx.rng.random() < 0.34]
        def line(N, dims, tk, tv, opL, opR, cyc):
            t = "none" if tk == "none" else ("i%d" % tv if tk == "int" else "l" + ",".join(map(str, tv)))
            return (f"args n={'none' if N is None else N} dims={'none' if dims is None else ','.join(map(str, dims))} "
                    f"t={t} opl={','.join(map(str, opL))} opr={','.join(map(str, opR))} cyclic={int(cyc)}")
        outs = drv.run([line(*c) for c in cases])
        opers, flat_cache, pending = {}, {}, []
        for c, o in zip(cases, outs):
            N, dims, tk, tv, opL, opR, cyc = c
            key = (tuple(opL), tuple(opR))
            if key not in opers:
                opers[key] = self._make_oper(opL, opR)
            oper, M = opers[key]
            st, r = impl_call(oper=oper, **self._args_kwargs(N, dims, tk, tv, cyc))
            inp = {"args": {"N": N, "dims": dims, "targets": tv if tk != "none" else None, "targets_form": tk,
                            "opdims": [opL, opR], "cyclic": cyc}}
            w = {"kind": "args", "N": N, "dims": dims, "tk": tk, "tv": tv, "opL": opL, "opR": opR, "cyclic": cyc}
            model = o.split(" ")[0] if o.startswith("ok") else o.replace("err ", "")
            res.case(inp, nontrivial=True, tags=["args", f"args-verdict={model}", f"cyclic={int(cyc)}",
                                                  f"targets-form={tk}", "N-given" if N is not None else "N-default",
                                                  "dims-given" if dims is not None else "dims-default"])
            if o.startswith("ok"):
                groups = [g for g in o[3:].strip().split("|")] if o[3:].strip() else []
                placements = []
                for g in groups:
                    ds, tsx = g.split(";")
                    placements.append(([int(x) for x in ds.split(",") if x], [int(x) for x in tsx.split(",") if x]))
                if st != "ok":
                    res.disagree(inp, "ok", st, "verdict for this argument form", w)
                    continue
                rs = r if isinstance(r, list) else [r]
                if isinstance(r, list) != bool(cyc) or len(rs) != len(placements):
                    res.disagree(inp, len(placements), len(rs), "number of returned operators", w)
                    continue
                pending.append((inp, w, M, placements, rs))
                for pl in placements:
                    flat_cache[(tuple(pl[0]), tuple(pl[1]))] = None
            else:
                if st != model:
                    res.disagree(inp, model, st, "verdict for this argument form", w)
        keys = list(flat_cache)
        outs = drv.run([f"flat dims={','.join(map(str, d))} targets={','.join(map(str, t))}" for d, t in keys])
        for k, o in zip(keys, outs):
            flat_cache[k] = o
        for inp, w, M, placements, rs in pending:
            for j, ((reg, nn), rj) in enumerate(zip(placements, rs)):
                o = flat_cache[(tuple(reg), tuple(nn))]
                if not o.startswith("ok "):
                    res.disagree(inp, o, "ok", "the flat model refuses an accepted placement", w)
                    break
                nd_s, body = o[3:].split("|")
                nd = [int(x) for x in nd_s.split(",")]
                E = cells_matrix(body, int(np.prod(reg)), M)
                if rj.dims != [nd, nd] or rj.full().shape != E.shape or not np.array_equal(rj.full(), E):
                    res.disagree(dict(inp, result=j), {"dims": nd, "targets": nn}, rj.dims,
                                 "operator returned for this argument form", w)
                    break
        res.notes.append(f"argument forms compared with Model/EmbedArgs.lean: N in {{None,0..3}}, dims None or over {{2,3}}^(1..3), "
                         f"targets None / integer / list over -1..3, square and non-square operators, cyclic_permutation "
                         f"({len(cases)} requests; accepted ones compared entry by entry with the flat model)")

    DTYPES = [None, "csr", "CSR", "dense", "Dense", "dia", "Dia"]

    def _dtype_sweep(self, ctx, res):
        import qutip
        conv = result_dtype_converted()
        dts = self.DTYPES + [qutip.data.Dense, qutip.data.CSR, qutip.data.Dia]
        alphabet = (2, 3, 4) if ctx.thorough else (2, 3)
        seen_storage = {}
        for dims, ts in all_cases(3, alphabet):
            od = [dims[t] for t in ts]
            oper, M = generic_oper(od)
            exp = spec_matrix(dims, ts, M)
            for dt in dts:
                name = dt if (dt is None or isinstance(dt, str)) else dt.__name__
                st, r = impl_expand(dims, ts, oper, dt)
                inp = {"dims": dims, "targets": ts, "dtype": str(name)}
                w = {"kind": "dtype", "dims": dims, "targets": ts, "dtype": None if dt is None else str(name)}
                if st != "ok":
                    res.case(inp, nontrivial=True, tags=["dtype-sweep", f"dtype={name}"])
                    res.disagree(inp, "ok", st, "a dtype option makes a valid embedding fail", w)
                    continue
                storage = type(r.data).__name__
                res.case(inp, nontrivial=True, tags=["dtype-sweep", f"dtype={name}", f"storage={storage}"])
                seen_storage.setdefault(str(name), set()).add(storage)
                if r.dims != [dims, dims] or not np.array_equal(r.full(), exp):
                    res.disagree(inp, "the specified embedding", "differs", "matrix elements under a dtype option", w)
                elif conv and dt is not None and storage.lower() != str(name).lower():
                    res.disagree(inp, str(name), storage, "storage type of the result (the tree converts the result to dtype)",
                                 {"kind": "storage", "dims": dims, "targets": ts, "dtype": str(name)})
        if not conv:
            off = {k: sorted(v) for k, v in seen_storage.items() if k != "None" and {x.lower() for x in v} != {k.lower()}}
            res.notes.append("dtype: matrix elements identical under every dtype option; this tree converts only the operand, "
                             f"so the result's storage type is not the requested one when identities are tensored {off} "
                             "(proposed repair fixes/C08-1.patch; tests/test_gates.py::test_dtype fails for this reason)")
        else:
            res.notes.append("dtype: matrix elements identical under every dtype option and the result is stored in the requested type")

    OUTSIDE = ["float-target", "str-target", "none-in-targets", "dims-not-iterable", "oper-not-qobj", "unknown-dtype"]

    @staticmethod
    def _outside_call(case):
        oper, _ = generic_oper([2])
        kw = {"float-target": dict(oper=oper, dims=[2, 2], targets=[0.0]),
              "str-target": dict(oper=oper, dims=[2, 2], targets=["0"]),
              "none-in-targets": dict(oper=oper, dims=[2, 2], targets=[None]),
              "dims-not-iterable": dict(oper=oper, dims=5, targets=[0]),
              "oper-not-qobj": dict(oper=np.eye(2), dims=[2, 2], targets=[0]),
              "unknown-dtype": dict(oper=oper, dims=[2, 2], targets=[0], dtype="no-such-type")}[case]
        expand_operator, _q = _impl()
        with warnings.catch_warnings():
            warnings.simplefilter("ignore")
            try:
                expand_operator(**kw)
                return "ok"
            except Exception as e:
                return type(e).__name__

    def _outside(self, ctx, res):
        for case in self.OUTSIDE:
            v = self._outside_call(case)
            res.case({"outside-model": case}, nontrivial=False, tags=["outside-model", f"{case}={v}"])
            if v == "ok":
                res.disagree({"outside-model": case}, "an exception", "a value", "malformed request outside the model returned a value",
                             {"kind": "outside", "case": case})


    # ---------------------------------------------------------------------------------
    # observation points behind mutable objects (Model/EmbedObj.lean): histories on ONE object
    DIMS_POOL = [[2, 2], [2, 3], [3, 2], [2, 2, 2], [2, 3, 2], [3, 2, 2], [2, 2, 3], 2, 3]
    OD_POOL = [[2], [3], [2, 2], [2, 3], [3, 2]]

    @staticmethod
    def _placements(dims, od):
        d = [2] * dims if isinstance(dims, int) else list(dims)
        return [list(t) for t in itertools.permutations(range(len(d)), len(od)) if [d[x] for x in t] == list(od)]

    def _rand_targ(self, rng, dims, od, p_valid=0.8):
        pl = self._placements(dims, od)
        if pl and rng.random() < p_valid:
            ts = rng.choice(pl)
        else:
            n = dims if isinstance(dims, int) else len(dims)
            ts = [rng.randint(-1, n) for _ in od]
        if len(ts) == 1 and rng.random() < 0.3:
            return "int", ts[0]
        return "list", ts

    def _rand_elem(self, rng, dims, oid, allow_none=True):
        if allow_none and rng.random() < 0.12:
            return {"od": None, "tk": "none", "tv": None, "oid": oid}
        ods = [od for od in self.OD_POOL if self._placements(dims, od)] or self.OD_POOL
        od = rng.choice(ods)
        tk, tv = self._rand_targ(rng, dims, od, 0.9)
        return {"od": od, "tk": tk, "tv": tv, "oid": oid}

    def _history_cases(self, ctx, n_random):
        rng = ctx.rng
        # systematic: evaluate, re-target (move / reorder), evaluate, replace the operator, evaluate, other dims, back
        for entry, ne in HIST_ENTRIES.items():
            for dims in self.DIMS_POOL:
                others = [d for d in self.DIMS_POOL if d != dims]
                for i in range(ne):
                    for od in self.OD_POOL:
                        pl = self._placements(dims, od)
                        pairs = [(a, b) for a in pl for b in pl if a != b]
                        rng.shuffle(pairs)
                        for a, b in pairs[:2]:
                            elems = [self._rand_elem(rng, dims, 10 + j, allow_none=False) for j in range(ne)]
                            for e in elems:      # the other elements: valid placements
                                e["tk"], e["tv"] = "list", rng.choice(self._placements(dims, e["od"]))
                            elems[i] = {"od": od, "tk": "list", "tv": a, "oid": 1}
                            d2 = rng.choice(others)
                            ops = [["g", dims], ["t", i, "list", b], ["g", dims], ["q", i, od, 2], ["g", dims],
                                   ["g", d2], ["g", dims], ["t", i, "list", a], ["g", dims]]
                            yield {"kind": "history", "entry": entry, "elems": elems, "ops": ops}
                            if isinstance(dims, int):
                                continue
                            # the same with IN-PLACE edits: of the element's own targets list, and of the dims list
                            # object the caller passes again (a request reads the current contents of both)
                            el2 = [dict(e, tv=(list(e["tv"]) if isinstance(e["tv"], list) else e["tv"])) for e in elems]
                            yield {"kind": "history", "entry": entry, "elems": el2,
                                   "ops": [["gi", dims], ["ti", i, b], ["gi", dims], ["ti", i, a], ["g", dims]]}
                            same = [d for d in others if not isinstance(d, int) and len(d) == len(dims)]
                            if same:
                                yield {"kind": "history", "entry": entry, "elems": [dict(e) for e in el2],
                                       "ops": [["gi", dims], ["gi", rng.choice(same)], ["gi", dims]]}
        # random histories
        for _ in range(n_random):
            entry = rng.choice(list(HIST_ENTRIES))
            ne = HIST_ENTRIES[entry]
            dims = rng.choice(self.DIMS_POOL)
            elems = [self._rand_elem(rng, dims, 10 + j) for j in range(ne)]
            cur = [dict(e) for e in elems]
            ops, oid = [["g", dims]], 20
            for _k in range(rng.randint(3, 8)):
                u = rng.random()
                i = rng.randrange(ne)
                if u < 0.4:
                    if rng.random() < 0.25:
                        dims = rng.choice(self.DIMS_POOL)
                    ops.append(["gi" if (not isinstance(dims, int) and rng.random() < 0.5) else "g", dims])
                elif u < 0.8 and cur[i]["od"] is not None:
                    tk, tv = self._rand_targ(rng, dims, cur[i]["od"])
                    if tk == "list" and cur[i]["tk"] == "list" and rng.random() < 0.5:
                        ops.append(["ti", i, tv])            # in place, on the list object the element holds
                    else:
                        ops.append(["t", i, tk, tv])
                    cur[i].update(tk=tk, tv=tv)
                else:
                    oid += 1
                    e = self._rand_elem(rng, dims, oid)
                    if e["od"] is not None and cur[i]["od"] is not None and rng.random() < 0.6:
                        e["od"] = cur[i]["od"]           # same shape, another operator object: targets stay
                        ops.append(["q", i, e["od"], oid])
                        cur[i].update(od=e["od"], oid=oid)
                    else:
                        ops.append(["q", i, e["od"], oid])
                        cur[i].update(od=e["od"], oid=oid)
                        if e["od"] is not None:
                            ops.append(["t", i, e["tk"], e["tv"]])
                            cur[i].update(tk=e["tk"], tv=e["tv"])
            ops.append(["g", dims])
            yield {"kind": "history", "entry": entry, "elems": elems, "ops": ops}

    @staticmethod
    def _hist_line(w):
        def od_s(od):
            return "none" if od is None else ",".join(map(str, od))
        es = ";".join(f"{od_s(e['od'])}:{targ_str(e['tk'], e['tv'])}:{e['oid']}" for e in w["elems"])
        ops = []
        for op in w["ops"]:
            if op[0] in ("g", "gi"):     # a request reads the current contents of the list it is given
                ops.append("g:" + ("n%d" % op[1] if isinstance(op[1], int) else ",".join(map(str, op[1]))))
            elif op[0] == "ti":          # an in-place edit of the targets list = the element carries the new contents
                ops.append(f"t:{op[1]}:{targ_str('list', op[2])}")
            elif op[0] == "t":
                ops.append(f"t:{op[1]}:{targ_str(op[2], op[3])}")
            else:
                ops.append(f"q:{op[1]}:{od_s(op[2])}:{op[3]}")
        return f"hist elems={es} ops={';'.join(ops)}"

    def _histories(self, ctx, res):
        drv = ctx.driver("drv_embed")
        cases = list(self._history_cases(ctx, 1500 if ctx.thorough else 400))
        outs = drv.run([self._hist_line(w) for w in cases])
        # the operators the model says are placed: (register, targets) -> cells of the flat model
        need = {}
        parsed = []
        for w, o in zip(cases, outs):
            groups = []
            for g in (o[3:].strip().split("|") if o.startswith("ok") else []):
                items = []
                for it in g.split("/"):
                    if it.startswith("!"):
                        items.append(("err", it[1:]))
                    else:
                        ds, ts, oid = it.split(";")
                        reg = tuple(int(x) for x in ds.split(",") if x)
                        nn = tuple(int(x) for x in ts.split(",") if x)
                        need[(reg, nn)] = None
                        items.append(("ok", reg, nn, int(oid)))
                groups.append(items)
            parsed.append(groups)
        keys = list(need)
        fo = drv.run([f"flat dims={','.join(map(str, d))} targets={','.join(map(str, t))}" for d, t in keys])
        need = dict(zip(keys, fo))
        n_gets = 0
        for w, groups in zip(cases, parsed):
            n_get = sum(1 for op in w["ops"] if op[0] in ("g", "gi"))
            inp = {"history": {"entry": w["entry"], "elems": w["elems"], "ops": w["ops"]}}
            moved = any(op[0] not in ("g",) for op in w["ops"])
            res.case(inp, nontrivial=moved, tags=["history", f"entry={w['entry']}", f"gets={n_get}"]
                     + (["history-inplace-targets"] if any(op[0] == "ti" for op in w["ops"]) else [])
                     + (["history-inplace-dims"] if sum(1 for op in w["ops"] if op[0] == "gi") > 1 else []))
            if len(groups) != n_get:
                res.disagree(inp, "one answer per request", len(groups), "history model output", w)
                continue
            obj = HistObject(w["entry"], w["elems"])
            cur_od = {i: (e["od"], e["oid"]) for i, e in enumerate(w["elems"])}
            gi = 0
            for op in w["ops"]:
                if op[0] == "t":
                    obj.set_targets(op[1], op[2], op[3])
                    continue
                if op[0] == "q":
                    obj.set_oper(op[1], op[2], op[3])
                    cur_od[op[1]] = (op[2], op[3])
                    continue
                if op[0] == "ti":
                    obj.edit_targets(op[1], op[2])
                    continue
                items = groups[gi]
                gi += 1
                n_gets += 1
                st, rs = obj.get_shared(op[1]) if op[0] == "gi" else obj.get(op[1])
                errs = [it[1] for it in items if it[0] == "err"]
                model = errs[0] if errs else "ok"        # elements are evaluated in order; the first failure raises
                if st != model:
                    res.disagree(dict(inp, request=gi - 1), model, st, "verdict of a request in a history", w)
                    break
                if st != "ok":
                    continue
                mats = [(it[1], it[2], it[3]) for it in items]
                bad = False
                for out_i, comp in enumerate(HIST_OUTPUTS[w["entry"]]):
                    reg = list(mats[comp[0]][0])
                    tot = int(np.prod(reg))
                    E = np.zeros((tot, tot), dtype=complex)
                    for ei in comp:
                        r_, nn, oid = mats[ei]
                        od = cur_od[ei][0]
                        if od is None:
                            continue                       # qobj None: the zero operator
                        if cur_od[ei][1] != oid:
                            res.disagree(dict(inp, request=gi - 1), cur_od[ei][1], oid, "operator object placed by the model", w)
                            bad = True
                            break
                        body = need[(r_, nn)]
                        E = E + cells_matrix(body[3:].split("|")[1], tot, hist_oper(od, oid)[1])
                    if bad:
                        break
                    r = rs[out_i]
                    if r.dims != [reg, reg] or r.full().shape != E.shape or not np.array_equal(r.full(), E):
                        res.disagree(dict(inp, request=gi - 1, output=out_i), {"register": reg, "placed": [mats[ei][1:] for ei in comp]},
                                     r.dims, "operator returned by a request in a history on one object", w)
                        bad = True
                        break
                if bad:
                    break
        res.notes.append(f"histories on one object ({', '.join(HIST_ENTRIES)}): {len(cases)} histories, {n_gets} requests; "
                         "re-targeting through the public setters (move / reorder), replacing the operator (same or other shape, None), "
                         "changing dims between requests; every returned operator compared entry by entry with the flat model "
                         "placed by Model/EmbedObj.lean on the current fields")

    def _gate_cases(self, ctx, n_random):
        rng = ctx.rng
        dd, pn = gate_qobj_variant()
        for _ in range(n_random):
            name = rng.choice(list(GATE_KINDS))
            k, c = GATE_KINDS[name]["k"], GATE_KINDS[name]["c"]
            n = rng.randint(k, 4)
            dims = [2] * n
            for j in range(n):                 # a non-qubit spectator now and then
                if rng.random() < 0.2:
                    dims[j] = 3
            def pick():
                q = [j for j in range(n) if dims[j] == 2]
                if len(q) >= k and rng.random() < 0.85:
                    return rng.sample(q, k)
                return [rng.randint(0, n) for _ in range(k)]
            a = pick()
            ops = []
            for _k in range(rng.randint(2, 5)):
                u = rng.random()
                if u < 0.5:
                    form = rng.choice(["dims", "dims", "n", "none", "both"])
                    if form in ("n", "none", "both") and 3 in dims and rng.random() < 0.7:
                        form = "dims"
                    if not (dd or pn) and form != "dims" and rng.random() < 0.8:
                        form = "dims"             # without a default for dims every such request is refused
                    ops.append(["g", n if form in ("n", "both") else None, list(dims) if form in ("dims", "both") else None])
                else:
                    b = pick()
                    ops.append(["set", b[:c], b[c:]])
            ops.append(["g", None, list(dims)])
            yield {"kind": "gate", "name": name, "controls": a[:c], "targets": a[c:], "ops": ops}

    def _gates(self, ctx, res):
        drv = ctx.driver("drv_embed")
        dd, pn = gate_qobj_variant()
        cases = list(self._gate_cases(ctx, 600 if ctx.thorough else 200))
        reqs = []
        for w in cases:
            cur = (list(w["controls"]), list(w["targets"]))
            for op in w["ops"]:
                if op[0] == "set":
                    cur = (list(op[1]), list(op[2]))
                    continue
                allq = cur[0] + cur[1]
                nq = op[1] if op[1] is not None else (max(allq) + 1 if allq else 0)
                dims = op[2] if op[2] is not None else ([2] * nq if dd else None)
                N = nq if pn else None
                reqs.append((w, allq, N, dims))
        lines = [f"args n={'none' if N is None else N} dims={'none' if d is None else ','.join(map(str, d))} "
                 f"t=l{','.join(map(str, a))} opl={','.join(['2'] * len(a))} opr={','.join(['2'] * len(a))} cyclic=0"
                 for _w, a, N, d in reqs]
        outs = drv.run(lines)
        pl = {}
        for o in outs:
            if o.startswith("ok "):
                ds, ts = o[3:].split(";")
                pl[(tuple(map(int, ds.split(","))), tuple(map(int, ts.split(","))))] = None
        keys = list(pl)
        pl = dict(zip(keys, drv.run([f"flat dims={','.join(map(str, d))} targets={','.join(map(str, t))}" for d, t in keys])))
        it = iter(outs)
        for w in cases:
            g = make_gate(w["name"], w["controls"], w["targets"])
            M = g.get_compact_qobj().full()
            inp = {"gate-history": {k: w[k] for k in ("name", "controls", "targets", "ops")}}
            res.case(inp, nontrivial=True, tags=["gate-history", f"gate={w['name']}"])
            done = False
            for op in w["ops"]:
                if op[0] == "set":
                    g.controls = list(op[1]) if op[1] else None
                    g.targets = list(op[2])
                    continue
                o = next(it)
                if done:
                    continue
                kw = {}
                if op[1] is not None:
                    kw["num_qubits"] = op[1]
                if op[2] is not None:
                    kw["dims"] = list(op[2])
                with warnings.catch_warnings():
                    warnings.simplefilter("ignore")
                    try:
                        st, r = "ok", g.get_qobj(**kw)
                    except Exception as ex:
                        st, r = classify_exc(ex), None
                model = "ok" if o.startswith("ok") else o.replace("err ", "")
                if st != model:
                    res.disagree(dict(inp, request=kw), model, st, "verdict of Gate.get_qobj", w)
                    done = True
                    continue
                if st == "ok":
                    ds, ts = o[3:].split(";")
                    reg, nn = list(map(int, ds.split(","))), list(map(int, ts.split(",")))
                    E = cells_matrix(pl[(tuple(reg), tuple(nn))][3:].split("|")[1], int(np.prod(reg)), M)
                    if r.dims != [reg, reg] or r.full().shape != E.shape or not np.allclose(r.full(), E, atol=0, rtol=0):
                        res.disagree(dict(inp, request=kw), {"register": reg, "targets": nn}, r.dims,
                                     "operator returned by Gate.get_qobj", w)
                        done = True
        res.notes.append(f"Gate.get_qobj(num_qubits, dims) on {len(cases)} gate objects with re-assigned controls/targets between "
                         f"requests ({len(reqs)} requests), mapped to Model/EmbedArgs as read from the tree "
                         f"(dims default [2]*num_qubits: {dd}, N passed: {pn})")


    # ---------------------------------------------------------------------------------
    # large registers: operators covering all but 1-4 of 9-12 subsystems, mixed dimensions among the untouched ones
    def _big_cases(self, ctx, n, maxN):
        rng = ctx.rng
        for _ in range(n):
            N = rng.randint(9, maxN)
            r = rng.randint(1, 4)
            if rng.random() < 0.7:            # an untouched position >= 8 (the last ones), the others anywhere
                rest = {rng.randint(8, N - 1)}
            else:
                rest = set()
            while len(rest) < r:
                rest.add(rng.randrange(N))
            rest = sorted(rest)
            dims = [2] * N
            for i in rng.sample(rest, rng.randint(1, min(3, len(rest)))):
                dims[i] = 3
            targets = [i for i in range(N) if i not in rest]
            if rng.random() < 0.15:
                dims[rng.choice(targets)] = 3
            mode = rng.random()
            if mode < 0.5:
                rng.shuffle(targets)
            elif mode < 0.7:
                targets.reverse()
            od = [dims[t] for t in targets]
            D = int(np.prod(od))
            ent = {}
            for j in range(rng.randint(1, 5)):
                ent[(rng.randrange(D), rng.randrange(D))] = 1 + j
            yield {"kind": "big", "dims": dims, "targets": targets, "entries": [[a, b, v] for (a, b), v in ent.items()]}

    def _big_registers(self, ctx, res):
        """sampled rows of the digit-tuple model (= the flat model by flat_eq_digits) and the dims of the result on registers
        of 9-12 subsystems; the whole sparse result against the structured specification"""
        drv = ctx.driver("drv_embed")
        cases = list(self._big_cases(ctx, 120 if ctx.thorough else 36, 12 if ctx.thorough else 11))
        lines, meta = [], []
        for w in cases:
            exp = spec_sparse(w["dims"], w["targets"], w["entries"])
            rows = sorted({x for x, _y in exp})
            rows = ctx.rng.sample(rows, min(2, len(rows)))
            for X in rows:
                lines.append(f"row dims={','.join(map(str, w['dims']))} targets={','.join(map(str, w['targets']))} x={X}")
            meta.append((w, exp, rows))
        outs = iter(drv.run(lines))
        for w, exp, rows in meta:
            dims, ts = w["dims"], w["targets"]
            inp = {"big": {"dims": dims, "targets": ts, "entries": w["entries"]}}
            res.case(inp, nontrivial=True, tags=["big-register", f"N={len(dims)}", f"untouched={len(dims) - len(ts)}"])
            oper = sparse_oper([dims[t] for t in ts], w["entries"])
            st, r = impl_expand(dims, ts, oper)
            os_ = [next(outs) for _ in rows]
            if st != "ok":
                res.disagree(inp, "ok", st, "implementation rejects a valid embedding on a large register", w)
                continue
            if r.dims != [dims, dims]:
                res.disagree(inp, dims, r.dims[0], "dims of the result on a large register", w)
                continue
            got = qobj_entries(r)
            M = {(a, b): v for a, b, v in w["entries"]}
            bad = False
            for X, o in zip(rows, os_):
                want = {}
                for cell in filter(None, o[3:].strip().split(",")):
                    Y, a, b = map(int, cell.split(":"))
                    if (a, b) in M:
                        want[Y] = complex(M[(a, b)])
                have = {c: v for (rr, c), v in got.items() if rr == X}
                if want != have:
                    res.disagree(dict(inp, row=X), {str(k): str(v) for k, v in sorted(want.items())},
                                 {str(k): str(v) for k, v in sorted(have.items())}, "row of the expanded operator on a large register", w)
                    bad = True
                    break
            if not bad and got != exp:
                res.disagree(inp, f"{len(exp)} entries of the specification", f"{len(got)} stored entries",
                             "stored entries on a large register", w)
        res.notes.append(f"large registers: {len(cases)} sparse operators covering all but 1-4 of 9-{12 if ctx.thorough else 11} subsystems, "
                         "1-3 untouched subsystems of dimension 3 (70 % with an untouched position >= 8), targets sorted / reversed / "
                         "shuffled: dims of the result, sampled rows against the model, all stored entries against the structured specification")

    def _oracle_big(self, w):
        dims, ts = w["dims"], w["targets"]
        ent = [tuple(e) for e in w["entries"]]
        st, r = impl_expand(dims, ts, sparse_oper([dims[t] for t in ts], ent))
        if st != "ok":
            return True, f"valid embedding rejected ({st})"
        if r.dims != [dims, dims]:
            return True, f"result has dims {r.dims[0]}, register is {dims}"
        exp, got = spec_sparse(dims, ts, ent), qobj_entries(r)
        if exp != got:
            diff = sorted(set(exp.items()) ^ set(got.items()))[:1]
            return True, f"stored entries differ from the specified embedding, e.g. at {diff[0][0]}"
        return False, "equals the specified embedding"


    # ---------------------------------------------------------------------------------
    # numeric types of N / num_qubits / targets entries / dims entries (Model/EmbedNum.lean)
    def _typed_cases(self, ctx, n_random):
        rng = ctx.rng
        kinds = list(NUM_KINDS)
        def vals(k, lo, hi):
            return [v for v in range(lo, hi + 1) if k != "bool" or v in (0, 1)]
        # sizes: N of expand_operator, num_qubits of Gate.get_qobj (with / without dims), integer dims of Pulse / Drift
        for k in kinds:
            for v in vals(k, 1, 4):
                for t in (0, v - 1):
                    yield {"kind": "typed", "entry": "expand", "od": [2], "size": [k, v], "dims": None,
                           "targets": ["list", [["int", t]]]}
                    for e in ("pulse", "drift"):
                        yield {"kind": "typed", "entry": e, "od": [2], "dims": ["scalar", [k, v]],
                               "targets": ["list", [["int", t]]]}
                yield {"kind": "typed", "entry": "expand", "od": [2, 2], "size": [k, v], "dims": None, "targets": None}
                for g, tg in (("X", [0]), ("X", [1]), ("CNOT", [1, 0]), ("SWAP", [0, 2]), ("TOFFOLI", [2, 0, 1])):
                    w = {"kind": "typed", "entry": "gate", "gate": g, "size": [k, v], "dims": None,
                         "targets": ["list", [["int", t] for t in tg]]}
                    yield w
                    yield dict(w, dims=["list", [["int", 2]] * 3 + [["int", 3]]])      # dims given: num_qubits is not used
        # targets: scalar and entries
        for k in kinds:
            for v in vals(k, 0, 2):
                for dims, od in (([2, 2, 2], [2]), ([2, 3, 2], [2]), ([2, 3, 2], [3])):
                    dl = ["list", [["int", d] for d in dims]]
                    yield {"kind": "typed", "entry": "expand", "od": od, "dims": dl, "targets": ["scalar", [k, v]]}
                    yield {"kind": "typed", "entry": "expand", "od": od, "dims": dl, "targets": ["list", [[k, v]]]}
                    yield {"kind": "typed", "entry": "pulse", "od": od, "dims": dl, "targets": ["scalar", [k, v]]}
                    yield {"kind": "typed", "entry": "drift", "od": od, "dims": dl, "targets": ["list", [[k, v]]]}
                yield {"kind": "typed", "entry": "expand", "od": [2, 2], "dims": ["list", [["int", 2]] * 3],
                       "targets": ["list", [[k, v], ["int", (v + 1) % 3]]]}
                yield {"kind": "typed", "entry": "gate", "gate": "X", "size": ["int", 3], "dims": None, "targets": ["list", [[k, v]]]}
                yield {"kind": "typed", "entry": "gate", "gate": "CNOT", "size": None, "dims": ["list", [["int", 2]] * 3],
                       "targets": ["list", [["int", (v + 1) % 3], [k, v]]]}
        # entries of dims: at a target position and elsewhere
        for k in kinds:
            for v in vals(k, 1, 3):
                for pos in range(3):
                    for tpos in range(3):
                        base = [["int", 2], ["int", 3], ["int", 2]]
                        base[pos] = [k, v]
                        od = [int(base[tpos][1])]
                        if od[0] < 1:
                            continue
                        for e in ("expand", "pulse"):
                            yield {"kind": "typed", "entry": e, "od": od, "dims": ["list", base],
                                   "targets": ["list", [["int", tpos]]]}
                yield {"kind": "typed", "entry": "gate", "gate": "X", "size": None,
                       "dims": ["list", [["int", 2], [k, v], [k, 2 if k != "bool" else 1]]], "targets": ["list", [["int", 0]]]}
        # containers: tuple / numpy array (homogeneous numpy kinds) / range
        for form in ("tuple", "array"):
            for k in ("i64", "u8", "f64"):
                yield {"kind": "typed", "entry": "expand", "od": [3], "dims": ["list", [[k, 2], [k, 3], [k, 2]]], "dform": form,
                       "targets": ["list", [["int", 1]]]}
                yield {"kind": "typed", "entry": "expand", "od": [2, 2], "dims": ["list", [["int", 2]] * 3],
                       "targets": ["list", [[k, 2], [k, 0]]], "tform": form}
                yield {"kind": "typed", "entry": "pulse", "od": [2, 2], "dims": ["list", [[k, 2], [k, 2], [k, 3]]], "dform": form,
                       "targets": ["list", [[k, 1], [k, 0]]], "tform": form}
        # random mixtures
        for _ in range(n_random):
            e = rng.choice(["expand", "expand", "gate", "gate", "pulse", "drift"])
            def rk(p_plain=0.5):
                return "int" if rng.random() < p_plain else rng.choice(kinds)
            def num(v, p=0.5):
                k = rk(p)
                if k == "bool" and v not in (0, 1):
                    k = "i32"
                return [k, v]
            n = rng.randint(1, 4)
            reg = [rng.choice([2, 2, 3]) for _ in range(n)]
            if e == "gate":
                g = rng.choice(["X", "RX", "CNOT", "SWAP", "CPHASE", "TOFFOLI"])
                kq = GATE_KINDS[g]["k"]
                n = max(n, kq)
                reg = [2] * n
                tg = rng.sample(range(n), kq) if rng.random() < 0.9 else [rng.randint(0, n) for _ in range(kq)]
                w = {"kind": "typed", "entry": "gate", "gate": g, "targets": ["list", [num(t, 0.7) for t in tg]]}
                form = rng.choice(["n", "n", "dims", "both", "none"])
                w["size"] = num(n + rng.choice([0, 0, 1, 2]), 0.3) if form in ("n", "both") else None
                if form in ("dims", "both"):
                    reg2 = list(reg) + [3] * rng.randint(0, 1)
                    w["dims"] = ["list", [num(d, 0.6) for d in reg2]]
                else:
                    w["dims"] = None
                yield w
                continue
            od_pl = [od for od in self.OD_POOL if self._placements(reg, od)]
            if not od_pl:
                continue
            od = rng.choice(od_pl)
            tg = rng.choice(self._placements(reg, od)) if rng.random() < 0.9 else [rng.randint(0, n) for _ in od]
            w = {"kind": "typed", "entry": e, "od": od}
            if len(tg) == 1 and rng.random() < 0.4:
                w["targets"] = ["scalar", num(tg[0], 0.3)]
            else:
                w["targets"] = ["list", [num(t, 0.5) for t in tg]]
            if all(d == 2 for d in reg) and rng.random() < 0.4:
                if e == "expand":
                    w["size"], w["dims"] = num(n, 0.3), None
                else:
                    w["dims"] = ["scalar", num(n, 0.3)]
            else:
                w["dims"] = ["list", [num(d, 0.5) for d in reg]]
            yield w

    def _typed(self, ctx, res):
        drv = ctx.driver("drv_embed")
        cases = list(self._typed_cases(ctx, 1500 if ctx.thorough else 400))
        outs = drv.run([typed_line(w) for w in cases])
        pl = {}
        for o in outs:
            if o.startswith("ok "):
                ds, ts = o[3:].split(";")
                pl[(tuple(int(x) for x in ds.split(",") if x), tuple(int(x) for x in ts.split(",") if x))] = None
        keys = list(pl)
        pl = dict(zip(keys, drv.run([f"flat dims={','.join(map(str, d))} targets={','.join(map(str, t))}" for d, t in keys])))
        n_ok = 0
        for w, o in zip(cases, outs):
            st, rs, M = typed_call(w)
            model = "ok" if o.startswith("ok") else o.replace("err ", "")
            kinds_used = sorted({x[0] for part in (w.get("size"), ) if part for x in [part]}
                                | {x[0] for x in (w["targets"][1] if w["targets"] and w["targets"][0] == "list" else
                                                  ([w["targets"][1]] if w["targets"] else []))}
                                | {x[0] for x in (w["dims"][1] if w["dims"] and w["dims"][0] == "list" else
                                                  ([w["dims"][1]] if w["dims"] else []))})
            inp = {"typed": {k: v for k, v in w.items() if k != "kind"}}
            res.case(inp, nontrivial=kinds_used != ["int"],
                     tags=["typed", f"typed-entry={w['entry']}", f"typed-verdict={'ok' if model == 'ok' else 'refused'}"]
                          + [f"numtype={k}" for k in kinds_used])
            if (st == "ok") != (model == "ok"):
                res.disagree(inp, model, st, "acceptance of a request with typed numbers", w)
                continue
            if st != "ok":
                continue
            n_ok += 1
            ds, ts = o[3:].split(";")
            reg, nn = [int(x) for x in ds.split(",") if x], [int(x) for x in ts.split(",") if x]
            E = cells_matrix(pl[(tuple(reg), tuple(nn))][3:].split("|")[1], int(np.prod(reg)), M)
            r = rs[0]
            if r.dims != [reg, reg] or r.full().shape != E.shape or not np.array_equal(r.full(), E):
                res.disagree(inp, {"register": reg, "targets": nn}, r.dims, "operator returned for a request with typed numbers", w)
        res.notes.append(f"numeric types (int, bool, int64, int32, uint8, 0-d array, float, float64) of N / num_qubits / integer dims / "
                         f"targets (scalar, entries) / dims entries, containers list / tuple / numpy array, at expand_operator, "
                         f"Gate.get_qobj (with and without dims), Pulse.get_ideal_qobj, Drift: {len(cases)} requests ({n_ok} accepted, "
                         "compared entry by entry with the flat model on the register Model/EmbedNum.lean lowers the request to; "
                         "refusals compared as refusals)")

    def _oracle_typed(self, w):
        """C08's statement for a request whose numbers carry any numeric type: whatever is returned must be the embedding on
        the REQUESTED register ([2] * int(n) for a size, the listed dims otherwise) at the requested targets; a refusal is
        always allowed for bool / 0-d array / float, for int and numpy integers only if the request is not well-formed."""
        st, rs, M = typed_call(w)
        e = w["entry"]
        nums = []
        if w["targets"] is None:
            ts = list(range(len(w["od"])))
        else:
            tl = [w["targets"][1]] if w["targets"][0] == "scalar" else w["targets"][1]
            nums += tl
            ts = [int(v) for _k, v in tl]
        if w["dims"] is not None:
            dl = [w["dims"][1]] if w["dims"][0] == "scalar" else w["dims"][1]
            nums += dl
            reg = [2] * int(dl[0][1]) if w["dims"][0] == "scalar" else [int(v) for _k, v in dl]
        elif w.get("size") is not None:
            reg = [2] * int(w["size"][1])
        else:
            reg = [2] * (max(ts) + 1)
        if w.get("size") is not None and w["dims"] is None:
            nums.append(w["size"])
        if e == "expand" and w.get("size") is not None and w["dims"] is not None and int(w["size"][1]) != len(reg):
            return False, "inconsistent request: not judged"
        od = [2] * GATE_KINDS[w["gate"]]["k"] if e == "gate" else list(w["od"])
        wf = (len(ts) == len(od) and len(set(ts)) == len(ts) and all(0 <= t < len(reg) for t in ts)
              and [reg[t] for t in ts] == od and all(d >= 1 for d in reg))
        where = f"{e} {({k: v for k, v in w.items() if k not in ('kind', 'entry')})}"
        if st != "ok":
            if wf and all(k in NUM_INTEGRAL for k, _v in nums):
                return True, where + f": well-formed request with integer types rejected ({st})"
            return False, f"refused ({st})"
        r = rs[0]
        if not wf:
            return True, where + f": malformed request returned a value (dims {r.dims[0]})"
        if r.dims != [reg, reg]:
            return True, where + f": result lives on {r.dims[0]}, the requested register is {reg}"
        if not np.array_equal(r.full(), spec_matrix(reg, ts, M)):
            return True, where + ": not the specified embedding on the requested register"
        return False, "the specified embedding on the requested register"

    def correspondence(self, ctx, res):
        rng = ctx.rng
        self._conventions(ctx, res, 4 if ctx.thorough else 3)
        self._flat_exhaustive(ctx, res, 4 if ctx.thorough else 3)
        self._args_exhaustive(ctx, res)
        self._dtype_sweep(ctx, res)
        self._outside(ctx, res)
        self._histories(ctx, res)
        self._gates(ctx, res)
        self._big_registers(ctx, res)
        self._typed(ctx, res)
        self._validation_exhaustive(ctx, res, 3)
        exhaustN = 4 if ctx.thorough else 3
        nrows = 8 if ctx.thorough else 6
        # exhaustive small space: every dims vector over {2,3,4}, every injective target tuple
        for dims, ts in all_cases(exhaustN):
            tot = int(np.prod(dims))
            rows = list(range(tot)) if tot <= 36 else sorted(rng.sample(range(tot), nrows))
            self._compare_case(ctx, res, dims, ts, rows)
        res.exhaustive = True
        res.notes.append(f"exhaustive over all (dims in {{2,3,4}}^N, injective targets of length 1-3) for N <= {exhaustN}; "
                         "all rows when the total dimension is <= 36, otherwise sampled rows")
        # sampled larger registers, other operator kinds and dtypes
        big = list(all_cases(5)) if ctx.thorough else None
        n_big = len(big) if ctx.thorough else 250
        for i in range(n_big):
            if ctx.thorough:
                dims, ts = big[i]
                if len(dims) <= exhaustN:
                    continue
            else:
                N = rng.choice([4, 4, 5, 5, 6])
                dims = [rng.choice([2, 3, 4]) if N < 6 else rng.choice([2, 2, 3]) for _ in range(N)]
                ts = rng.sample(range(N), rng.randint(1, 3))
            tot = int(np.prod(dims))
            rows = sorted(rng.sample(range(tot), min(tot, 4)))
            kind = rng.choice(["generic", "generic", "dense", "unit"])
            od = [dims[t] for t in ts]
            D = int(np.prod(od))
            unit = (rng.randrange(D), rng.randrange(D)) if kind == "unit" else None
            dtype = rng.choice([None, "csr", "dense", "dia"]) if rng.random() < 0.5 else None
            self._compare_case(ctx, res, dims, ts, rows, kind, dtype, unit)
        self._malformed(ctx, res, 2000 if ctx.thorough else 400)

    # ---------------------------------------------------------------------------------
    def oracle_replay(self, ctx, w):
        if w["kind"] == "valid":
            dims, ts = w["dims"], w["targets"]
            od = [dims[t] for t in ts]
            for kind in ("generic", "dense"):
                oper, M = generic_oper(od, kind, ctx.rng)
                st, r = impl_expand(dims, ts, oper)
                if st != "ok":
                    return True, f"valid embedding rejected ({st})"
                exp = spec_matrix(dims, ts, M)
                if r.dims != [dims, dims]:
                    return True, f"result has dims {r.dims[0]}, register is {dims}"
                if not np.array_equal(r.full(), exp):
                    bad = np.argwhere(r.full() != exp)[:1].tolist() if r.full().shape == exp.shape else "shape"
                    return True, f"matrix element mismatch at {bad}"
            return False, "equals the specified embedding"
        elif w["kind"] == "dtype":
            dims, ts, dt = w["dims"], w["targets"], w["dtype"]
            import qutip
            dt = {"Dense": qutip.data.Dense, "CSR": qutip.data.CSR, "Dia": qutip.data.Dia}.get(dt, dt) \
                if dt in ("Dense", "CSR", "Dia") and ctx.rng.random() < 0.5 else dt
            oper, M = generic_oper([dims[t] for t in ts])
            st, r = impl_expand(dims, ts, oper, dt)
            if st != "ok":
                return True, f"valid embedding rejected under dtype={dt} ({st})"
            if r.dims != [dims, dims] or not np.array_equal(r.full(), spec_matrix(dims, ts, M)):
                return True, f"matrix elements differ from the specified embedding under dtype={dt}"
            return False, "equals the specified embedding"
        elif w["kind"] == "storage":
            # the documented meaning of `dtype` ("Data type of the output Qobj"); replayed for finding C08-1 only
            dims, ts, dt = w["dims"], w["targets"], w["dtype"]
            oper, M = generic_oper([dims[t] for t in ts])
            st, r = impl_expand(dims, ts, oper, dt)
            if st != "ok":
                return True, f"valid embedding rejected under dtype={dt} ({st})"
            storage = type(r.data).__name__
            if storage.lower() != dt.lower():
                return True, f"dtype={dt!r} requested, result stored as {storage}"
            if not np.array_equal(r.full(), spec_matrix(dims, ts, M)):
                return True, "matrix elements differ from the specified embedding"
            return False, f"result stored as {storage}"
        elif w["kind"] == "outside":
            v = self._outside_call(w["case"])
            return (v == "ok"), f"{w['case']}: {v}"
        elif w["kind"] == "args":
            return self._oracle_args(w)
        elif w["kind"] == "big":
            return self._oracle_big(w)
        elif w["kind"] == "typed":
            return self._oracle_typed(w)
        elif w["kind"] == "history":
            return self._oracle_history(w)
        elif w["kind"] == "gate":
            return self._oracle_gate(w)
        else:
            dims, ts, od = w["dims"], w["targets"], w["opdims"]
            N = len(dims)
            must_reject = (len(ts) != len(od)) or any(t >= N for t in ts) or (
                all(0 <= t < N for t in ts) and len(set(ts)) == len(ts) and [dims[t] for t in ts] != od)
            oper, _ = generic_oper(od)
            st, _r = impl_expand(dims, ts, oper)
            if must_reject and st == "ok":
                return True, "malformed request accepted"
            return False, f"verdict {st}"

    def _oracle_args(self, w):
        """C08's statement for a call in any argument form, judged on the returned object(s) themselves:
        whatever is returned must be the embedding of the operator at the (shifted) targets on the register it
        claims (`result.dims`), the targets must be non-negative, distinct and inside that register with matching
        dimensions, and the register must be the one asked for; a well-formed standard request must be accepted."""
        N, dims, tk, tv, opL, opR, cyc = w["N"], w["dims"], w["tk"], w["tv"], w["opL"], w["opR"], w["cyclic"]
        oper, M = self._make_oper(opL, opR)
        st, r = impl_call(oper=oper, **self._args_kwargs(N, dims, tk, tv, cyc))
        ts = list(range(len(opL))) if tk == "none" else ([tv] if tk == "int" else list(tv))
        want = dims if dims is not None else ([2] * N if N is not None else None)
        consistent = want is not None and (N is None or N == len(want))
        wellformed = (consistent and list(opL) == list(opR) and len(ts) == len(opL) and len(set(ts)) == len(ts)
                      and all(0 <= t < len(want) for t in ts) and [want[t] for t in ts] == list(opL))
        if st != "ok":
            if wellformed and not cyc:
                return True, f"well-formed request rejected ({st})"
            if wellformed and cyc and all([want[(t + j) % len(want)] for t in ts] == list(opL) for j in range(len(want))):
                return True, f"cyclic request whose every shift is well-formed rejected ({st})"
            return False, f"verdict {st}"
        rs = r if isinstance(r, list) else [r]
        if bool(cyc) != isinstance(r, list):
            return True, "wrong kind of return value"
        n_eff = N if N is not None else len(want)
        if cyc and len(rs) != n_eff:
            return True, f"{len(rs)} operators returned for N={n_eff}"
        if list(opL) != list(opR) or len(ts) != len(opL):
            return True, "malformed request accepted (operator shape / target count)"
        for j, rj in enumerate(rs):
            tj = [(t + j) % n_eff for t in ts] if cyc else ts
            reg = rj.dims[0]
            if rj.dims[0] != rj.dims[1]:
                return True, "result is not square in its dims"
            if consistent and reg != list(want):
                return True, f"result lives on {reg}, asked for {want}"
            if any(t >= n_eff for t in tj):
                return True, "out-of-range target accepted"
            if len(set(tj)) != len(tj) or any(not 0 <= t < len(reg) for t in tj) or [reg[t] for t in tj] != list(opL):
                return True, f"malformed request accepted (targets {tj} on register {reg})"
            if not np.array_equal(rj.full(), spec_matrix(reg, tj, M)):
                return True, f"operator {j} is not the specified embedding at targets {tj} on {reg}"
        return False, "every returned operator is the specified embedding"

    def _oracle_history(self, w):
        """C08's statement at the observation points behind mutable objects, judged with the specification written in
        numpy on the fields the object carries at the time of each request (bookkeeping here, no model): a request whose
        every element is well-formed must return the specified embedding(s) of the CURRENT operators at the CURRENT
        targets; any other request must not return a value."""
        obj = HistObject(w["entry"], w["elems"])
        cur = [dict(e) for e in w["elems"]]
        k = -1
        for pos_, op in enumerate(w["ops"]):
            if op[0] == "t":
                obj.set_targets(op[1], op[2], op[3])
                cur[op[1]].update(tk=op[2], tv=op[3])
                continue
            if op[0] == "q":
                obj.set_oper(op[1], op[2], op[3])
                cur[op[1]].update(od=op[2], oid=op[3])
                continue
            if op[0] == "ti":
                obj.edit_targets(op[1], op[2])
                cur[op[1]].update(tk="list", tv=list(op[2]))
                continue
            k += 1
            dims = [2] * op[1] if isinstance(op[1], int) else list(op[1])
            wf = [hist_wellformed(dims, c) for c in cur]
            st, rs = obj.get_shared(op[1]) if op[0] == "gi" else obj.get(op[1])
            where = f"request {k} ({w['entry']}, dims={op[1]}) after {sum(1 for o in w['ops'][:pos_] if o[0] not in ('g', 'gi'))} assignment(s) / in-place edit(s)"
            if not all(f for f, _ in wf):
                if st == "ok":
                    return True, where + ": malformed request returned a value"
                continue
            if st != "ok":
                return True, where + f": well-formed request rejected ({st})"
            for out_i, comp in enumerate(HIST_OUTPUTS[w["entry"]]):
                tot = int(np.prod(dims))
                E = np.zeros((tot, tot), dtype=complex)
                for ei in comp:
                    if cur[ei]["od"] is not None:
                        E = E + spec_matrix(dims, wf[ei][1], hist_oper(cur[ei]["od"], cur[ei]["oid"])[1])
                r = rs[out_i]
                if r.dims != [dims, dims]:
                    return True, where + f": result has dims {r.dims[0]}"
                if not np.array_equal(r.full(), E):
                    pos = np.argwhere(r.full() != E)[0].tolist()
                    tg = [(cur[ei]["tk"], cur[ei]["tv"]) for ei in comp]
                    return True, where + f": output {out_i} is not the embedding at the current targets {tg} (element {pos})"
        return False, "every request returned the specified embedding of the current fields"

    def _oracle_gate(self, w):
        """Gate.get_qobj(num_qubits, dims): the gate's compact operator on controls + targets (current values) and the
        identity elsewhere; without dims the register is all qubits ([2] * num_qubits, num_qubits defaulting to the
        smallest register containing the gate), as documented."""
        g = make_gate(w["name"], w["controls"], w["targets"])
        M = g.get_compact_qobj().full()
        cur = (list(w["controls"]), list(w["targets"]))
        for k, op in enumerate(w["ops"]):
            if op[0] == "set":
                g.controls = list(op[1]) if op[1] else None
                g.targets = list(op[2])
                cur = (list(op[1]), list(op[2]))
                continue
            allq = cur[0] + cur[1]
            kw = {}
            if op[1] is not None:
                kw["num_qubits"] = op[1]
            if op[2] is not None:
                kw["dims"] = list(op[2])
            with warnings.catch_warnings():
                warnings.simplefilter("ignore")
                try:
                    st, r = "ok", g.get_qobj(**kw)
                except Exception as ex:
                    st, r = classify_exc(ex), None
            if op[2] is not None and op[1] is not None and op[1] != len(op[2]):
                continue                                   # inconsistent request: not judged
            nq = op[1] if op[1] is not None else (max(allq) + 1 if allq and min(allq) >= 0 else 0)
            dims = list(op[2]) if op[2] is not None else [2] * nq
            wf = (len(set(allq)) == len(allq) and all(0 <= t < len(dims) for t in allq) and all(dims[t] == 2 for t in allq))
            where = f"{w['name']} controls={cur[0]} targets={cur[1]} get_qobj({kw})"
            if not wf:
                if st == "ok":
                    return True, where + ": malformed request returned a value"
                continue
            if st != "ok":
                return True, where + f": well-formed request rejected ({st})"
            if r.dims != [dims, dims]:
                return True, where + f": result has dims {r.dims[0]}, register is {dims}"
            if not np.array_equal(r.full(), spec_matrix(dims, allq, M)):
                return True, where + ": not the gate's operator on its current qubits"
        return False, "every request returned the specified embedding"

    def _random_witness(self, rng):
        u = rng.random()
        if u < 0.15:
            N = rng.choice([None, None, 1, 2, 3])
            dims = rng.choice([None, None] + [[rng.choice([2, 3]) for _ in range(rng.randint(1, 3))] for _ in range(3)])
            if N is None and dims is None:
                dims = [2, 2, 2]
            tk = rng.choice(["none", "int", "list", "list"])
            tv = None if tk == "none" else (rng.randint(-1, 3) if tk == "int" else [rng.randint(-1, 3) for _ in range(rng.randint(1, 2))])
            opL = rng.choice([[2], [3], [2, 2], [2, 3], [3, 2]])
            return {"kind": "args", "N": N, "dims": dims, "tk": tk, "tv": tv, "opL": opL, "opR": opL,
                    "cyclic": rng.random() < 0.3}
        if u < 0.25:
            N = rng.randint(1, 4)
            dims = [rng.choice([2, 3, 4]) for _ in range(N)]
            return {"kind": "dtype", "dims": dims, "targets": rng.sample(range(N), rng.randint(1, min(3, N))),
                    "dtype": rng.choice([None, "csr", "CSR", "dense", "Dense", "dia", "Dia"])}
        if rng.random() < 0.8:
            N = rng.randint(1, 6)
            dims = [rng.choice([2, 3, 4]) if N < 6 else 2 for _ in range(N)]
            ts = rng.sample(range(N), rng.randint(1, min(3, N)))
            return {"kind": "valid", "dims": dims, "targets": ts}
        N = rng.randint(1, 4)
        dims = [rng.choice([2, 3, 4]) for _ in range(N)]
        if rng.random() < 0.4:         # operator carrying the register's own dims, targets permuted
            ts = list(range(N))
            rng.shuffle(ts)
            k = rng.randint(1, N)
            return {"kind": "malformed", "dims": dims, "targets": ts[:k], "opdims": sorted(dims)[:k] if rng.random() < 0.5 else dims[:k]}
        ts = [rng.randint(0, N + 1) for _ in range(rng.randint(1, 3))]
        od = [rng.choice([2, 3]) for _ in range(rng.choice([len(ts), len(ts), len(ts) + 1]))]
        return {"kind": "malformed", "dims": dims, "targets": ts, "opdims": od}

    def oracle_search(self, ctx, budget_s):
        t0 = time.time()
        for dims, ts in all_cases(4):
            w = {"kind": "valid", "dims": dims, "targets": ts}
            f, d = self.oracle_replay(ctx, w)
            if f:
                yield w, d
            if time.time() - t0 > budget_s:
                return
        for w in self._typed_cases(ctx, 600):
            f, d = self.oracle_replay(ctx, w)
            if f:
                yield w, d
        for w in self._big_cases(ctx, 150, 12):
            f, d = self.oracle_replay(ctx, w)
            if f:
                yield w, d
            if time.time() - t0 > budget_s / 3:
                break
        for w in self._object_witnesses(ctx, 300, 200):
            f, d = self.oracle_replay(ctx, w)
            if f:
                w = self._shrink(ctx, w)
                yield w, self.oracle_replay(ctx, w)[1]
            if time.time() - t0 > budget_s:
                return
        while time.time() - t0 < budget_s:
            w = self._random_witness(ctx.rng)
            f, d = self.oracle_replay(ctx, w)
            if f:
                yield w, d

    def _object_witnesses(self, ctx, n_hist, n_gate):
        dd, pn = gate_qobj_variant()
        hs = list(self._history_cases(ctx, n_hist))
        ctx.rng.shuffle(hs)
        for w in hs[:n_hist]:
            yield w
        for w in self._gate_cases(ctx, n_gate):
            # a tree whose Gate.get_qobj has no default for dims refuses every request without dims (finding C08-2):
            # those requests are judged by the correspondence against that variant, not by this sweep
            if not (dd or pn) and any(op[0] == "g" and op[2] is None for op in w["ops"]):
                continue
            yield w

    def _shrink(self, ctx, w):
        """drop steps of a failing history / gate history while it keeps failing"""
        if w.get("kind") not in ("history", "gate"):
            return w
        w = dict(w, ops=list(w["ops"]))
        changed = True
        while changed:
            changed = False
            for i in range(len(w["ops"])):
                cand = dict(w, ops=w["ops"][:i] + w["ops"][i + 1:])
                try:
                    f, _d = self.oracle_replay(ctx, cand)
                except Exception:
                    f = False
                if f:
                    w, changed = cand, True
                    break
        return w

    def oracle_always(self, ctx):
        for w in self._big_cases(ctx, 12, 11):
            f, d = self.oracle_replay(ctx, w)
            if f:
                yield w, d
        tc = list(self._typed_cases(ctx, 60))
        ctx.rng.shuffle(tc)
        for w in tc[:250]:
            f, d = self.oracle_replay(ctx, w)
            if f:
                yield w, d
        for w in self._object_witnesses(ctx, 60, 40):
            f, d = self.oracle_replay(ctx, w)
            if f:
                w = self._shrink(ctx, w)
                yield w, self.oracle_replay(ctx, w)[1]
        for _ in range(150):
            w = self._random_witness(ctx.rng)
            f, d = self.oracle_replay(ctx, w)
            if f:
                yield w, d


CHECK = C08()
