"""C08 — operator embedding.  Correspondence of lean/QipVerif/Model/Embed.lean with
qutip_qip.operations.gates.expand_operator, plus the direct numerical statement of the property."""
import itertools, time
import numpy as np

from vlib.core import PropertyCheck


def _impl():
    from qutip_qip.operations.gates import expand_operator
    import qutip
    return expand_operator, qutip


def generic_oper(opdims, kind="generic", rng=None, unit=None):
    """An operator whose entries identify their own position (all distinct, non-zero)."""
    import qutip
    D = int(np.prod(opdims)) if len(opdims) else 1
    if kind == "generic":
        M = np.array([[1 + a * D + b for b in range(D)] for a in range(D)], dtype=complex)
    elif kind == "unit":
        M = np.zeros((D, D), dtype=complex)
        M[unit] = 1
    else:
        M = np.array([[complex(rng.randint(-8, 8), rng.randint(-8, 8)) for _ in range(D)] for _ in range(D)])
    return qutip.Qobj(M, dims=[list(opdims), list(opdims)]), M


def classify_exc(e):
    msg = str(e)
    if isinstance(e, ValueError):
        if "target qutbis" in msg or "target qubits" in msg:
            return "count"
        if "smaller than N" in msg:
            return "range"
        if "do not match" in msg:
            return "dims"
        if "invalid order" in msg:
            return "permute"
        return "other:ValueError"
    if isinstance(e, IndexError):
        return "index"
    return "other:" + type(e).__name__


def impl_expand(dims, targets, oper, dtype=None):
    expand_operator, qutip = _impl()
    try:
        kw = {} if dtype is None else {"dtype": dtype}
        r = expand_operator(oper, dims=list(dims), targets=list(targets), **kw)
        return "ok", r
    except Exception as e:  # canonicalised below
        return classify_exc(e), None


def spec_matrix(dims, targets, M):
    """C08's statement, written directly: element = M[x|targets, y|targets] * delta elsewhere."""
    dims = list(dims)
    N = len(dims)
    tot = int(np.prod(dims))
    od = [dims[t] for t in targets]
    idx = np.array(list(itertools.product(*[range(d) for d in dims])), dtype=int).reshape(tot, N)
    if len(targets):
        w = np.array([int(np.prod(od[i + 1:])) for i in range(len(od))])
        a = idx[:, targets] @ w
    else:
        a = np.zeros(tot, dtype=int)
    rest = [i for i in range(N) if i not in targets]
    if rest:
        wr = np.array([int(np.prod([dims[j] for j in rest[i + 1:]])) for i in range(len(rest))])
        r = idx[:, rest] @ wr
    else:
        r = np.zeros(tot, dtype=int)
    out = M[np.ix_(a, a)] * (r[:, None] == r[None, :])
    return out


def all_cases(maxN, alphabet=(2, 3, 4), maxk=3):
    for N in range(1, maxN + 1):
        for dims in itertools.product(alphabet, repeat=N):
            for k in range(1, min(maxk, N) + 1):
                for ts in itertools.permutations(range(N), k):
                    yield list(dims), list(ts)


class C08(PropertyCheck):
    id = "C08"
    lean_modules = ["QipVerif.Props.C08"]
    drivers = ["drv_embed"]
    theorems = [
        "QipVerif.C08.expand_eq_spec",
        "QipVerif.C08.newOrder_perm",
        "QipVerif.C08.newOrder_targets",
        "QipVerif.C08.validate_rejects_count",
        "QipVerif.C08.validate_rejects_range",
        "QipVerif.C08.validate_rejects_dims",
        "QipVerif.C08.validate_ok_iff",
        "QipVerif.C08.embed_apply",
        "QipVerif.C08.embed_mul",
        "QipVerif.C08.embed_one",
        "QipVerif.C08.embed_comp",
    ]
    level_text = ("Lean 4 theorems, for every register size, dimension vector, injective target list and operator: the "
                  "matrix element computed by the model of expand_operator (new_order loops + tensor/permute on digit tuples) "
                  "equals the specified one (operator entry on the target digits, delta elsewhere); new_order is a permutation; "
                  "validation accepts exactly well-formed requests. The model is tied to the code by a correspondence that is "
                  "exhaustive over all dims in {2,3,4}^N, N<=3 (quick) / N<=4 (thorough) and all target tuples, sampled beyond.")
    level_note = ("Trusted: Lean kernel (axioms propext, Classical.choice, Quot.sound); meaning of qutip.tensor and "
                  "Qobj.permute as modelled in Model/Embed.lean (validated by the correspondence, not proved); the harness py/props/c08.py.")
    technique = "Lean 4 proof (induction over the list algorithm; Mathlib Kronecker/reindex algebra) + model/implementation correspondence"
    trusted_base = [
        "Lean 4.33 kernel; axioms propext, Classical.choice, Quot.sound",
        "meaning of qutip.tensor (Kronecker product, first factor most significant) and Qobj.permute(order) "
        "(result subsystem p = argument subsystem order[p]) as written in Model/Embed.lean:unpermute/expandEntry, "
        "validated by this correspondence",
        "py/props/c08.py (harness, canonicalisation of exceptions to {count,range,dims,index})",
    ]
    assumptions = ["linearity of expand_operator in the operator (additionally sampled with matrix units and random dense operators)"]
    rule = ("case = (dims over {2,3,4}, injective target tuple, operator kind, dtype, sampled rows); non-trivial = "
            "at least one non-target subsystem or a non-identity target order; malformed stream counted separately")

    # ---------------------------------------------------------------------------------
    def _compare_case(self, ctx, res, dims, targets, rows, kind="generic", dtype=None, unit=None):
        od = [dims[t] for t in targets]
        oper, M = generic_oper(od, kind, ctx.rng, unit)
        st, r = impl_expand(dims, targets, oper, dtype)
        inp = {"dims": dims, "targets": targets, "oper": kind, "dtype": dtype, "rows": rows[:4]}
        res.case(inp, nontrivial=(len(targets) < len(dims) or targets != sorted(targets)),
                 tags=[f"N={len(dims)}", f"k={len(targets)}", f"oper={kind}", f"dtype={dtype}"])
        w = {"kind": "valid", "dims": dims, "targets": targets}
        if st != "ok":
            res.disagree(inp, "ok", st, "implementation rejects a valid embedding", w)
            return
        full = r.full()
        if r.dims != [dims, dims]:
            res.disagree(inp, [dims, dims], r.dims, "dims of the result", w)
            return
        lines = [f"row dims={','.join(map(str, dims))} targets={','.join(map(str, targets))} x={X}" for X in rows]
        outs = ctx.driver("drv_embed").run(lines)
        for X, o in zip(rows, outs):
            exp = {}
            body = o[3:].strip() if o.startswith("ok") else None
            if body is None:
                res.disagree(inp, o, "ok", "model refused", w)
                return
            for cell in filter(None, body.split(",")):
                Y, a, b = map(int, cell.split(":"))
                if M[a, b] != 0:
                    exp[Y] = complex(M[a, b])
            got = {int(Y): complex(full[X, Y]) for Y in np.nonzero(full[X])[0]}
            if exp != got:
                res.disagree(dict(inp, row=X), {str(k): str(v) for k, v in sorted(exp.items())},
                             {str(k): str(v) for k, v in sorted(got.items())},
                             "row of the expanded operator", w)
                return

    def _malformed(self, ctx, res, n):
        rng = ctx.rng
        lines, cases = [], []
        for _ in range(n):
            N = rng.randint(1, 4)
            dims = [rng.choice([2, 3, 4]) for _ in range(N)]
            k = rng.randint(1, 3)
            mode = rng.choice(["dup", "neg", "big", "count", "dims", "valid", "perm", "full"])
            ts = rng.sample(range(N), min(k, N))
            od = [dims[t] for t in ts]
            if mode == "dup" and ts:
                ts = ts + [rng.choice(ts)]
                od = od + [dims[ts[-1]]]
            elif mode == "neg":
                ts[rng.randrange(len(ts))] = -rng.randint(1, N + 1)
                od = [dims[t] if -N <= t < N else 2 for t in ts]
            elif mode == "big":
                ts[rng.randrange(len(ts))] = N + rng.randint(0, 2)
                od = [dims[t] if t < N else 2 for t in ts]
            elif mode == "count":
                od = od + [2] if rng.random() < 0.5 or len(od) < 2 else od[:-1]
            elif mode == "dims":
                j = rng.randrange(len(od))
                od[j] = {2: 3, 3: 4, 4: 2}[od[j]]
            elif mode == "perm":       # operator dims = the targets' dims in another order
                od = od[:]
                rng.shuffle(od)
            elif mode == "full":       # full-width operator with the register's dims, targets in any order
                ts = list(range(N))
                rng.shuffle(ts)
                od = list(dims)
            cases.append((dims, ts, od, mode))
            lines.append(f"validate dims={','.join(map(str, dims))} targets={','.join(map(str, ts))} "
                         f"opdims={','.join(map(str, od))}")
        outs = ctx.driver("drv_embed").run(lines)
        for (dims, ts, od, mode), o in zip(cases, outs):
            oper, _ = generic_oper(od)
            st, _r = impl_expand(dims, ts, oper)
            model = "ok" if o == "ok" else o.replace("err ", "")
            inp = {"dims": dims, "targets": ts, "opdims": od, "malformed": mode}
            res.case(inp, nontrivial=True, tags=[f"malformed={mode}", f"verdict={model}"])
            if st != model:
                res.disagree(inp, model, st, "validation verdict",
                             {"kind": "malformed", "dims": dims, "targets": ts, "opdims": od})

    def _validation_exhaustive(self, ctx, res, maxN):
        """Every request over a small alphabet: dims in {2,3}^N, every target tuple over -1..N (duplicates,
        negatives and out-of-range included), every operator dims tuple over {2,3} of length 1..3."""
        cases, lines = [], []
        for N in range(1, maxN + 1):
            for dims in itertools.product((2, 3), repeat=N):
                for k in range(1, 4):
                    for ts in itertools.product(range(-1, N + 1), repeat=k):
                        for kk in {k, min(k + 1, 3), max(k - 1, 1)}:
                            for od in itertools.product((2, 3), repeat=kk):
                                cases.append((list(dims), list(ts), list(od)))
        for dims, ts, od in cases:
            lines.append(f"validate dims={','.join(map(str, dims))} targets={','.join(map(str, ts))} "
                         f"opdims={','.join(map(str, od))}")
        outs = ctx.driver("drv_embed").run(lines)
        opers = {}
        for (dims, ts, od), o in zip(cases, outs):
            key = tuple(od)
            if key not in opers:
                opers[key] = generic_oper(od)[0]
            st, _r = impl_expand(dims, ts, opers[key])
            model = "ok" if o == "ok" else o.replace("err ", "")
            inp = {"dims": dims, "targets": ts, "opdims": od, "malformed": "exhaustive"}
            res.case(inp, nontrivial=True, tags=["validation-exhaustive", f"verdict={model}"])
            if st != model:
                res.disagree(inp, model, st, "validation verdict",
                             {"kind": "malformed", "dims": dims, "targets": ts, "opdims": od})
        res.notes.append(f"validation verdicts compared exhaustively for N <= {maxN}: dims over {{2,3}}, all target tuples of "
                         f"length 1-3 over -1..N, all operator dims tuples over {{2,3}} ({len(cases)} requests)")

    def correspondence(self, ctx, res):
        rng = ctx.rng
        self._validation_exhaustive(ctx, res, 3)
        exhaustN = 4 if ctx.thorough else 3
        nrows = 8 if ctx.thorough else 6
        # exhaustive small space: every dims vector over {2,3,4}, every injective target tuple
        for dims, ts in all_cases(exhaustN):
            tot = int(np.prod(dims))
            rows = list(range(tot)) if tot <= 36 else sorted(rng.sample(range(tot), nrows))
            self._compare_case(ctx, res, dims, ts, rows)
        res.exhaustive = True
        res.notes.append(f"exhaustive over all (dims in {{2,3,4}}^N, injective targets of length 1-3) for N <= {exhaustN}; "
                         "all rows when the total dimension is <= 36, otherwise sampled rows")
        # sampled larger registers, other operator kinds and dtypes
        big = list(all_cases(5)) if ctx.thorough else None
        n_big = len(big) if ctx.thorough else 250
        for i in range(n_big):
            if ctx.thorough:
                dims, ts = big[i]
                if len(dims) <= exhaustN:
                    continue
            else:
                N = rng.choice([4, 4, 5, 5, 6])
                dims = [rng.choice([2, 3, 4]) if N < 6 else rng.choice([2, 2, 3]) for _ in range(N)]
                ts = rng.sample(range(N), rng.randint(1, 3))
            tot = int(np.prod(dims))
            rows = sorted(rng.sample(range(tot), min(tot, 4)))
            kind = rng.choice(["generic", "generic", "dense", "unit"])
            od = [dims[t] for t in ts]
            D = int(np.prod(od))
            unit = (rng.randrange(D), rng.randrange(D)) if kind == "unit" else None
            dtype = rng.choice([None, "csr", "dense", "dia"]) if rng.random() < 0.5 else None
            self._compare_case(ctx, res, dims, ts, rows, kind, dtype, unit)
        self._malformed(ctx, res, 2000 if ctx.thorough else 400)

    # ---------------------------------------------------------------------------------
    def oracle_replay(self, ctx, w):
        if w["kind"] == "valid":
            dims, ts = w["dims"], w["targets"]
            od = [dims[t] for t in ts]
            for kind in ("generic", "dense"):
                oper, M = generic_oper(od, kind, ctx.rng)
                st, r = impl_expand(dims, ts, oper)
                if st != "ok":
                    return True, f"valid embedding rejected ({st})"
                exp = spec_matrix(dims, ts, M)
                if r.dims != [dims, dims] or not np.array_equal(r.full(), exp):
                    bad = np.argwhere(r.full() != exp)[:1].tolist() if r.full().shape == exp.shape else "shape"
                    return True, f"matrix element mismatch at {bad}"
            return False, "equals the specified embedding"
        else:
            dims, ts, od = w["dims"], w["targets"], w["opdims"]
            N = len(dims)
            must_reject = (len(ts) != len(od)) or any(t >= N for t in ts) or (
                all(0 <= t < N for t in ts) and len(set(ts)) == len(ts) and [dims[t] for t in ts] != od)
            oper, _ = generic_oper(od)
            st, _r = impl_expand(dims, ts, oper)
            if must_reject and st == "ok":
                return True, "malformed request accepted"
            return False, f"verdict {st}"

    def _random_witness(self, rng):
        if rng.random() < 0.8:
            N = rng.randint(1, 6)
            dims = [rng.choice([2, 3, 4]) if N < 6 else 2 for _ in range(N)]
            ts = rng.sample(range(N), rng.randint(1, min(3, N)))
            return {"kind": "valid", "dims": dims, "targets": ts}
        N = rng.randint(1, 4)
        dims = [rng.choice([2, 3, 4]) for _ in range(N)]
        if rng.random() < 0.4:         # operator carrying the register's own dims, targets permuted
            ts = list(range(N))
            rng.shuffle(ts)
            k = rng.randint(1, N)
            return {"kind": "malformed", "dims": dims, "targets": ts[:k], "opdims": sorted(dims)[:k] if rng.random() < 0.5 else dims[:k]}
        ts = [rng.randint(0, N + 1) for _ in range(rng.randint(1, 3))]
        od = [rng.choice([2, 3]) for _ in range(rng.choice([len(ts), len(ts), len(ts) + 1]))]
        return {"kind": "malformed", "dims": dims, "targets": ts, "opdims": od}

    def oracle_search(self, ctx, budget_s):
        t0 = time.time()
        for dims, ts in all_cases(4):
            w = {"kind": "valid", "dims": dims, "targets": ts}
            f, d = self.oracle_replay(ctx, w)
            if f:
                yield w, d
            if time.time() - t0 > budget_s:
                return
        while time.time() - t0 < budget_s:
            w = self._random_witness(ctx.rng)
            f, d = self.oracle_replay(ctx, w)
            if f:
                yield w, d

    def oracle_always(self, ctx):
        for _ in range(150):
            w = self._random_witness(ctx.rng)
            f, d = self.oracle_replay(ctx, w)
            if f:
                yield w, d


CHECK = C08()
