"""C02 — measurement branches obey the Born rule and drive classical control.

Correspondence of lean/QipVerif/Model/Sim.lean (driver drv_sim, exact integer amplitudes) with
CircuitSimulator / CircuitResult on an exact stream (X, CNOT, SWAP, TOFFOLI, SNOT, Z, CSIGN on kets
with small integer amplitudes), and the property itself as an independent dense numpy simulation of
every branch (`oracle_replay`)."""
import itertools, json, math, time
import numpy as np

from vlib.core import PropertyCheck, load_findings
from vlib import paths
from props import _simlib as S


# ------------------------------------------------------------------------------------------
# the independent oracle: dense simulation of every branch with numpy

def _u(name, arg):
    s2 = 1 / math.sqrt(2)
    if name == "X":
        return np.array([[0, 1], [1, 0]], dtype=complex)
    if name == "Y":
        return np.array([[0, -1j], [1j, 0]], dtype=complex)
    if name == "Z":
        return np.array([[1, 0], [0, -1]], dtype=complex)
    if name == "SNOT":
        return np.array([[s2, s2], [s2, -s2]], dtype=complex)
    if name == "S":
        return np.array([[1, 0], [0, 1j]], dtype=complex)
    if name == "T":
        return np.array([[1, 0], [0, np.exp(1j * math.pi / 4)]], dtype=complex)
    if name == "RX":
        c, s = math.cos(arg / 2), math.sin(arg / 2)
        return np.array([[c, -1j * s], [-1j * s, c]], dtype=complex)
    if name == "RY":
        c, s = math.cos(arg / 2), math.sin(arg / 2)
        return np.array([[c, -s], [s, c]], dtype=complex)
    if name == "RZ":
        return np.array([[np.exp(-1j * arg / 2), 0], [0, np.exp(1j * arg / 2)]], dtype=complex)
    raise KeyError(name)


def _apply_1q(psi, n, t, U):
    T = psi.reshape([2] * n)
    T = np.moveaxis(np.tensordot(U, T, axes=([1], [t])), 0, t)
    return T.reshape(-1)


def _apply_gate(psi, n, g):
    """g: {"name", "targets", "controls", "arg"} — controlled gates act where all controls are 1."""
    name, ts, cs, arg = g["name"], g["targets"], g.get("controls") or [], g.get("arg")
    idx = np.arange(2 ** n)
    bit = lambda q: (idx >> (n - 1 - q)) & 1
    if name == "SWAP":
        a, b = ts
        src = idx.copy()
        diff = bit(a) != bit(b)
        src[diff] = idx[diff] ^ (1 << (n - 1 - a)) ^ (1 << (n - 1 - b))
        return psi[src]
    base = {"CNOT": "X", "TOFFOLI": "X", "CSIGN": "Z", "CZ": "Z"}.get(name, name)
    U = _u(base, arg)
    out = _apply_1q(psi, n, ts[0], U)
    if cs:
        on = np.ones(2 ** n, dtype=bool)
        for c in cs:
            on &= bit(c) == 1
        out = np.where(on, out, psi)
    return out


def branches(w, cbits0, records=None, cut=1e-18):
    """All measurement records of the witness circuit: list of (record, prob, unnormalised vector or None, bits,
    fired) in the order of itertools.product([0,1], repeat=m).  Classical control: the gate acts iff the integer
    formed by the listed bits (first listed = most significant) equals the control value."""
    n, ncb = w["n"], w["ncb"]
    psi0 = np.array([complex(a, b) for a, b in w["init"]], dtype=complex)
    psi0 = psi0 / np.linalg.norm(psi0)
    m = sum(1 for o in w["ops"] if "M" in o)
    out = []
    idx = np.arange(2 ** n)
    for rec in (itertools.product([0, 1], repeat=m) if records is None else records):
        psi = psi0.copy()
        bits = list(cbits0) if (cbits0 and len(cbits0) == ncb) else [0] * ncb
        j = 0
        alive = True
        mincond = 1.0            # smallest single-outcome (conditional) probability along the record
        for o in w["ops"]:
            if "M" in o:
                keep = ((idx >> (n - 1 - o["M"])) & 1) == rec[j]
                before = float(np.vdot(psi, psi).real)
                psi = np.where(keep, psi, 0)
                if before > 0:
                    mincond = min(mincond, float(np.vdot(psi, psi).real) / before)
                if o.get("store") is not None:
                    bits[o["store"]] = rec[j]
                j += 1
                if np.vdot(psi, psi).real <= cut:
                    alive = False
                    break
            else:
                cc = o.get("cc")
                if cc is not None:
                    val = 0
                    for c in cc:
                        val = 2 * val + bits[c]
                    # no value given: the documented default, every listed bit must be 1
                    want = o["ccv"] if o.get("ccv") is not None else 2 ** len(cc) - 1
                    if val != want:
                        continue
                psi = _apply_gate(psi, n, o)
        p = float(np.vdot(psi, psi).real) if alive else 0.0
        out.append((list(rec), p, psi if alive else None, bits, mincond))
    return out


def reads_measured_bits(w):
    written = {o["store"] for o in w["ops"] if "M" in o and o.get("store") is not None}
    return any(("M" not in o) and o.get("cc") and (set(o["cc"]) & written) for o in w["ops"])


def reads_earlier_written_bit(w):
    """some gate is conditioned on a bit that an EARLIER measurement of the circuit writes"""
    written = set()
    for o in w["ops"]:
        if "M" in o:
            if o.get("store") is not None:
                written.add(o["store"])
        elif o.get("cc") and (set(o["cc"]) & written):
            return True
    return False


def has_big_ccv(w):
    return any(("M" not in o) and o.get("cc") is not None and o.get("ccv") is not None
               and not (0 <= o["ccv"] < 2 ** len(o["cc"])) for o in w["ops"])


def build_from_witness(w):
    from qutip_qip.circuit import QubitCircuit
    qc = QubitCircuit(w["n"], num_cbits=w["ncb"])
    for o in w["ops"]:
        if "M" in o:
            qc.add_measurement("M", targets=[o["M"]], classical_store=o.get("store"))
        else:
            kw = {}
            if o.get("cc") is not None:
                kw = {"classical_controls": list(o["cc"]), "classical_control_value": o["ccv"]}
            qc.add_gate(o["name"], targets=list(o["targets"]), controls=(list(o["controls"]) if o.get("controls") else None),
                        arg_value=o.get("arg"), **kw)
    return qc


def oracle(w):
    """The property on the real code for one witness.  -> (fails, detail).  The witness is a valid circuit: any
    exception of the implementation (other than the refusal of an out-of-range condition value) is a failure."""
    try:
        if w.get("kind") == "transformed":
            return _oracle_transformed(w)
        if w.get("kind") == "condhist":
            return _oracle_condhist(w)
        if w.get("kind") == "tiny":
            return _oracle_tiny(w)
        if w.get("kind") == "ccvtype":
            return _oracle_ccvtype(w)
        return _oracle(w)
    except Exception as e:
        return True, "the implementation raised " + type(e).__name__ + ": " + str(e)[:120]


def _oracle(w):
    import qutip
    from qutip_qip.circuit import CircuitSimulator
    n, ncb = w["n"], w["ncb"]
    try:
        qc = build_from_witness(w)
    except ValueError as e:
        if has_big_ccv(w):
            return False, "condition value outside the range of its bits is refused at construction"
        return True, "valid circuit refused: " + repr(e)
    psi0 = np.array([complex(a, b) for a, b in w["init"]], dtype=complex)
    psi0 = psi0 / np.linalg.norm(psi0)
    ket = qutip.Qobj(psi0.reshape(-1, 1), dims=[[2] * n, [1] * n])
    cb0 = w.get("cbits")
    br = branches(w, cb0)
    live = [b for b in br if b[1] > 1e-12]
    tol = 1e-8
    which = w.get("check", "all")

    def same_state(q, vec):
        return q is not None and np.allclose(q.full().ravel(), vec / np.linalg.norm(vec), atol=tol)

    if which in ("all", "stat"):
        arg = None if cb0 is None else list(cb0)
        res = qc.run_statistics(ket, cbits=arg)
        probs = [float(p) for p in res.get_probabilities()]
        if arg is not None and arg != list(cb0):
            return True, f"run_statistics changed the caller's cbits {cb0} -> {arg}"
        if abs(sum(probs) - 1) > tol:
            return True, f"branch probabilities sum to {sum(probs)!r} ({len(probs)} branches, expected {len(live)})"
        if len(probs) != len(live):
            return True, f"{len(probs)} branches returned, {len(live)} records have non-zero probability"
        states = res.get_final_states()
        for a, b in enumerate(live):
            if abs(probs[a] - b[1]) > tol:
                return True, f"record {b[0]}: probability {probs[a]!r}, Born rule gives {b[1]!r}"
            if not same_state(states[a], b[2]):
                return True, f"record {b[0]}: final state is not the normalised branch vector"
        if ncb > 0:
            got = [list(map(int, x)) for x in res.get_cbits()]
            if got != [b[3] for b in live]:
                return True, f"classical bits of the records {got}, expected {[b[3] for b in live]}"
            if len({id(x) for x in res.get_cbits()}) != len(live):
                return True, "results of different records share one cbits list"
    if which in ("all", "run"):
        sim = CircuitSimulator(qc)
        for b in br:
            arg = None if cb0 is None else list(cb0)
            r = sim.run(ket, cbits=arg, measure_results=tuple(b[0])) if b[0] else sim.run(ket, cbits=arg)
            st, p = r.get_final_states(0), float(r.get_probabilities(0))
            if b[1] <= 1e-12:
                if not (st is None and p == 0):
                    return True, f"prescribed record {b[0]} has probability zero but run reports p={p!r}"
                continue
            if abs(p - b[1]) > tol or not same_state(st, b[2]):
                return True, f"run with prescribed record {b[0]}: p={p!r} (Born {b[1]!r}) or wrong state"
            if ncb > 0 and list(map(int, r.get_cbits(0))) != b[3]:
                return True, f"run with prescribed record {b[0]}: bits {r.get_cbits(0)} expected {b[3]}"
            if arg is not None and arg != list(cb0):
                return True, f"run changed the caller's cbits {cb0} -> {arg}"
        # an unconstrained run returns one of the branches
        for _ in range(2):
            arg = None if cb0 is None else list(cb0)
            r = sim.run(ket, cbits=arg)
            st, p = r.get_final_states(0), float(r.get_probabilities(0))
            if not any(abs(p - b[1]) <= tol and same_state(st, b[2]) and
                       (ncb == 0 or list(map(int, r.get_cbits(0))) == b[3]) for b in live):
                return True, "an unconstrained run returned something that is not one of the branches"
    if which in ("all", "dm"):
        sim = CircuitSimulator(qc, mode="density_matrix_simulator")
        arg = None if cb0 is None else list(cb0)
        try:
            r = sim.run(qutip.ket2dm(ket), cbits=arg)
        except NotImplementedError as e:
            if reads_earlier_written_bit(w):
                # "correct or refuse": feed-forward is refused in density-matrix mode (fix C02-3)
                return False, f"{len(live)} live branches agree; density-matrix feed-forward refused: {str(e)[:60]}"
            return True, "density-matrix run of a circuit without feed-forward raised NotImplementedError"
        mix = sum(np.outer(b[2], b[2].conj()) for b in live)
        if not np.allclose(r.get_final_states(0).full(), mix, atol=tol):
            return True, "density-matrix run differs from the probability-weighted mixture of the branches"
    return False, f"{len(live)} live branches of {len(br)} agree"


# ------------------------------------------------------------------------------------------
# conditions ASSIGNED on the gate object, and circuits that come out of the library's own transformations

def build_assigned(w):
    """the witness circuit with every gate constructed WITHOUT its classical condition (and, per `late`, with
    placeholder targets / controls / argument); the real values are assigned on the Gate object after add_gate, as
    `circuit/_decompose.py` and user code do.  The simulator reads the gate's attributes when it executes the gate."""
    from qutip_qip.circuit import QubitCircuit
    late = set(w.get("late") or ["cc"])
    qc = QubitCircuit(w["n"], num_cbits=w["ncb"])
    for o in w["ops"]:
        if "M" in o:
            qc.add_measurement("M", targets=[o["M"]], classical_store=o.get("store"))
            continue
        kw = {}
        if o.get("cc") is not None and "cc" not in late:
            kw = {"classical_controls": list(o["cc"]), "classical_control_value": o["ccv"]}
        elif o.get("cc") is not None and "ccv" in late and "cc" not in late:
            pass
        k = len(o["targets"]) + len(o.get("controls") or [])
        place = list(range(k))                                  # placeholder qubits 0..k-1
        nt = len(o["targets"])
        qc.add_gate(o["name"],
                    targets=(place[:nt] if "targets" in late else list(o["targets"])),
                    controls=((place[nt:] if "targets" in late else list(o["controls"])) if o.get("controls") else None),
                    arg_value=((0.123 if o.get("arg") is not None else None) if "arg" in late else o.get("arg")), **kw)
        g = qc.gates[-1]
        if "targets" in late:
            g.targets = list(o["targets"])
            if o.get("controls"):
                g.controls = list(o["controls"])
        if "arg" in late and o.get("arg") is not None:
            g.arg_value = o["arg"]
        if o.get("cc") is not None and "cc" in late:
            g.classical_controls = list(o["cc"])
            g.classical_control_value = o["ccv"] if o.get("ccv") is not None else 2 ** len(o["cc"]) - 1
    if w.get("reassign"):
        # a second assignment: first a WRONG condition, then the right one again
        for g, o in zip(qc.gates, w["ops"]):
            if "M" not in o and o.get("cc") is not None:
                v = o["ccv"] if o.get("ccv") is not None else 2 ** len(o["cc"]) - 1
                g.classical_control_value = (v + 1) % (2 ** len(o["cc"]))
                g.classical_control_value = v
    return qc


TRANSFORMS = ["resolve_default", "resolve_cnot_rot", "resolve_csign", "resolve_iswap", "resolve_sqrtswap", "adjacent",
              "chain_linear", "chain_circular", "reverse", "add_circuit", "qasm_if"]


def apply_transform(name, qc, w):
    """-> (transformed circuit, op list of the ORIGINAL semantics the result must have)"""
    from qutip_qip.circuit import QubitCircuit
    ops = w["ops"]
    if name.startswith("resolve"):
        basis = {"resolve_default": None, "resolve_cnot_rot": ["CNOT", "RX", "RY", "RZ"],
                 "resolve_csign": ["CSIGN", "RX", "RY", "RZ"], "resolve_iswap": ["ISWAP", "RX", "RY", "RZ"],
                 "resolve_sqrtswap": ["SQRTSWAP", "RX", "RY", "RZ"]}[name]
        return (qc.resolve_gates() if basis is None else qc.resolve_gates(basis)), ops, w["n"]
    if name == "adjacent":
        return qc.adjacent_gates(), ops, w["n"]
    if name.startswith("chain"):
        from qutip_qip.transpiler.chain import to_chain_structure
        return to_chain_structure(qc, name.split("_")[1]), ops, w["n"]
    if name == "reverse":
        return qc.reverse_circuit(), list(reversed(ops)), w["n"]
    if name == "add_circuit":
        s0 = w.get("start", 1)
        big = QubitCircuit(w["n"] + s0 + w.get("pad", 0), num_cbits=w["ncb"])
        big.add_circuit(qc, start=s0)
        shifted = []
        for o in ops:
            if "M" in o:
                shifted.append(dict(o, M=o["M"] + s0))
            else:
                shifted.append(dict(o, targets=[t + s0 for t in o["targets"]],
                                    controls=([c + s0 for c in o["controls"]] if o.get("controls") else None)))
        return big, shifted, w["n"] + s0 + w.get("pad", 0)
    raise KeyError(name)


def read_ops(qc):
    """the operations of a circuit as its PUBLIC attributes show them"""
    from qutip_qip.operations import Measurement
    out = []
    for g in qc.gates:
        if isinstance(g, Measurement):
            out.append({"M": g.targets[0], "store": g.classical_store})
        else:
            out.append({"gate": g, "cc": (None if g.classical_controls is None else list(g.classical_controls)),
                        "ccv": g.classical_control_value})
    return out


def _apply_compact(psi, n, g):
    """the gate's own compact matrix applied to its qubits (controls first, then targets), by numpy"""
    if g.targets is None:            # GLOBALPHASE
        return psi * np.exp(1j * g.arg_value)
    U = np.asarray(g.get_compact_qobj().full())
    qs = list(g.controls or []) + list(g.targets)
    k = len(qs)
    T = psi.reshape([2] * n)
    T = np.tensordot(U.reshape([2] * (2 * k)), T, axes=(list(range(k, 2 * k)), qs))
    T = np.moveaxis(T, list(range(k)), qs)
    return T.reshape(-1)


def branches_attr(ops, n, ncb, psi0, cbits0):
    """branch semantics of an attribute-level op list (`read_ops`)"""
    m = sum(1 for o in ops if "M" in o)
    idx = np.arange(2 ** n)
    out = []
    for rec in itertools.product([0, 1], repeat=m):
        psi = psi0.copy()
        bits = list(cbits0) if cbits0 is not None else [0] * ncb
        j, alive = 0, True
        for o in ops:
            if "M" in o:
                keep = ((idx >> (n - 1 - o["M"])) & 1) == rec[j]
                psi = np.where(keep, psi, 0)
                if o.get("store") is not None:
                    bits[o["store"]] = rec[j]
                j += 1
                if np.vdot(psi, psi).real <= 1e-18:
                    alive = False
                    break
            else:
                if o["cc"] is not None:
                    val = 0
                    for c in o["cc"]:
                        val = 2 * val + bits[c]
                    if val != o["ccv"]:
                        continue
                psi = _apply_compact(psi, n, o["gate"])
        out.append((list(rec), float(np.vdot(psi, psi).real) if alive else 0.0, psi if alive else None, bits))
    return out


def _oracle_transformed(w):
    """A conditioned circuit sent through one of the library's transformations (and/or with its conditions assigned on
    the gate objects), then simulated under EVERY initial classical state and every record: the branches are those of the
    ORIGINAL circuit (states up to a global phase per branch), and those of the operations the transformed circuit
    SHOWS in its public attributes (exactly)."""
    import qutip
    n0, ncb = w["n"], w["ncb"]
    name = w["transform"]
    try:
        qc = build_assigned(w) if w.get("late") else build_from_witness(w)
    except Exception as e:
        return False, "not constructible: " + type(e).__name__
    if name == "assigned":
        t, sem, n = qc, w["ops"], n0
    elif name == "qasm_if":
        from qutip_qip.qasm import read_qasm
        import warnings
        with warnings.catch_warnings():
            warnings.simplefilter("ignore")
            t = read_qasm(w["qasm"], strmode=True)
        sem, n = None, t.N
        ncb = t.num_cbits
    else:
        try:
            t, sem, n = apply_transform(name, qc, w)
        except Exception as e:
            return False, f"{name} not applicable: {type(e).__name__}: {str(e)[:60]}"
    if name == "add_circuit" and sem is not None:
        # the composed circuit must show the operations of the same circuit built with add_gate directly
        try:
            direct = build_from_witness(dict(w, n=n, ops=sem))
            show = lambda c: [(g.name, g.targets, getattr(g, "controls", None), getattr(g, "classical_controls", None),
                               getattr(g, "classical_control_value", None), getattr(g, "control_value", None),
                               getattr(g, "classical_store", None)) for g in c.gates]
            if show(t) != show(direct):
                j = next((i for i, (a, b) in enumerate(zip(show(t), show(direct))) if a != b), None)
                return True, (f"add_circuit(start={w.get('start', 1)}): operation {j} of the composed circuit is "
                              f"{show(t)[j] if j is not None else '(missing)'}, the same circuit built with add_gate has "
                              f"{show(direct)[j] if j is not None else show(direct)} "
                              f"(name, targets, controls, classical_controls, classical_control_value, control_value, store)")
        except Exception:
            pass
    for mo in reversed(w.get("pre") or []):
        # measurements put in front AFTER the transformation (resolve_gates & co. refuse circuits with measurements)
        t.add_measurement("M", targets=[mo["M"]], classical_store=mo.get("store"), index=[0])
    if sem is not None:
        sem = [dict(mo) for mo in (w.get("pre") or [])] + list(sem)
    D = 2 ** n
    init = w.get("init")
    if init is None or len(init) != D:
        rs = np.random.RandomState(w.get("seed", 1))
        psi0 = rs.normal(size=D) + 1j * rs.normal(size=D)
    else:
        psi0 = np.array([complex(a, b) for a, b in init], dtype=complex)
    psi0 = psi0 / np.linalg.norm(psi0)
    ket = qutip.Qobj(psi0.reshape(-1, 1), dims=[[2] * n, [1] * n])
    shown = read_ops(t)
    tol = 1e-7
    settings = [list(b) for b in itertools.product([0, 1], repeat=ncb)] if ncb else [None]
    for bits in settings:
        try:
            res = t.run_statistics(ket, cbits=(None if bits is None else list(bits)))
        except Exception as e:
            return True, f"{name}: run_statistics of the transformed circuit (cbits={bits}) raised {type(e).__name__}: {str(e)[:80]}"
        probs = [float(p) for p in res.get_probabilities()]
        states = res.get_final_states()
        refs = [("the operations the transformed circuit shows in its attributes",
                 [b for b in branches_attr(shown, n, ncb, psi0, bits) if b[1] > 1e-12], True)]
        if sem is not None:
            refs.append(("the ORIGINAL circuit", [b for b in branches(dict(w, n=n, ops=sem, init=[[z.real, z.imag] for z in psi0]), bits)
                                                  if b[1] > 1e-12], False))
        for what, live, exact in refs:
            if len(probs) != len(live):
                return True, f"{name}, cbits={bits}: {len(probs)} branches, {what} has {len(live)}"
            for a, b in enumerate(live):
                if abs(probs[a] - b[1]) > tol:
                    return True, (f"{name}, cbits={bits}, record {b[0]}: probability {probs[a]!r}, {what} gives {b[1]!r}")
                v = states[a].full().ravel()
                r = b[2] / np.linalg.norm(b[2])
                ok = np.allclose(v, r, atol=tol) if exact else abs(abs(np.vdot(r, v)) - 1) < tol
                if not ok:
                    conds = [(o["gate"].name, o["cc"], o["ccv"]) for o in shown if "M" not in o and o["cc"] is not None]
                    return True, (f"{name}, initial classical bits {bits}, record {b[0]}: the final state is not the branch "
                                  f"of {what} (conditioned gates shown by the transformed circuit: {conds[:6]})")
            if ncb and [list(map(int, x)) for x in res.get_cbits()] != [b[3] for b in live]:
                return True, f"{name}, cbits={bits}: classical bits of the records differ from {what}"
    return False, f"{name}: {len(settings)} classical states x all records agree with the original and with the shown attributes"


def rand_transformed(rng):
    """conditioned gates only (+ measurements put in front afterwards); for reverse / add_circuit / assigned also
    measurements inside"""
    name = rng.choice(TRANSFORMS + ["assigned", "assigned", "assigned"])
    n = rng.randint(2, 3) if name != "assigned" else rng.randint(1, 3)
    ncb = rng.choice([1, 2, 2, 3, 4])
    inside = name in ("reverse", "add_circuit", "assigned")
    ops, m = [], 0
    for _ in range(rng.randint(1, 5)):
        if inside and rng.random() < 0.25 and m < 2:
            ops.append({"M": rng.randrange(n), "store": rng.randrange(ncb)})
            m += 1
            continue
        kind = rng.random()
        if name == "adjacent":
            kind = max(kind, 0.5)            # adjacent_gates is defined for two-qubit gates only
        one_q = ["X", "Y", "Z", "SNOT", "RX", "RY", "RZ"] + ([] if name.startswith("resolve") else ["S", "T"])
        if kind < 0.5 or n == 1:
            nm = rng.choice(one_q)
            g = {"name": nm, "targets": [rng.randrange(n)], "controls": None,
                 "arg": (round(rng.uniform(-3, 3), 3) if nm in ("RX", "RY", "RZ") else None)}
        elif kind < 0.9 or n == 2 or name == "adjacent":
            c, t = rng.sample(range(n), 2)
            nm = rng.choice(["CNOT", "CSIGN", "SWAP"])
            g = {"name": nm, "targets": [c, t] if nm == "SWAP" else [t], "controls": None if nm == "SWAP" else [c], "arg": None}
        else:
            a, b, t = rng.sample(range(n), 3)
            g = {"name": "TOFFOLI", "targets": [t], "controls": [a, b], "arg": None}
        g["cc"], g["ccv"] = None, None
        if rng.random() < 0.7 and not (name == "add_circuit" and "C02-4" in pending()):
            cc = rng.sample(range(ncb), rng.randint(1, ncb))
            g["cc"], g["ccv"] = cc, (None if rng.random() < 0.3 else rng.randrange(2 ** len(cc)))
        ops.append(g)
    w = {"kind": "transformed", "transform": name, "n": n, "ncb": ncb, "ops": ops, "seed": rng.randrange(1000)}
    if not inside and rng.random() < 0.7:
        w["pre"] = [{"M": rng.randrange(n), "store": rng.randrange(ncb)} for _ in range(rng.randint(1, 2))]
    if name == "assigned" or rng.random() < 0.3:
        w["late"] = sorted(rng.sample(["cc", "targets", "arg"], rng.randint(1, 3)) + (["cc"] if name == "assigned" else []))
        w["late"] = sorted(set(w["late"]))
        w["reassign"] = rng.random() < 0.3
    if name == "add_circuit":
        w["start"] = rng.randint(0, 1)
        w["pad"] = rng.randint(0, 1)
    if name == "qasm_if":
        w = rand_qasm_if(rng)
    return w


def rand_qasm_if(rng):
    n = rng.randint(1, 2)
    k = rng.randint(1, 2)
    lines = ["OPENQASM 2.0;", 'include "qelib1.inc";', f"qreg q[{n}];", f"creg c[{k}];"]
    for _ in range(rng.randint(1, 4)):
        r = rng.random()
        g = rng.choice(["x", "h", "z", "y"]) + f" q[{rng.randrange(n)}];"
        if r < 0.3:
            lines.append(f"measure q[{rng.randrange(n)}] -> c[{rng.randrange(k)}];")
        elif r < 0.8:
            lines.append(f"if(c=={rng.randrange(2 ** k)}) " + g)
        else:
            lines.append(g)
    return {"kind": "transformed", "transform": "qasm_if", "n": n, "ncb": k, "ops": [], "qasm": "\n".join(lines) + "\n",
            "seed": rng.randrange(1000)}


_PENDING = None


def pending():
    """repair proposed by this check and not (yet) in the tree under test: fixes/C02-4 (add_circuit drops the classical
    condition of the gates of the added block) — recognised by the exact unrepaired call; until it is in the tree the
    random add_circuit stream uses unconditioned gates only (the fixed witness is replayed from known_findings.json)"""
    global _PENDING
    if _PENDING is None:
        import ast
        _PENDING = set()
        try:
            tree = ast.parse(open(paths.REPO + "/src/qutip_qip/circuit/circuit.py").read())
            for node in ast.walk(tree):
                if isinstance(node, ast.FunctionDef) and node.name == "add_circuit":
                    calls = [c for c in ast.walk(node) if isinstance(c, ast.Call) and isinstance(c.func, ast.Attribute)
                             and c.func.attr == "add_gate"]
                    # exactly the unrepaired call: add_gate(name, targets=, controls=, arg_value=) and nothing else
                    if calls and all({k.arg for k in c.keywords} == {"targets", "controls", "arg_value"} for c in calls):
                        _PENDING.add("C02-4")
        except Exception:
            pass
    return _PENDING


W_ADDCIRC = {"kind": "transformed", "transform": "add_circuit", "n": 1, "ncb": 1, "seed": 2, "start": 0, "pad": 0,
             "ops": [{"name": "X", "targets": [0], "controls": None, "arg": None, "cc": [0], "ccv": 1}]}
W_RESOLVED = {"kind": "transformed", "transform": "resolve_cnot_rot", "n": 2, "ncb": 2, "seed": 3,
              "ops": [{"name": "SNOT", "targets": [0], "controls": None, "arg": None, "cc": None, "ccv": None},
                      {"name": "SNOT", "targets": [1], "controls": None, "arg": None, "cc": [0, 1], "ccv": 1}],
              "pre": [{"M": 0, "store": 1}]}
W_ASSIGNED = {"kind": "transformed", "transform": "assigned", "n": 1, "ncb": 1, "seed": 5, "late": ["cc"],
              "ops": [{"name": "X", "targets": [0], "controls": None, "arg": None, "cc": [0], "ccv": 1}]}


# ------------------------------------------------------------------------------------------
# histories on ONE circuit object: the condition of a live gate object is edited BETWEEN simulations

def _check_sim(qc, sim, how, ket, cb0, br, ncb, tol=1e-8):
    """one simulation (`stat`: run_statistics, `run`: run with every prescribed record) against the branches `br`
    of the CURRENT circuit description; `sim` None = through the circuit's own run / run_statistics"""
    live = [b for b in br if b[1] > 1e-12]

    def same_state(q, vec):
        return q is not None and np.allclose(q.full().ravel(), vec / np.linalg.norm(vec), atol=tol)

    arg = lambda: None if cb0 is None else list(cb0)
    if how == "stat":
        res = (qc if sim is None else sim).run_statistics(ket, cbits=arg())
        probs = [float(p) for p in res.get_probabilities()]
        if len(probs) != len(live):
            return f"{len(probs)} branches returned, {len(live)} records have non-zero probability"
        states = res.get_final_states()
        for a, b in enumerate(live):
            if abs(probs[a] - b[1]) > tol:
                return f"record {b[0]}: probability {probs[a]!r}, Born rule gives {b[1]!r}"
            if not same_state(states[a], b[2]):
                return f"record {b[0]} (bits {b[3]}): final state is not the branch vector of the current circuit"
        if ncb and [list(map(int, x)) for x in res.get_cbits()] != [b[3] for b in live]:
            return "classical bits of the records differ"
        return None
    from qutip_qip.circuit import CircuitSimulator
    s_ = sim if sim is not None else CircuitSimulator(qc)
    for b in br:
        if b[1] <= 1e-12:
            continue
        r = s_.run(ket, cbits=arg(), measure_results=tuple(b[0])) if b[0] else s_.run(ket, cbits=arg())
        if abs(float(r.get_probabilities(0)) - b[1]) > tol or not same_state(r.get_final_states(0), b[2]):
            return f"run with prescribed record {b[0]} (bits {b[3]}): not the branch of the current circuit"
    return None


def _oracle_condhist(w):
    """One circuit object simulated several times; between the simulations the user assigns the public attributes
    `classical_control_value` / `classical_controls` (sometimes targets) of LIVE gate objects.  Every simulation — on
    the simulator that was already used, on a new simulator, or through QubitCircuit.run_statistics — must give the
    branches of the circuit AS IT IS DESCRIBED NOW."""
    import copy, qutip
    from qutip_qip.circuit import CircuitSimulator
    n, ncb = w["n"], w["ncb"]
    try:
        qc = build_from_witness(w)
    except Exception as e:
        return False, "not constructible: " + type(e).__name__
    psi0 = np.array([complex(a, b) for a, b in w["init"]], dtype=complex)
    psi0 = psi0 / np.linalg.norm(psi0)
    ket = qutip.Qobj(psi0.reshape(-1, 1), dims=[[2] * n, [1] * n])
    cur = copy.deepcopy(w["ops"])
    used = CircuitSimulator(qc)
    for k, st in enumerate(w["stages"]):
        for e in st.get("set") or []:
            if "add" in e:
                # an operation appended (index None) or inserted through the public API
                o = copy.deepcopy(e["add"])
                i = len(cur) if e.get("index") is None else min(e["index"], len(cur))
                idx = {} if e.get("index") is None else {"index": [i]}
                if "M" in o:
                    qc.add_measurement("M", targets=[o["M"]], classical_store=o.get("store"), **idx)
                else:
                    kw = {}
                    if o.get("cc") is not None:
                        kw = {"classical_controls": list(o["cc"]), "classical_control_value": o["ccv"]}
                    qc.add_gate(o["name"], targets=list(o["targets"]),
                                controls=(list(o["controls"]) if o.get("controls") else None), arg_value=o.get("arg"),
                                **idx, **kw)
                cur.insert(i, o)
                continue
            if "remove" in e:
                i = min(e["remove"], len(cur) - 1)
                qc.remove_gate_or_measurement(index=i)
                del cur[i]
                continue
            g, o = qc.gates[e["i"]], cur[e["i"]]
            if "cc" in e:
                g.classical_controls = None if e["cc"] is None else list(e["cc"])
                o["cc"] = e["cc"]
            if "ccv" in e:
                g.classical_control_value = e["ccv"]
                o["ccv"] = e["ccv"]
            if "targets" in e:
                g.targets = list(e["targets"])
                o["targets"] = list(e["targets"])
                if e.get("controls"):
                    g.controls = list(e["controls"])
                    o["controls"] = list(e["controls"])
        br = branches(dict(w, ops=cur), w.get("cbits"))
        sim = {"same": used, "new": CircuitSimulator(qc), "circuit": None}[st.get("sim", "same")]
        try:
            if st.get("sim") == "circuit" and st.get("how") == "dm":
                # QubitCircuit.run on a density matrix (its own simulation mode): the mixture of the current branches
                if reads_earlier_written_bit(dict(w, ops=cur)):
                    continue
                rho = qc.run(qutip.ket2dm(ket), cbits=(None if w.get("cbits") is None else list(w["cbits"])))
                mix = sum(np.outer(b[2], b[2].conj()) for b in br if b[1] > 1e-12)
                d = None if np.allclose(rho.full(), mix, atol=1e-8) else \
                    "QubitCircuit.run on the density matrix is not the mixture of the branches of the current circuit"
            elif st.get("sim") == "circuit" and st.get("how") == "run":
                d = None
                for b in br:
                    if b[1] <= 1e-12:
                        continue
                    arg = None if w.get("cbits") is None else list(w["cbits"])
                    out = qc.run(ket, cbits=arg, measure_results=tuple(b[0])) if b[0] else qc.run(ket, cbits=arg)
                    if out is None or not np.allclose(out.full().ravel(), b[2] / np.linalg.norm(b[2]), atol=1e-8):
                        d = f"QubitCircuit.run with prescribed record {b[0]}: not the branch of the current circuit"
                        break
            else:
                d = _check_sim(qc, sim, st.get("how", "stat"), ket, w.get("cbits"), br, ncb)
        except Exception as ex:
            d = "the implementation raised " + type(ex).__name__ + ": " + str(ex)[:80]
        if d:
            conds = [(o["name"], o["cc"], o["ccv"]) for o in cur if "M" not in o and o.get("cc") is not None]
            if any("add" in e or "remove" in e for st2 in w["stages"] for e in (st2.get("set") or [])):
                conds = "operations now: " + json.dumps([("M%d" % o["M"]) if "M" in o else o["name"] + str(o["targets"]) for o in cur])
            edits = [st2.get("set") for st2 in w["stages"][:k + 1] if st2.get("set")]
            return True, (f"simulation {k} ({st.get('how', 'stat')} on {st.get('sim', 'same')} simulator) after the edits "
                          f"{json.dumps(edits)}: {d} (conditions the circuit shows now: {conds})")
    return False, f"{len(w['stages'])} simulations of one circuit object, conditions edited in between: all agree"


def rand_condhist(rng):
    w = rand_witness(rng, general=True)
    if w["ncb"] == 0:
        w["ncb"] = rng.randint(1, 3)
    ncb, n = w["ncb"], w["n"]
    ops = [o for o in w["ops"] if "M" in o or not o.get("cc") or all(c < ncb for c in o["cc"])]
    # at least one measurement writing a bit and one conditioned gate after it
    if not any("M" in o for o in ops):
        ops.insert(0, {"M": rng.randrange(n), "store": rng.randrange(ncb)})
        ops.insert(0, {"name": "SNOT", "targets": [ops[0]["M"]], "controls": None, "arg": None, "cc": None, "ccv": None})
    if not any("M" not in o and o.get("cc") for o in ops):
        cc = rng.sample(range(ncb), rng.randint(1, ncb))
        ops.append({"name": "X", "targets": [rng.randrange(n)], "controls": None, "arg": None, "cc": cc,
                    "ccv": rng.randrange(2 ** len(cc))})
    for o in ops:
        if "M" not in o and o.get("cc") and o.get("ccv") is None:
            o["ccv"] = 2 ** len(o["cc"]) - 1
    cpos = [i for i, o in enumerate(ops) if "M" not in o and o.get("cc")]
    stages = [{"set": [], "sim": "same", "how": rng.choice(["stat", "run"])}]
    cur = {i: (list(ops[i]["cc"]), ops[i]["ccv"]) for i in cpos}
    for _ in range(rng.randint(1, 3)):
        i = rng.choice(cpos)
        cc, v = cur[i]
        e = {"i": i}
        if rng.random() < 0.7 and len(cc) >= 1:
            e["ccv"] = rng.choice([x for x in range(2 ** len(cc)) if x != v] or [v])
        else:
            # other classical bits, the same number of them
            e["cc"] = rng.sample(range(ncb), len(cc)) if ncb >= len(cc) else cc
            if rng.random() < 0.5:
                e["ccv"] = rng.randrange(2 ** len(cc))
        cur[i] = (e.get("cc", cc), e.get("ccv", v))
        stages.append({"set": [e], "sim": rng.choice(["same", "same", "new", "circuit"]), "how": rng.choice(["stat", "stat", "run"])})
    return {"kind": "condhist", "n": n, "ncb": ncb, "ops": ops, "init": w["init"], "cbits": w["cbits"], "stages": stages}


def rand_structhist(rng):
    """one QubitCircuit object simulated through ITS OWN API (run / run_statistics, ket and density matrix), operations
    added / inserted / removed in between"""
    w = rand_witness(rng, general=True)
    n, ncb = w["n"], w["ncb"]
    ops = [o for o in w["ops"]][:5]
    for o in ops:
        if "M" not in o and o.get("cc") and o.get("ccv") is None:
            o["ccv"] = 2 ** len(o["cc"]) - 1
    how = lambda: rng.choice(["stat", "stat", "run", "dm"])
    stages = [{"set": [], "sim": "circuit", "how": how()}]
    length, nm = len(ops), sum(1 for o in ops if "M" in o)
    for _ in range(rng.randint(1, 3)):
        r = rng.random()
        if r < 0.4 and nm < 3:
            e = {"add": {"M": rng.randrange(n), "store": (rng.randrange(ncb) if ncb else None)},
                 "index": rng.choice([None, rng.randint(0, length)])}
            length += 1
            nm += 1
        elif r < 0.75 or length <= 1:
            nm_ = rng.choice(["X", "SNOT", "RX", "Z"])
            g = {"name": nm_, "targets": [rng.randrange(n)], "controls": None,
                 "arg": (round(rng.uniform(-3, 3), 3) if nm_ == "RX" else None), "cc": None, "ccv": None}
            if ncb and rng.random() < 0.3:
                g["cc"], g["ccv"] = [rng.randrange(ncb)], rng.randint(0, 1)
            e = {"add": g, "index": rng.choice([None, rng.randint(0, length)])}
            length += 1
        else:
            e = {"remove": rng.randrange(length)}
            length -= 1
        stages.append({"set": [e], "sim": rng.choice(["circuit", "circuit", "circuit", "new"]), "how": how()})
    for st in stages:
        if st["sim"] != "circuit" and st["how"] == "dm":
            st["how"] = "stat"
    return {"kind": "condhist", "n": n, "ncb": ncb, "ops": ops, "init": w["init"], "cbits": w["cbits"], "stages": stages}


def shrink(w, fails, budget=80):
    """greedy: fewer simulations, fewer operations, simpler initial data — as long as the oracle still fails"""
    import copy
    calls = [0]

    def bad(x):
        calls[0] += 1
        try:
            return calls[0] <= budget and fails(x)
        except Exception:
            return False

    w = copy.deepcopy(w)
    changed = True
    while changed and calls[0] < budget:
        changed = False
        for k in reversed(range(len(w.get("stages", [])))):
            if len(w["stages"]) > 1:
                x = copy.deepcopy(w)
                dropped = x["stages"].pop(k)
                if dropped.get("set") and k >= len(x["stages"]):
                    continue          # the last simulation carries the edit under test
                if k < len(x["stages"]) and dropped.get("set"):
                    x["stages"][k]["set"] = dropped["set"] + (x["stages"][k].get("set") or [])
                if bad(x):
                    w, changed = x, True
        structural = any("add" in e or "remove" in e for st in w.get("stages", []) for e in (st.get("set") or []))
        used = set() if structural else {e["i"] for st in w.get("stages", []) for e in (st.get("set") or [])}
        for i in reversed(range(len(w["ops"]))):
            if structural or i in used or len(w["ops"]) <= 1:
                continue
            x = copy.deepcopy(w)
            del x["ops"][i]
            for st in x.get("stages", []):
                for e in st.get("set") or []:
                    if e["i"] > i:
                        e["i"] -= 1
            if bad(x):
                w, changed = x, True
                used = {e["i"] for st in w.get("stages", []) for e in (st.get("set") or []) if "i" in e}
        for key, val in (("cbits", None), ("init", [[1, 0]] + [[0, 0]] * (2 ** w["n"] - 1))):
            if w.get(key) != val:
                x = dict(copy.deepcopy(w), **{key: val})
                if bad(x):
                    w, changed = x, True
        for st in w.get("stages", []):
            for key, val in (("sim", "same"), ("how", "stat")):
                if st.get(key) != val:
                    x = copy.deepcopy(w)
                    x["stages"][w["stages"].index(st)][key] = val
                    if bad(x):
                        w, changed = x, True
                        break
    return w


W_STRUCTHIST = {"kind": "condhist", "n": 1, "ncb": 1, "cbits": None, "init": [[1, 0], [0, 0]],
                "ops": [{"name": "SNOT", "targets": [0], "controls": None, "arg": None, "cc": None, "ccv": None}],
                "stages": [{"set": [], "sim": "circuit", "how": "stat"},
                           {"set": [{"add": {"M": 0, "store": 0}, "index": None}], "sim": "circuit", "how": "stat"}]}


# ------------------------------------------------------------------------------------------
# the numeric TYPE of classical_control_value, through every construction path

CCV_TYPES = ["int", "bool", "i64", "i32", "u8", "arr0"]
CCV_PATHS = ["add_gate", "class", "gate"]
CC_FORMS = ["list", "tuple", "array", "int", "npint"]       # container form of classical_controls


def _oracle_ccvtype(w):
    """classical_control_value given as a Python int / bool / numpy integer / 0-d array, the gate built by name, through
    its gate class, or as a Gate object: a value that is no bit pattern of the listed controls (v < 0 or v >= 2^k) is
    REFUSED at construction; a value in range fires on exactly the classical states whose listed bits (first listed most
    significant) equal it."""
    import qutip
    from qutip_qip.circuit import QubitCircuit
    from qutip_qip import operations as ops_
    cc, v, ncb = list(w["cc"]), w["value"], w["ncb"]
    k = len(cc)
    val = S.ccv_as(w["type"], v)
    name = "CNOT" if w.get("quantum_control") else "X"
    n = 2 if w.get("quantum_control") else 1
    form = w.get("form", "list")
    if form in ("int", "npint") and k != 1:
        return False, "a bare int stands for a single classical control only"
    kw = {"classical_controls": S.cc_as(form, cc), "classical_control_value": val}
    tk = {"targets": [n - 1], **({"controls": [0]} if n == 2 else {})}
    in_range = 0 <= v < 2 ** k
    try:
        qc = QubitCircuit(n, num_cbits=ncb)
        if w["path"] == "add_gate":
            qc.add_gate(name, **tk, **kw)
        elif w["path"] == "class":
            qc.add_gate(getattr(ops_, name)(**tk, **kw))
        else:
            qc.add_gate(ops_.Gate(name, **tk, **kw))
    except ValueError as e:
        if in_range:
            return True, f"valid condition value {val!r} ({type(val).__name__}) on {k} classical bits refused: {str(e)[:60]}"
        return False, "out-of-range value refused at construction"
    except Exception as e:
        return True, f"construction raised {type(e).__name__}: {str(e)[:80]}"
    init = qutip.basis([2] * n, [1] * (n - 1) + [0])          # the quantum control (if any) is 1
    fired_on = []
    for bits in itertools.product([0, 1], repeat=ncb):
        try:
            out = qc.run(init, cbits=list(bits))
        except Exception as e:
            return True, f"simulation with classical bits {list(bits)} raised {type(e).__name__}: {str(e)[:80]}"
        if abs(out.full().ravel()[-1]) > 0.5:
            fired_on.append(list(bits))
    if not in_range:
        return True, (f"classical_control_value = {val!r} ({type(val).__name__}) on the {k} classical bits {cc} (given as "
                      f"{form}: {S.cc_as(form, cc)!r}) is no bit pattern of them but was accepted ({w['path']}, {name}); the gate "
                      f"fires with classical bits {fired_on}")
    want = [list(b) for b in itertools.product([0, 1], repeat=ncb)
            if sum(b[c] << (k - 1 - i) for i, c in enumerate(cc)) == v]
    if fired_on != want:
        return True, (f"value {val!r} ({type(val).__name__}) on {cc}: fires with classical bits {fired_on}, "
                      f"expected exactly {want}")
    return False, "fires on exactly the matching classical states"


def rand_ccvtype(rng):
    ncb = rng.randint(1, 3)
    k = rng.randint(1, ncb)
    t = rng.choice(CCV_TYPES)
    v = rng.randint(0, 1) if t == "bool" else rng.randint(-2 if t not in ("u8",) else 0, 2 ** (k + 1) + 1)
    return {"kind": "ccvtype", "path": rng.choice(CCV_PATHS), "type": t, "cc": rng.sample(range(ncb), k), "ncb": ncb,
            "value": v, "quantum_control": rng.random() < 0.3,
            "form": rng.choice(CC_FORMS if k == 1 else CC_FORMS[:3])}


def all_ccvtype():
    """every type x every construction path: one value in range (2) and out-of-range values (4, 5, 7) on [c0, c1]"""
    for t in CCV_TYPES:
        for path in CCV_PATHS:
            for v in ((1,) if t == "bool" else (2, 5, 4, 7)):
                yield {"kind": "ccvtype", "path": path, "type": t, "cc": [0, 1], "ncb": 2, "value": v, "quantum_control": False}


def all_ccform():
    """every container form of classical_controls x every construction path x X / CNOT: a single control with the
    values 1 (in range), 2, 3, 5 (out of range); two controls (sequence forms) with 2 and 5"""
    for form in CC_FORMS:
        for path in CCV_PATHS:
            for qctrl in (False, True):
                for v in (1, 2, 3, 5):
                    yield {"kind": "ccvtype", "path": path, "type": "int", "cc": [0], "ncb": 2, "value": v,
                           "quantum_control": qctrl, "form": form}
                if form in ("list", "tuple", "array"):
                    for v in (2, 5):
                        yield {"kind": "ccvtype", "path": path, "type": "int", "cc": [1, 0], "ncb": 2, "value": v,
                               "quantum_control": qctrl, "form": form}


def all_addcircuit():
    """blocks with a conditioned gate of every value on 1-3 classical bits, with and without a quantum control, added
    at offsets 0 and 1"""
    for k in (1, 2, 3):
        for v in range(2 ** k):
            for qctrl in (False, True):
                for start in (0, 1):
                    g = ({"name": "CNOT", "targets": [1], "controls": [0]} if qctrl else
                         {"name": "X", "targets": [0], "controls": None})
                    yield {"kind": "transformed", "transform": "add_circuit", "n": 2 if qctrl else 1, "ncb": k, "seed": 7,
                           "start": start, "pad": 0,
                           "ops": [dict(g, arg=None, cc=list(range(k)), ccv=v)]}


# ------------------------------------------------------------------------------------------
# records of tiny but legitimate probability

def _oracle_tiny(w):
    """Branches of tiny probability: the simulator prunes an outcome only when its SINGLE-measurement probability is
    below its tolerance (atol**2; documented 1e-12).  A record every outcome of which has conditional probability
    > 1e-12 must be present, with the Born probability to a RELATIVE accuracy, however small the product is."""
    import qutip
    from qutip_qip.circuit import CircuitSimulator
    n, ncb = w["n"], w["ncb"]
    qc = build_from_witness(w)
    psi0 = np.array([complex(a, b) for a, b in w["init"]], dtype=complex)
    psi0 = psi0 / np.linalg.norm(psi0)
    ket = qutip.Qobj(psi0.reshape(-1, 1), dims=[[2] * n, [1] * n])
    cb0 = w.get("cbits")
    recs = w.get("records")
    br = branches(w, cb0, records=(None if recs is None else [tuple(r) for r in recs]), cut=0.0)
    if any(0 < b[4] <= 1e-12 for b in br):
        return False, "not decidable: an outcome within the pruning tolerance of a single measurement"
    rel = lambda p, q: abs(p - q) <= 1e-6 * q + 1e-30
    same = lambda q, vec: q is not None and np.allclose(q.full().ravel(), vec / np.linalg.norm(vec), atol=1e-7)
    live = [b for b in br if b[1] > 0]
    if recs is None:
        res = qc.run_statistics(ket, cbits=(None if cb0 is None else list(cb0)))
        probs = [float(p) for p in res.get_probabilities()]
        if len(probs) != len(live):
            missing = [(b[0], b[1]) for b in live][:4]
            return True, (f"run_statistics returns {len(probs)} branches, {len(live)} records have non-zero probability with "
                          f"every single outcome above the pruning tolerance (records / Born probabilities: {missing}); "
                          f"sum of the returned probabilities {sum(probs)!r}")
        for a, b in enumerate(live):
            if not rel(probs[a], b[1]):
                return True, f"run_statistics, record {b[0]}: probability {probs[a]!r}, Born rule gives {b[1]!r}"
            if not same(res.get_final_states()[a], b[2]):
                return True, f"run_statistics, record {b[0]}: wrong final state"
        if abs(sum(probs) - 1) > 1e-9:
            return True, f"run_statistics: probabilities sum to {sum(probs)!r}"
    sim = CircuitSimulator(qc)
    for b in live:
        r = sim.run(ket, cbits=(None if cb0 is None else list(cb0)), measure_results=tuple(b[0]))
        p, st = float(r.get_probabilities(0)), r.get_final_states(0)
        if st is None or not rel(p, b[1]):
            return True, (f"run(measure_results={tuple(b[0]) if len(b[0]) <= 8 else '<%d outcomes>' % len(b[0])}): probability "
                          f"{p!r}{' and no state' if st is None else ''}, Born rule gives {b[1]!r} (smallest single-outcome "
                          f"probability along the record {b[4]:.3e})")
        if not same(st, b[2]):
            return True, f"run(measure_results={b[0][:8]}…): wrong final state"
        if ncb and list(map(int, r.get_cbits(0))) != b[3]:
            return True, f"run(measure_results={b[0][:8]}…): bits {r.get_cbits(0)} expected {b[3]}"
    return False, f"{len(live)} records down to probability {min((b[1] for b in live), default=1):.2e} agree"


TINY_ANGLES = [2e-4, 1e-4, 6.3e-3, 2e-5, 1e-3]


def rand_tiny(rng):
    if rng.random() < 0.3:
        # a long prescribed record of balanced measurements on few qubits
        n = rng.randint(1, 2)
        k = rng.randint(24, 34)
        ops = []
        for j in range(k):
            q = rng.randrange(n)
            ops.append({"name": "SNOT", "targets": [q], "controls": None, "arg": None, "cc": None, "ccv": None})
            ops.append({"M": q, "store": (0 if rng.random() < 0.5 else None)})
        init = [[1, 0]] + [[0, 0]] * (2 ** n - 1)
        return {"kind": "tiny", "n": n, "ncb": 1, "ops": ops, "init": init, "cbits": None,
                "records": [[rng.randint(0, 1) for _ in range(k)] for _ in range(2)]}
    n = rng.randint(1, 3)
    ncb = rng.randint(0, 2)
    ops, m = [], 0
    for q in rng.sample(range(n), rng.randint(1, n)):
        if rng.random() < 0.3:
            ops.append({"name": "X", "targets": [q], "controls": None, "arg": None, "cc": None, "ccv": None})
        ops.append({"name": rng.choice(["RX", "RY"]), "targets": [q], "controls": None,
                    "arg": rng.choice(TINY_ANGLES) * rng.choice([1, -1]), "cc": None, "ccv": None})
        if rng.random() < 0.85 and m < 3:
            ops.append({"M": q, "store": (rng.randrange(ncb) if ncb and rng.random() < 0.8 else None)})
            m += 1
            if ncb and rng.random() < 0.4:
                ops.append({"name": "X", "targets": [rng.randrange(n)], "controls": None, "arg": None,
                            "cc": [rng.randrange(ncb)], "ccv": 1})
    if m == 0:
        ops.append({"M": ops[-1]["targets"][0], "store": None})
    init = [[1, 0]] + [[0, 0]] * (2 ** n - 1)
    return {"kind": "tiny", "n": n, "ncb": ncb, "ops": ops, "init": init, "cbits": None, "records": None}


_rx = lambda q, a: {"name": "RX", "targets": [q], "controls": None, "arg": a, "cc": None, "ccv": None}
W_TINY1 = {"kind": "tiny", "n": 1, "ncb": 0, "init": [[1, 0], [0, 0]], "cbits": None, "records": None,
           "ops": [_rx(0, 1e-4), {"M": 0, "store": None}]}
W_TINY2 = {"kind": "tiny", "n": 2, "ncb": 0, "init": [[1, 0], [0, 0], [0, 0], [0, 0]], "cbits": None, "records": None,
           "ops": [_rx(0, 6.3e-3), _rx(1, 6.3e-3), {"M": 0, "store": None}, {"M": 1, "store": None}]}
W_LONG = {"kind": "tiny", "n": 1, "ncb": 0, "init": [[1, 0], [0, 0]], "cbits": None,
          "records": [[(j * 7 // 3) % 2 for j in range(28)]],
          "ops": sum(([{"name": "SNOT", "targets": [0], "controls": None, "arg": None, "cc": None, "ccv": None},
                       {"M": 0, "store": None}] for _ in range(28)), [])}


W_CONDHIST = {"kind": "condhist", "n": 2, "ncb": 1, "cbits": None, "init": [[1, 0], [0, 0], [0, 0], [0, 0]],
              "ops": [{"name": "SNOT", "targets": [0], "controls": None, "arg": None, "cc": None, "ccv": None},
                      {"M": 0, "store": 0},
                      {"name": "X", "targets": [1], "controls": None, "arg": None, "cc": [0], "ccv": 1}],
              "stages": [{"set": [], "sim": "same", "how": "stat"},
                         {"set": [{"i": 2, "ccv": 0}], "sim": "same", "how": "stat"}]}


# ------------------------------------------------------------------------------------------
# witness generators for the oracle

ORACLE_1Q = ["X", "Y", "Z", "SNOT", "S", "T", "RX", "RY", "RZ"]


def rand_witness(rng, general=True, dm_safe=False):
    n = rng.randint(1, 3)
    ncb = rng.choice([0, 1, 2, 3, 3, 4, 5])
    ops, m = [], 0
    for _ in range(rng.randint(1, 7)):
        r = rng.random()
        if r < 0.35 and m < 4:
            ops.append({"M": rng.randrange(n), "store": (rng.randrange(ncb) if ncb and rng.random() < 0.9 else None)})
            m += 1
            continue
        kind = rng.random()
        if kind < 0.55 or n == 1:
            name = rng.choice(ORACLE_1Q if general else ["X", "Z", "SNOT"])
            g = {"name": name, "targets": [rng.randrange(n)], "controls": None,
                 "arg": (round(rng.uniform(-3, 3), 3) if name in ("RX", "RY", "RZ") else None)}
        elif kind < 0.85 or n == 2:
            c, t = rng.sample(range(n), 2)
            name = rng.choice(["CNOT", "CSIGN", "SWAP"])
            g = {"name": name, "targets": [c, t] if name == "SWAP" else [t], "controls": None if name == "SWAP" else [c],
                 "arg": None}
        else:
            a, b, t = rng.sample(range(n), 3)
            g = {"name": "TOFFOLI", "targets": [t], "controls": [a, b], "arg": None}
        g["cc"], g["ccv"] = None, None
        if ncb and rng.random() < 0.45:
            cc = rng.sample(range(ncb), rng.randint(1, ncb))
            # (None = classical_control_value left at its default: every listed bit must be 1)
            g["cc"], g["ccv"] = cc, (None if rng.random() < 0.3 else rng.randrange(2 ** len(cc)))
        ops.append(g)
    D = 2 ** n
    if rng.random() < 0.3:
        init = [[0, 0] for _ in range(D)]
        init[rng.randrange(D)] = [1, 0]
    else:
        init = [[round(rng.gauss(0, 1), 3), round(rng.gauss(0, 1), 3)] for _ in range(D)]
        if not any(a or b for a, b in init):
            init[0] = [1, 0]
    cb = None if (ncb == 0 or rng.random() < 0.4) else [rng.randint(0, 1) for _ in range(ncb)]
    if cb is not None and rng.random() < 0.35:
        cb = [1] * ncb              # the state in which every default condition holds
    w = {"kind": "branches", "n": n, "ncb": ncb, "ops": ops, "init": init, "cbits": cb, "check": "all"}
    return w


W_ALIAS = {"kind": "branches", "n": 1, "ncb": 1, "check": "stat", "cbits": [0], "init": [[1, 0], [0, 0]],
           "ops": [{"name": "SNOT", "targets": [0], "controls": None, "arg": None, "cc": None, "ccv": None},
                   {"M": 0, "store": 0}]}
W_BIGCCV = {"kind": "branches", "n": 1, "ncb": 1, "check": "run", "cbits": [1], "init": [[1, 0], [0, 0]],
            "ops": [{"name": "X", "targets": [0], "controls": None, "arg": None, "cc": [0], "ccv": 2}]}
W_DEFAULT3 = {"kind": "branches", "n": 1, "ncb": 3, "check": "run", "cbits": [1, 1, 1], "init": [[1, 0], [0, 0]],
              "ops": [{"name": "X", "targets": [0], "controls": None, "arg": None, "cc": [0, 1, 2], "ccv": None}]}
W_DEFAULT4 = {"kind": "branches", "n": 1, "ncb": 4, "check": "stat", "cbits": [0, 1, 1, 1], "init": [[1, 0], [0, 0]],
              "ops": [{"name": "X", "targets": [0], "controls": None, "arg": None, "cc": [0, 1, 2, 3], "ccv": None}]}
W_DMFF = {"kind": "branches", "n": 2, "ncb": 1, "check": "dm", "cbits": None,
          "init": [[1, 0], [0, 0], [0, 0], [0, 0]],
          "ops": [{"name": "SNOT", "targets": [0], "controls": None, "arg": None, "cc": None, "ccv": None},
                  {"M": 0, "store": 0},
                  {"name": "X", "targets": [1], "controls": None, "arg": None, "cc": [0], "ccv": 1}]}


class C02(PropertyCheck):
    id = "C02"
    lean_modules = ["QipVerif.Props.C02"]
    drivers = ["drv_sim"]
    theorems = [
        "QipVerif.C02.cond_iff",
        "QipVerif.C02.cond_default_iff",
        "QipVerif.C02.fires_iff",
        "QipVerif.C02.born_split",
        "QipVerif.C02.probs_sum_one",
        "QipVerif.C02.born_backend_ok",
        "QipVerif.C02.postselect_eq_branch",
        "QipVerif.C02.postselect_pruned_prob_zero",
        "QipVerif.C02.unconstrained_run_mem_branches",
        "QipVerif.C02.stat_eq_branches",
        "QipVerif.C02.stat_eq_branches_current",
        "QipVerif.C02.cbits_reported",
        "QipVerif.C02.dm_eq_mixture_partial",
        "QipVerif.C02.dm_mixture_or_refuse",
        "QipVerif.C02.branch_prob",
        "QipVerif.C02.unitary_preserves_norm",
        "QipVerif.C02.embed_unitary_preserves_norm",
        "QipVerif.C02.probs_sum_one_born",
        "QipVerif.C02.C02_counterexample_ccv_out_of_range",
        "QipVerif.C02.C02_counterexample_cbits_alias",
        "QipVerif.C02.C02_counterexample_dm_feedforward",
    ]
    technique = ("Lean 4 proof over an executable model of the simulator's control state machine (abstract quantum "
                 "backend, classical bits in an explicit heap) + model/implementation correspondence on an exact "
                 "integer-amplitude stream (conditions given at construction, assigned on the gate object afterwards, "
                 "re-assigned between calls) + independent dense branch simulation as oracle, also of circuits that come "
                 "out of the library's transformations, under every classical state")
    level_text = ("Lean 4 theorems over an executable model of CircuitSimulator's control state machine (abstract quantum "
                  "backend; classical bits in an explicit heap so that aliasing is representable), for every circuit, record, "
                  "initial bits and state: the condition test is the integer comparison with the first listed bit most "
                  "significant (all k, all bit vectors); a run with prescribed outcomes, and an unconstrained run whose draws "
                  "are r, return the branch of r; run_statistics returns, in product order, exactly the surviving branches, "
                  "each with a list of its own holding the record's writes applied to the initial bits; the probabilities of "
                  "all records and of the surviving ones sum to one given only that a measurement splits the weight, which is "
                  "proved for projectors on C-vectors of any register size (born_split); for the ideal backend with "
                  "measurement_statistics' normalisation and the tolerance pruning the accumulated probability of every "
                  "branch is ||psi_r||^2 of the unnormalised projector chain and the state is psi_r/||psi_r|| "
                  "(branch_prob, threshold hypothesis explicit), whence the sum to one without any splitting "
                  "hypothesis (probs_sum_one_born); density-matrix mode equals the "
                  "probability-weighted mixture for circuits without feed-forward (partial, hypothesis explicit). The model "
                  "is tied to the code on every run by a correspondence on an exact integer-amplitude stream (records, bits, "
                  "list identities, executed operations compared exactly; probabilities exactly on the 0/1 stream, 1e-9 "
                  "otherwise), exhaustive over the condition table for 3 bits and over all initial bit vectors x all 2^m "
                  "records of each sampled circuit.")
    level_note = ("Trusted: Lean kernel (propext, Classical.choice, Quot.sound); Model/Sim.lean as a description of the code "
                  "(validated by the correspondence, not proved); qutip.measurement_statistics as projector/Born "
                  "probability/normalised collapse (validated on the exact stream and by the independent dense oracle); "
                  "tolerance pruning modelled as probability = 0. Partial: density-matrix mixture only without feed-forward "
                  "(with feed-forward the code is wrong: known finding, counter-example theorem). Theorems about "
                  "caller-supplied cbits and out-of-range condition values describe the repaired code (fixes C02-1, C02-2); "
                  "the unrepaired behaviour is refuted by kernel-checked counter-examples replayed on the implementation.")
    trusted_base = [
        "Lean 4.33 kernel; axioms propext, Classical.choice, Quot.sound",
        "Model/Sim.lean as a description of CircuitSimulator.initialize/step/run/run_statistics/_apply_measurement and "
        "CircuitResult (validated by this correspondence, not proved); qutip's measurement_statistics as "
        "'projector, Born probability, normalised collapsed state'; atol**2 pruning modelled as 'probability = 0'",
        "Model/SimEdit.lean: the contract that step() reads the gate objects' fields at execution time (validated by the "
        "streams with conditions assigned / re-assigned on the gate objects, not proved); that the library's "
        "transformations keep the branch semantics is checked by the oracle `transformed` only (gate matrices of the "
        "transformed circuit from Gate.get_compact_qobj)",
        "py/props/_simlib.py, py/props/c02.py (harness: in-process logging wrappers around CircuitSimulator methods, "
        "scripted np.random.choice, canonicalisation of exceptions to {index,type,value,attr})",
    ]
    assumptions = [
        "initial kets are normalised (the code does not renormalise post-selected probabilities)",
        "no branch probability lies in (0, 1e-20): the tolerance pruning is modelled as exact zero",
    ]
    rule = ("case = (circuit over X/CNOT/SWAP/TOFFOLI/SNOT/Z/CSIGN + measurements + classical conditions, mode, initial "
            "integer-amplitude ket, caller lists, call history on one shared simulator); non-trivial = at least one "
            "measurement or one classically controlled gate; the condition table and the malformed stream are tagged")

    # ---------------------------------------------------------------------------------
    def _run_cases(self, ctx, res, cases, tags_fn, witness_fn=None):
        cfg = self.cfg
        impls, lines = [], []
        for case in cases:
            impl = S.run_impl(case, ctx.rng)
            picks = impl[3] if impl[0] == "ok" else []
            impls.append(impl)
            lines.append(S.encode(case, cfg, picks))
        outs = ctx.driver("drv_sim").run(lines)
        for case, impl, line, o in zip(cases, impls, lines, outs):
            nontrivial = any(("m" in op) or (op.get("cc") is not None) for op in case["ops"])
            inp = {k: case[k] for k in ("n", "ncb", "mode", "ops", "lists", "inits", "calls", "alts", "assign", "ccvtype",
                                        "path", "ccform") if k in case}
            res.case(inp, nontrivial=nontrivial, tags=tags_fn(case, impl) + (["conditions=assigned"] if case.get("assign") else [])
                     + (["edits=condition"] if case.get("alts") else []))
            try:
                model = S.parse_answer(o)
                diff = S.compare(case, model, impl)
            except Exception as e:  # unparsable answer = disagreement, not a crash
                diff = "model answer not understood: " + repr(e)
            if diff:
                res.disagree(inp, o[:400], "see `what`", diff, witness_fn(case) if witness_fn else None)

    @staticmethod
    def _to_witness(case):
        """the same circuit as an oracle witness (first initial state, first call's cbits)"""
        ops = []
        for o in case["ops"]:
            if "m" in o:
                ops.append({"M": o["m"], "store": o["store"]})
            else:
                nc = S.NCTRL[o["g"]]
                ops.append({"name": S.GATE_NAMES[o["g"]], "targets": o["q"][nc:], "controls": o["q"][:nc] or None,
                            "arg": None, "cc": o["cc"], "ccv": o["ccv"] if o["cc"] is not None else None})
        st = case["inits"][0]["vecs"]
        init = [[st[0][i], (st[1][i] if len(st) > 1 else 0)] for i in range(len(st[0]))]
        cb = None
        for c in case["calls"]:
            if c[0] in ("run", "stat") and c[2] is not None:
                cb = list(case["lists"][c[2]])
                break
        ok = (all(o.get("store") is None or 0 <= o["store"] < case["ncb"] for o in ops if "M" in o)
              and all(all(0 <= c < case["ncb"] for c in (o.get("cc") or [])) for o in ops if "M" not in o)
              and all(o["M"] < case["n"] for o in ops if "M" in o)
              and (cb is None or all(b in (0, 1) for b in cb)))
        if not ok:
            return None
        if (case.get("ccvtype") or case.get("ccform")) and len(ops) == 1 and ops[0].get("cc") is not None \
                and ops[0].get("ccv") is not None:
            return {"kind": "ccvtype", "path": case.get("path", "add_gate"), "type": case.get("ccvtype", "int"),
                    "cc": ops[0]["cc"], "ncb": case["ncb"], "value": ops[0]["ccv"], "quantum_control": False,
                    "form": case.get("ccform", "list")}
        if case.get("assign"):
            return {"kind": "transformed", "transform": "assigned", "late": ["cc"], "n": case["n"], "ncb": case["ncb"],
                    "ops": ops, "init": init}
        return {"kind": "branches", "n": case["n"], "ncb": case["ncb"], "ops": ops, "init": init, "cbits": cb,
                "check": "all"}

    @staticmethod
    def _hist_witness(case):
        """a history case whose conditions are edited between calls, as a `condhist` oracle witness: the versions of the
        op list in the order the history visits them, a simulation after each edit (shrunk when it fails)"""
        if not case.get("alts"):
            return C02._to_witness(case)
        base = C02._to_witness(dict(case, assign=False))
        if base is None or base.get("kind") != "branches":
            return None
        versions = S.versions_of(case)
        wops = lambda ops: C02._to_witness(dict(case, ops=ops, assign=False, alts=None))["ops"]
        stages = [{"set": [], "sim": "same", "how": "stat"}]
        cur = 0
        for c in case["calls"]:
            if c[0] != "edit":
                continue
            a, b = wops(versions[cur]), wops(versions[c[1]])
            st = []
            for i, (x, y) in enumerate(zip(a, b)):
                if x != y and "M" not in x and "M" not in y and x["name"] == y["name"]:
                    e = {"i": i, "cc": y["cc"], "ccv": (y["ccv"] if y["ccv"] is not None or y["cc"] is None
                                                        else 2 ** len(y["cc"]) - 1)}
                    if x["targets"] != y["targets"] or x["controls"] != y["controls"]:
                        e["targets"], e["controls"] = y["targets"], y["controls"]
                    st.append(e)
            stages.append({"set": st, "sim": "same", "how": "stat"})
            stages.append({"set": [], "sim": "new", "how": "run"})
            cur = c[1]
        w = {"kind": "condhist", "n": base["n"], "ncb": base["ncb"], "ops": base["ops"], "init": base["init"],
             "cbits": base["cbits"], "stages": stages}
        try:
            if oracle(w)[0]:
                w = shrink(w, lambda x: oracle(x)[0])
        except Exception:
            pass
        return w

    def correspondence(self, ctx, res):
        rng = ctx.rng
        self.cfg = S.probe_cfg(paths.REPO)
        cfg = self.cfg
        res.notes.append("code variant read from the source and confirmed by behaviour: " + json.dumps(cfg))
        tag = lambda case, impl: ["mode=" + case["mode"], "n=%d" % case["n"], "ncb=%d" % case["ncb"],
                                  "m=%d" % S.num_meas(case)]

        # 1. the classical-condition table: every ordered subset of 3 bits, every value up to 2^(k+1)-1
        #    (also beyond the range of the bits), every bit vector
        cases = []
        for k in range(0, 4):
            for cs in itertools.permutations(range(3), k):
                for v in range(0, 2 ** (k + 1)):
                    for bits in itertools.product([0, 1], repeat=3):
                        cases.append({"n": 1, "ncb": 3, "mode": "sv",
                                      "ops": [{"g": 0, "q": [0], "cc": list(cs), "ccv": v}],
                                      "lists": [list(bits)], "inits": [{"k": 0, "vecs": [[1, 0]]}],
                                      "calls": [("run", 0, 0, None)]})
        # ... and the DEFAULT value (classical_control_value not given): every ordered subset of 3 and of 4 bits, the
        # ascending and the descending order of every subset of 5 bits (k = 3..5), every bit vector
        def table_case(ncb, cs, v, bits):
            return {"n": 1, "ncb": ncb, "mode": "sv", "ops": [{"g": 0, "q": [0], "cc": list(cs), "ccv": v}],
                    "lists": [list(bits)], "inits": [{"k": 0, "vecs": [[1, 0]]}], "calls": [("run", 0, 0, None)]}
        for ncb_ in (3, 4):
            for k in range(1, ncb_ + 1):
                for cs in itertools.permutations(range(ncb_), k):
                    for bits in itertools.product([0, 1], repeat=ncb_):
                        cases.append(table_case(ncb_, cs, None, bits))
        for k in range(3, 6):
            for comb in itertools.combinations(range(5), k):
                for cs in (comb, comb[::-1]):
                    for bits in itertools.product([0, 1], repeat=5):
                        cases.append(table_case(5, cs, None, bits))
        # ... and the value given as another numeric type / the gate built through its class or as a Gate object: every
        # ordered subset (k = 1, 2) of 3 bits x every value 0..2^(k+1)-1 (in and out of range) x every bit vector
        for t_, path_ in (("i64", "add_gate"), ("u8", "class"), ("arr0", "gate"), ("i32", "class"), ("bool", "gate")):
            for k in (1, 2):
                for cs in itertools.permutations(range(3), k):
                    for v in (range(2) if t_ == "bool" else range(2 ** (k + 1))):
                        for bits in itertools.product([0, 1], repeat=3):
                            cases.append(dict(table_case(3, cs, v, bits), ccvtype=t_, path=path_))
        # ... and the CONTAINER FORM of classical_controls (bare int, numpy int, tuple, numpy array): a single control on each
        # of 3 bits x values 0..3, two controls (sequence forms) x values 0..7, x every bit vector
        for form_, path_ in (("int", "add_gate"), ("int", "class"), ("npint", "gate"), ("tuple", "class"), ("array", "add_gate")):
            for k in ((1,) if form_ in ("int", "npint") else (1, 2)):
                for cs in itertools.permutations(range(3), k):
                    for v in range(2 ** (k + 1)):
                        for bits in itertools.product([0, 1], repeat=3):
                            cases.append(dict(table_case(3, cs, v, bits), ccform=form_, path=path_))
        self._run_cases(ctx, res, cases, lambda c, i: ["table=condition", "k=%d" % len(c["ops"][0]["cc"]),
                                                       "value=" + ("default" if c["ops"][0]["ccv"] is None else "explicit"),
                                                       "register=%d" % c["ncb"], "type=" + c.get("ccvtype", "int"),
                                                       "path=" + c.get("path", "add_gate"), "form=" + c.get("ccform", "list")],
                        self._to_witness)
        res.exhaustive = True
        res.notes.append("exhaustive: every ordered subset of 3 classical bits (k=0..3) x every control value "
                         "0..2^(k+1)-1 x every bit vector; the DEFAULT value for every ordered subset (k>=1) of 3 and of 4 bits "
                         "and both monotone orders of every subset with k=3..5 of 5 bits x every bit vector: firing decision "
                         "of the real step() against checkCCV / defaultCcv")

        # 2. random circuits x ALL initial bit vectors (caller-supplied) + default x ALL 2^m records
        ncirc = 600 if ctx.thorough else 36
        maxm = 5
        cases = []
        for it in range(ncirc):
            n = rng.randint(1, 3)
            ncb = rng.randint(0, 3)
            assign = it % 3 == 2       # conditions assigned on the gate objects after add_gate
            if it % 6 == 1:
                ncb = rng.randint(4, 5)            # registers of 4-5 classical bits (all 16 / 32 initial bit vectors)
            ops = S.rand_circuit(rng, n, ncb, rng.randint(1, 8), (2 if ncb > 3 else maxm),
                                 big_ccv=(0.0 if assign else 0.04), p_default=0.25)
            m = sum(1 for o in ops if "m" in o)
            mode = "sv" if rng.random() < 0.85 else "dm"
            init = S.rand_init(rng, n, None if mode == "sv" else rng.choice(["basis", "real"]))
            settings = [None] + [list(b) for b in itertools.product([0, 1], repeat=ncb)] if ncb else [None]
            for bits in settings:
                cb = None if bits is None else 0
                calls = [("stat", 0, cb)] + [("run", 0, cb, r) for r in S.all_records(m)] + [("run", 0, cb, None)]
                cases.append({"n": n, "ncb": ncb, "mode": mode, "ops": ops, "lists": [bits] if bits is not None else [],
                              "inits": [init], "calls": calls})
                if assign:
                    cases[-1]["assign"] = True
        self._run_cases(ctx, res, cases, lambda c, i: tag(c, i) + ["stream=all-bits-all-records",
                                                                 "cbits=" + ("caller" if c["lists"] else "default")],
                        self._to_witness)
        res.notes.append(f"{ncirc} random circuits (<=3 qubits, <=3 bits, <=8 ops, m<=5): for each, the default bits and "
                         "every caller-supplied bit vector, run_statistics, run with each of the 2^m records, one "
                         "unconstrained run (scripted np.random.choice)")

        # 3. histories on a shared simulator: initialize/step by hand, several states and lists
        cases = []
        for it in range(3000 if ctx.thorough else 80):
            n = rng.randint(1, 3)
            ncb = rng.randint(0, 3)
            ops = S.rand_circuit(rng, n, ncb, rng.randint(1, 6), 3, p_default=0.2)
            m = sum(1 for o in ops if "m" in o)
            mode = "sv" if rng.random() < 0.8 else "dm"
            inits = [S.rand_init(rng, n, None if mode == "sv" else "basis") for _ in range(2)]
            lists = [[rng.randint(0, 1) for _ in range(ncb)] for _ in range(2)] if ncb else []
            calls = []
            if rng.random() < 0.5:
                # step through the circuit by hand, reading the `state` property in between
                cb = rng.choice([None, 0, 1]) if lists else None
                calls.append(("init", rng.randrange(2), cb, rng.choice([None, [rng.randint(0, 1) for _ in range(m)]])))
                for _ in range(len(ops)):
                    if rng.random() < 0.35:
                        calls.append(("state",))
                    calls.append(("step",))
                calls.append(("state",))
            for _ in range(rng.randint(0 if calls else 2, 8 if not calls else 3)):
                cb = rng.choice([None, 0, 1]) if lists else None
                mr = rng.choice([None, [rng.randint(0, 1) for _ in range(m)]])
                k = rng.random()
                if k < 0.3:
                    calls.append(("run", rng.randrange(2), cb, mr))
                elif k < 0.5:
                    calls.append(("stat", rng.randrange(2), cb))
                elif k < 0.65:
                    calls.append(("init", rng.randrange(2), cb, mr))
                elif k < 0.75:
                    calls.append(("state",))
                else:
                    calls.append(("step",))
            case = {"n": n, "ncb": ncb, "mode": mode, "ops": ops, "lists": lists, "inits": inits, "calls": calls}
            gpos = [i for i, o in enumerate(ops) if "g" in o]
            if ncb and gpos and len(calls) >= 2 and rng.random() < 0.5 and \
                    all(o["cc"] is None or o["ccv"] is None or 0 <= o["ccv"] < 2 ** len(o["cc"]) for o in ops if "g" in o):
                # between two calls the user RE-ASSIGNS the classical condition of a gate on the gate object
                # (classical_controls / classical_control_value; sometimes its targets / controls too): the simulator
                # reads the gate's current attributes at execution time (Model/SimEdit.lean)
                i = rng.choice(gpos)
                cc = rng.sample(range(ncb), rng.randint(1, ncb)) if rng.random() < 0.85 else None
                new = dict(ops[i], cc=cc, ccv=(rng.randrange(2 ** len(cc)) if cc is not None else 0))
                if rng.random() < 0.3:
                    new["q"] = rng.sample(range(n), len(ops[i]["q"]))
                if new != ops[i]:
                    case["alts"] = [ops[:i] + [new] + ops[i + 1:]]
                    pos = rng.randint(1, len(calls) - 1)
                    calls.insert(pos, ("edit", 1, "assign"))
                    if rng.random() < 0.3 and pos + 2 <= len(calls):
                        calls.insert(rng.randint(pos + 2, len(calls)), ("edit", 0, rng.choice(["assign", "replace"])))
                    if rng.random() < 0.5:
                        case["assign"] = True
                        if not all(o["cc"] is None or o["ccv"] is None or 0 <= o["ccv"] < 2 ** len(o["cc"]) for o in ops if "g" in o):
                            del case["assign"]
            cases.append(case)
        self._run_cases(ctx, res, cases, lambda c, i: tag(c, i) + ["stream=history"], self._hist_witness)
        ng = sum(1 for c in cases if c.get("_garbage"))
        res.notes.append(f"{ng} histories were compared only up to the call after which `_state` is an array of a wrong "
                         "shape (a gate stepped on the matrix-shaped array left by the `state` property, >= 2 qubits)")

        # 3b. long prescribed records of balanced measurements: the record has probability 2^-k (exact fraction in the
        #     model), far below any absolute tolerance, while every single outcome has probability 1/2
        cases = []
        for it in range(40 if ctx.thorough else 6):
            k = rng.randint(24, 34)
            ops = []
            for j in range(k):
                ops.append({"g": 4, "q": [0], "cc": None, "ccv": 0})
                ops.append({"m": 0, "store": (0 if rng.random() < 0.5 else None)})
            cases.append({"n": 1, "ncb": 1, "mode": "sv", "ops": ops, "lists": [[rng.randint(0, 1)]],
                          "inits": [{"k": 0, "vecs": [[1, 0]]}],
                          "calls": [("run", 0, rng.choice([None, 0]), [rng.randint(0, 1) for _ in range(k)]) for _ in range(2)]})
        self._run_cases(ctx, res, cases, lambda c, i: ["stream=long-record", "m=%d" % S.num_meas(c)],
                        lambda c: {"kind": "tiny", "n": 1, "ncb": 1, "init": [[1, 0], [0, 0]], "cbits": None,
                                   "records": [list(c["calls"][0][3])],
                                   "ops": [({"M": 0, "store": o["store"]} if "m" in o else
                                            {"name": "SNOT", "targets": [0], "controls": None, "arg": None, "cc": None, "ccv": None})
                                           for o in c["ops"]]})

        # 4. malformed: wrong-length / empty / non-binary caller lists, indices out of range or negative,
        #    negative control values, short or non-binary measure_results, invalid targets
        cases = []
        for it in range(6000 if ctx.thorough else 300):
            n = rng.randint(1, 2)
            ncb = rng.randint(0, 3)
            ops = S.rand_circuit(rng, n, max(ncb, 1), rng.randint(1, 5), 3)
            m = sum(1 for o in ops if "m" in o)
            kind = rng.choice(["len", "empty", "nonbinary", "store", "cc", "negccv", "shortmr", "badmr", "target",
                               "emptymr", "nocbits"])
            lists = [[rng.randint(0, 1) for _ in range(ncb)]]
            mr = [rng.randint(0, 1) for _ in range(m)]
            if kind == "len":
                lists = [[rng.randint(0, 1) for _ in range(ncb + rng.choice([-1, 1, 2]))]] if ncb else [[1]]
            elif kind == "empty":
                lists = [[]]
            elif kind == "nonbinary" and ncb:
                lists = [[rng.choice([0, 1, 2, -1, 3]) for _ in range(ncb)]]
            elif kind == "store":
                for o in ops:
                    if "m" in o and rng.random() < 0.6:
                        o["store"] = rng.choice([ncb, ncb + 1, -1, -ncb, -ncb - 1])
            elif kind == "cc":
                for o in ops:
                    if "g" in o and o["cc"] and rng.random() < 0.7:
                        o["cc"][rng.randrange(len(o["cc"]))] = rng.choice([ncb, ncb + 2, -1, -ncb, -ncb - 1])
            elif kind == "negccv":
                for o in ops:
                    if "g" in o and o["cc"] is not None:
                        o["ccv"] = -rng.randint(1, 5)
            elif kind == "shortmr" and m:
                mr = mr[:rng.randrange(m)]
            elif kind == "badmr" and m:
                mr[rng.randrange(m)] = rng.choice([2, -1, -2, -3, 5])
            elif kind == "target":
                for o in ops:
                    if "m" in o and rng.random() < 0.6:
                        o["m"] = n + rng.randint(0, 1)
            elif kind == "emptymr":
                mr = []
            if ncb == 0 and kind != "nocbits":
                # circuit built with num_cbits=0 although it uses bits: self.cbits is None
                pass
            calls = [("run", 0, 0, mr), ("stat", 0, 0), ("step",)]
            cases.append({"n": n, "ncb": ncb, "mode": rng.choice(["sv", "sv", "dm"]), "ops": ops, "lists": lists,
                          "inits": [S.rand_init(rng, n, "basis")], "calls": calls, "_kind": kind})
        self._run_cases(ctx, res, cases, lambda c, i: ["malformed=" + c["_kind"]] + sorted(
            {"exc=" + ch["err"] for ch in (i[1] if i[0] == "ok" else []) if ch["kind"] == "E"}))

    # ---------------------------------------------------------------------------------
    def oracle_replay(self, ctx, w):
        return oracle(w)

    def _skip_classes(self):
        """classes of inputs excluded by an explicit hypothesis of the proved theorems AND recorded as known"""
        known = [f for f in load_findings(self.id) if f.get("status") == "known"]
        return {f.get("class") for f in known}

    def _sweep(self, ctx, budget_s, count=None):
        rng = ctx.rng
        skip = self._skip_classes()
        t0 = time.time()
        fixed = [W_ALIAS, W_BIGCCV, W_DEFAULT3, W_DEFAULT4, W_RESOLVED, W_ASSIGNED, W_CONDHIST, W_STRUCTHIST, W_TINY1, W_TINY2, W_LONG] + ([] if "dm-feedforward" in skip else [W_DMFF]) + \
            ([] if "C02-4" in pending() else [W_ADDCIRC])
        for w in fixed:
            f, d = oracle(w)
            if f:
                yield w, d
        # small exhaustive enumerations: numeric type x construction path of classical_control_value; add_circuit blocks
        # with every condition value on 1-3 bits
        for w in itertools.chain(all_ccvtype(), all_ccform(), ([] if "C02-4" in pending() else all_addcircuit())):
            f, d = oracle(w)
            if f:
                yield w, d
        i = 0
        while time.time() - t0 < budget_s and (count is None or i < count):
            i += 1
            if rng.random() < 0.08:
                w = rand_ccvtype(rng)
                f, d = oracle(w)
                if f:
                    yield w, d
                continue
            if rng.random() < 0.12:
                # records of tiny but legitimate probability (small angles before measurements, long prescribed records)
                w = rand_tiny(rng)
                f, d = oracle(w)
                if f:
                    yield w, d
                continue
            if rng.random() < 0.3:
                # one circuit object simulated several times: the condition of a live gate object edited in between, or
                # operations added / inserted / removed between simulations through the QubitCircuit API
                w = rand_condhist(rng) if rng.random() < 0.5 else rand_structhist(rng)
                f, d = oracle(w)
                if f:
                    w = shrink(w, lambda x: oracle(x)[0])
                    yield w, oracle(w)[1]
                continue
            if rng.random() < 0.4:
                # conditions assigned on the gate objects / circuits that come out of the library's transformations,
                # under every classical state and record
                w = rand_transformed(rng)
                f, d = oracle(w)
                if f:
                    yield w, d
                continue
            w = rand_witness(rng, general=True)
            if reads_measured_bits(w) and "dm-feedforward" in skip:
                # dm_eq_mixture_partial excludes circuits whose conditions read measured bits
                w = dict(w, check="stat+run")
                for part in ("stat", "run"):
                    f, d = oracle(dict(w, check=part))
                    if f:
                        yield dict(w, check=part), d
                        break
                continue
            f, d = oracle(w)
            if f:
                # report the smallest failing part
                for part in ("stat", "run", "dm"):
                    f2, d2 = oracle(dict(w, check=part))
                    if f2:
                        w, d = dict(w, check=part), d2
                        break
                yield w, d

    def oracle_search(self, ctx, budget_s):
        return self._sweep(ctx, budget_s)

    def oracle_always(self, ctx):
        return self._sweep(ctx, 240 if ctx.thorough else 20, count=6000 if ctx.thorough else 120)

    def finding_matches(self, witness, finding):
        return json.dumps(witness, sort_keys=True) == json.dumps(finding.get("witness"), sort_keys=True)


CHECK = C02()
