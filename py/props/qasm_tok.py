"""Correspondence of the Lean model of the importer's line tokenizer (lean/QipVerif/Model/QasmTok.lean,
driver drv_qasmtok) with the real `read_qasm` pre-processing, `_tokenize` and `_tokenize_line` of
qutip_qip/qasm.py (property C04).

`tok_correspondence(ctx, res, progs)`:
  * every program of `progs` (AST dicts of props.c04.Gen) rendered one statement per line, and re-laid-out variants
    of the same text (statements joined on one line, blanks / tabs around and inside brackets, trailing `// comments`,
    comment lines, blank lines, one-line gate definitions, `if(...)x`, `if (...)`): the text goes through the REAL
    `read_qasm` (string mode) with `_tokenize` wrapped — its argument (the pre-processed lines) and its result (or the
    exception raised before / inside it) are captured, the passes after it are cut off — and through
    `drv_qasmtok pre` / `read`; lines and token lists are compared EXACTLY, exception class against `err <kind>`;
  * a malformed stream (unbalanced parentheses, `if(` never closed, `;;`, stray braces, missing / commented header,
    empty text, …) the same way;
  * random strings over a small alphabet (`if ( ) , ; [ ] { } / a 0 blank tab newline …`) directly against
    `_tokenize` and `_tokenize_line` (this exercises the backtracking of the regular expressions);
  * the whitespace set: `_tokenize_line("a" + chr(i) + "b")` for every code point i of a range that contains all of
    Python's whitespace characters (thorough tier: every code point).
"""
import itertools, json, os, random, sys, warnings

KIND = {"noLines": IndexError, "header": SyntaxError, "brackets": SyntaxError, "attr": AttributeError}


# ---- encoding for the driver ----------------------------------------------------------------------------------------
def hx(s):
    return "".join("%02x" % ord(c) if ord(c) < 256 else "u%06x" % ord(c) for c in s)


def unhx(h):
    out, i = [], 0
    while i < len(h):
        if h[i] == "u":
            out.append(chr(int(h[i + 1:i + 7], 16)))
            i += 7
        else:
            out.append(chr(int(h[i:i + 2], 16)))
            i += 2
    return "".join(out)


def enc_lines(lines):
    return "-" if not lines else ",".join(hx(l) for l in lines)


def dec_strs(s):
    return [unhx(t[1:]) for t in s.split(",")] if s else []


def dec_answer(a, nested):
    """-> ("ok", value) | ("err", kind)"""
    if a == "ok":
        return ("ok", [])
    if a.startswith("ok "):
        body = a[3:]
        return ("ok", [dec_strs(c) for c in body.split(";")] if nested else dec_strs(body))
    if a.startswith("err "):
        return ("err", a[4:])
    return ("bad", a)


# ---- the implementation ---------------------------------------------------------------------------------------------
class _Stop(Exception):
    pass


def exc_kind(e):
    """exception of the implementation -> the model's error kind (class AND, for SyntaxError, which of the two)"""
    if isinstance(e, IndexError):
        return "noLines"
    if isinstance(e, SyntaxError):
        m = str(e)
        return "header" if "header" in m else ("brackets" if "bracket" in m else "other:SyntaxError:" + m)
    if isinstance(e, AttributeError):
        return "attr"
    return "other:" + type(e).__name__


def impl_read(text):
    """the real `read_qasm(text, strmode=True)` up to and including `_tokenize`
    -> (("ok", lines handed to _tokenize) | ("err", kind),  ("ok", token lists) | ("err", kind))"""
    from qutip_qip import qasm
    cap = {}
    orig = qasm._tokenize

    def wrapped(token_cmds):
        cap["lines"] = list(token_cmds)
        try:
            cap["tokens"] = orig(token_cmds)
        except Exception as e:          # every exception of the tokenizer is a verdict
            cap["exc"] = e
        raise _Stop()

    qasm._tokenize = wrapped
    try:
        with warnings.catch_warnings():
            warnings.simplefilter("ignore")
            qasm.read_qasm(text, strmode=True)
        return ("err", "other:no-tokenize-call"), ("err", "other:no-tokenize-call")
    except _Stop:
        pre = ("ok", cap["lines"])
        if "exc" in cap:
            return pre, ("err", exc_kind(cap["exc"]))
        return pre, ("ok", [list(t) for t in cap["tokens"]])
    except Exception as e:
        k = exc_kind(e)
        return ("err", k), ("err", k)
    finally:
        qasm._tokenize = orig


def impl_call(fn, arg):
    try:
        r = fn(arg)
        return ("ok", [list(t) for t in r] if fn.__name__ == "_tokenize" else list(r))
    except Exception as e:
        return ("err", exc_kind(e))


# ---- re-laid-out variants of a rendered text ------------------------------------------------------------------------
SPECIALS = "[]();,{}"


def blanks(rng, lo=0, hi=2):
    return "".join(rng.choice([" ", " ", "\t", "  "]) for _ in range(rng.randint(lo, hi)))


def pad_specials(rng, line, p=0.5):
    out = []
    for ch in line:
        if ch in SPECIALS and rng.random() < p:
            out.append(blanks(rng, 0, 2) + ch + blanks(rng, 0, 2))
        else:
            out.append(ch)
    return "".join(out)


def variants(rng, lines):
    """(kind, list of raw lines) — the header stays the first statement"""
    head, body = lines[0], lines[1:]
    yield "joined", [head, "".join(body)]
    yield "joined_blank", [head, " ".join(body)]
    yield "all_on_one_line", [" ".join(lines)]
    yield "padded", [head] + [pad_specials(rng, l) for l in body]
    yield "padded_all", [pad_specials(rng, l, 1.0) for l in lines]
    yield "indented", [blanks(rng) + l + blanks(rng) for l in lines]
    yield "comments", list(itertools.chain.from_iterable(
        ([l + rng.choice(["// c", " // x(1) ;", "//", "\t// if(c==1) {"])] if rng.random() < 0.5 else [l]) +
        (["// comment line", "", "   ", "\t//x"][:rng.randint(0, 4)] if rng.random() < 0.4 else [])
        for l in lines))
    yield "comment_first", ["// leading comment", "", head] + body
    yield "header_comment", [head + " // version"] + body
    yield "if_noblank", [head] + [l.replace(") ", ")", 1) if l.startswith("if(") else l for l in body]
    yield "if_blank", [head] + [("if " + blanks(rng) + l[2:]) if l.startswith("if(") else l for l in body]
    yield "if_inner_blank", [head] + [l.replace("if(", "if( ", 1).replace("==", " == ", 1) if l.startswith("if(") else l
                                      for l in body]
    # gate definitions on one line
    out, cur = [head], None
    for l in body:
        if l.startswith("gate "):
            cur = [l]
        elif cur is not None:
            cur.append(l)
            if l == "}":
                out.append(" ".join(cur))
                cur = None
        else:
            out.append(l)
    yield "gate_one_line", out
    yield "split_semicolon", list(itertools.chain.from_iterable(
        ([l[:-1], ";"] if l.endswith(";") and rng.random() < 0.5 else [l]) for l in lines))
    yield "no_header", body
    yield "double_semicolon", [head] + [l.replace(";", ";;") for l in body]


MALFORMED_TEXTS = [
    "", "\n", "// only a comment", "OPENQASM 2.0;", "OPENQASM 2.0; ", " OPENQASM 2.0;\t", "OPENQASM 2.0;//c",
    "OPENQASM 2.0 ;", "OPENQASM 3.0;", "openqasm 2.0;", "OPENQASM 2.0;\n;;", "OPENQASM 2.0;\n;;;x q;;",
    "OPENQASM 2.0;\nrx(pi q[0];", "OPENQASM 2.0;\nrx pi) q[0];", "OPENQASM 2.0;\nrx)pi( q[0];",
    "OPENQASM 2.0;\nrx((pi) q[0];", "OPENQASM 2.0;\nrx(pi)) q[0];", "OPENQASM 2.0;\nrx() q[0];", "OPENQASM 2.0;\nrx(,) q[0];",
    "OPENQASM 2.0;\nif(c==1 x q[0];", "OPENQASM 2.0;\nif(", "OPENQASM 2.0;\nif (", "OPENQASM 2.0;\nif(c==1", "OPENQASM 2.0;\nif c==1) x q;",
    "OPENQASM 2.0;\nif(c==1)", "OPENQASM 2.0;\nif(c==1);", "OPENQASM 2.0;\nif(c==1) rx(pi q[0];", "OPENQASM 2.0;\nif(c==1) rx pi) q[0];",
    "OPENQASM 2.0;\nif(c==1) if(d==2) rx(pi) q[0];", "OPENQASM 2.0;\nif(c==1) if(d==2) x q[0];", "OPENQASM 2.0;\nif(c==1) if (x) q;",
    "OPENQASM 2.0;\nif(x) q;", "OPENQASM 2.0;\nif (x) q[0],r;", "OPENQASM 2.0;\niff(x) q;", "OPENQASM 2.0;\nif2(x) q;", "OPENQASM 2.0;\ni(x) q;",
    "OPENQASM 2.0;\nif(c==1)rx(pi) q[0];", "OPENQASM 2.0;\nif(c==1) rx(pi)q[0];", "OPENQASM 2.0;\nif(c==1) rx (pi) q[0];",
    "OPENQASM 2.0;\nif(c==1) (pi) q[0];", "OPENQASM 2.0;\nif(c==1)  (pi) q[0];", "OPENQASM 2.0;\nif(c==1)(pi) q[0];",
    "OPENQASM 2.0;\nif(c==(1)) x q[0];", "OPENQASM 2.0;\nif(c==(1)) rx((pi)) q[0];", "OPENQASM 2.0;\nif(c==1) u2(1,(pi+pi)*(1.25-pi)) q[0];",
    "OPENQASM 2.0;\nif(c==1) measure q[0] -> c[0];", "OPENQASM 2.0;\nif(c==1) g(pi) ;", "OPENQASM 2.0;\nif(c==1) g(pi);",
    "OPENQASM 2.0;\n{", "OPENQASM 2.0;\n}", "OPENQASM 2.0;\n}{", "OPENQASM 2.0;\n{}", "OPENQASM 2.0;\ngate g a { }", "OPENQASM 2.0;\ngate g a {{ x a; }",
    "OPENQASM 2.0;\ngate g(p a { rx(p) a; }", "OPENQASM 2.0;\ngate g(p) { rx(p) a; }", "OPENQASM 2.0;\ngate g() a { x a; }",
    "OPENQASM 2.0;\ngate g(p,q) a,b{rx(p) a;ry(q) b;}x q[0];", "OPENQASM 2.0;\ngate g(p)a{rx(p)a;}",
    "OPENQASM 2.0;\nqreg q[2];creg c[2];x q[0];measure q->c;", "OPENQASM 2.0;\nqreg q [ 2 ] ;", "OPENQASM 2.0;\nqreg q[;", "OPENQASM 2.0;\nqreg q];",
    "OPENQASM 2.0;\nx q[0],,r;", "OPENQASM 2.0;\nx ,;", "OPENQASM 2.0;\n,", "OPENQASM 2.0;\n(", "OPENQASM 2.0;\n)", "OPENQASM 2.0;\n()", "OPENQASM 2.0;\n)(",
    "OPENQASM 2.0;\nrx(pi) q[0]; // c (", "OPENQASM 2.0;\nrx(pi/2) q[0];", "OPENQASM 2.0;\nrx(pi//2) q[0];", "OPENQASM 2.0;\n/ / x q;", "OPENQASM 2.0;\n/// x q;",
    "OPENQASM 2.0;\n /", "OPENQASM 2.0;\nx q; /", "OPENQASM 2.0;\rx q[0];\r\ny q[0];", "OPENQASM 2.0;\x0bx q[0];\x0cy(1)\x1cq;\x1dz\x1e(2);\x85h q;",
    "OPENQASM 2.0;\nx\x1fq[0];rx\xa0(pi)\xa0q;if\x1f(c==1)\xa0rx\x1f(pi) q;", "\xa0OPENQASM 2.0;\x1f", "OPENQASM 2.0;\n rx　( pi ) q;",
    "OPENQASM 2.0;\nif (c==1) rx　(pi) q;", "OPENQASM 2.0;\ninclude \"qelib1.inc\";", "OPENQASM 2.0;\ninclude \"a b,c.inc\";",
    "OPENQASM 2.0;\nopaque g(a,b) q,r;", "OPENQASM 2.0;\nU(0,0,0) q[0];CX q[0],q[1];", "OPENQASM 2.0;\nbarrier q[0],q;", "OPENQASM 2.0;\nreset q[0];",
]

ALPHABET = list("if()(),;[]{} \t\n/a0=") + ["if", "if(", "if (", ") ", " (", "//", "\r", "\x0b", "\x1f", "\xa0", " ", "x", "q[0]", "->"]


def random_string(rng, n):
    return "".join(rng.choice(ALPHABET) for _ in range(n))


# ---- the correspondence ---------------------------------------------------------------------------------------------
def tok_correspondence(ctx, res, progs, render=None):
    """Runs the model driver and the real tokenizer on the same texts; reports into `res`.
    Returns the number of disagreements it added."""
    from qutip_qip import qasm
    if render is None:
        from props.c04 import render
    rng = ctx.rng
    before = len(res.disagreements)
    drv = ctx.driver("drv_qasmtok")

    # (1) texts through read_qasm: rendered programs, their variants, the malformed stream
    texts = []                                     # (tag, raw lines)
    for i, prog in enumerate(progs):
        lines = render(prog)
        texts.append(("rendered", lines))
        if lines and lines[0] == "OPENQASM 2.0;":
            for kind, v in variants(rng, lines):
                texts.append(("variant:" + kind, v))
    for t in MALFORMED_TEXTS:
        texts.append(("malformed", t.splitlines()))
    nrand = 600 if ctx.thorough else 150
    for _ in range(nrand):
        body = random_string(rng, rng.randint(1, 14))
        texts.append(("random_text", ("OPENQASM 2.0;\n" + body).splitlines()))
    # model input = text.splitlines() (Python's line splitting is outside the model); the implementation gets the text
    reqs = []
    for tag, lines in texts:
        text = "\n".join(lines)
        lines2 = text.splitlines()
        reqs.append("pre lines=" + enc_lines(lines2))
        reqs.append("read lines=" + enc_lines(lines2))
    outs = drv.run(reqs)
    for j, (tag, lines) in enumerate(texts):
        text = "\n".join(lines)
        m_pre = dec_answer(outs[2 * j], nested=False)
        m_tok = dec_answer(outs[2 * j + 1], nested=True)
        i_pre, i_tok = impl_read(text)
        inp = {"read_qasm_tokens": text}
        ok_tokens = i_tok[0] == "ok" and len(i_tok[1]) > 0
        res.case(inp, nontrivial=ok_tokens or i_tok[0] == "err", tags=["tok:" + tag, "tok:verdict:" + i_tok[0]])
        if m_pre != i_pre:
            res.disagree(inp, list(m_pre), list(i_pre), "tokenizer: lines handed to _tokenize (strip, comments, header) differ", None)
        if m_tok != i_tok:
            res.disagree(inp, list(m_tok), list(i_tok), "tokenizer: token lists of _tokenize differ", None)

    # (2) random strings directly against _tokenize / _tokenize_line (regex backtracking, newlines inside a line)
    nrand2 = 6000 if ctx.thorough else 1500
    cmds = [random_string(rng, rng.randint(0, 12)) for _ in range(nrand2)]
    cmds += ["if(" + random_string(rng, rng.randint(0, 6)) + ")" + random_string(rng, rng.randint(0, 8)) for _ in range(nrand2)]
    cmds += ["", " ", "(", ")", "()", ")(", "if", "if(", "if()", "if( )", " if ( ) ( )", "if()a ()", "if()a  ()b", "if() ()", "if()  ()",
             "if()\n ()", "if()a\n ()", "if(\n) x", "a(\n)", "a\n()", "a()\n", "a()b\nc", "if()a ()b\nc", "if() a (", "if() a ( ))) ",
             "if(a)b (c) d (e) f", "if(a) (b) (c)", "if(a)  (b)", "if(a))) x (b)", "if (a) if (b) c (d) e"]
    reqs = ["line cmd=" + hx(c) for c in cmds] + ["tok lines=" + enc_lines([c]) for c in cmds]
    outs = drv.run(reqs)
    n = len(cmds)
    for j, c in enumerate(cmds):
        m1 = dec_answer(outs[j], nested=False)
        i1 = impl_call(qasm._tokenize_line, c)
        m2 = dec_answer(outs[n + j], nested=True)
        i2 = impl_call(qasm._tokenize, [c])
        inp = {"tokenize_line": c}
        res.case(inp, nontrivial=("(" in c), tags=["tok:random_line", "tok:verdict:" + i1[0]])
        if m1 != i1:
            res.disagree(inp, list(m1), list(i1), "tokenizer: _tokenize_line differs", None)
        if m2 != i2:
            res.disagree({"tokenize": [c]}, list(m2), list(i2), "tokenizer: _tokenize differs", None)

    # (3) the whitespace set
    top = 0x110000 if ctx.thorough else 0x3100
    cps = [i for i in range(top) if not (0xD800 <= i <= 0xDFFF)]
    reqs = ["line cmd=" + hx("a" + chr(i) + "b") for i in cps]
    outs = drv.run(reqs)
    bad = []
    for i, o in zip(cps, outs):
        if dec_answer(o, nested=False) != impl_call(qasm._tokenize_line, "a" + chr(i) + "b"):
            bad.append(i)
    res.case({"whitespace_code_points": top}, nontrivial=True, tags=["tok:whitespace_set"])
    if bad:
        res.disagree({"whitespace_code_points": [hex(b) for b in bad[:20]]}, "model", "str.split / str.isspace",
                     "tokenizer: whitespace set of the model differs from Python's", None)
    res.notes.append("tokenizer correspondence: %d texts through read_qasm (rendered programs, %d layouts each, malformed, random), "
                     "%d random commands against _tokenize_line/_tokenize, whitespace set over %d code points"
                     % (len(texts), 16, len(cmds), len(cps)))
    return len(res.disagreements) - before


# ---- standalone ------------------------------------------------------------------------------------------------------
if __name__ == "__main__":
    here = os.path.dirname(os.path.dirname(os.path.abspath(__file__)))
    sys.path.insert(0, here)
    from vlib.paths import REPO
    sys.path.insert(0, os.path.join(REPO, "src"))
    from vlib.core import Ctx, CorrResult
    from props import c04
    tier = "thorough" if "--thorough" in sys.argv else "quick"
    seed = int(os.environ.get("VERIF_SEED", "1"))
    ctx = Ctx(tier, seed)
    res = CorrResult()
    g = c04.Gen(ctx.rng)
    progs = [g.program() for _ in range(200 if ctx.thorough else 40)]
    nd = tok_correspondence(ctx, res, progs)
    print("repo:", REPO, "cases:", res.evaluations, "distinct non-trivial:", res.distinct_nontrivial, "disagreements:", nd)
    print(json.dumps(dict(sorted(res.hist.items())), indent=0))
    for d in res.disagreements[:8]:
        print("DISAGREE", json.dumps(d)[:1500])
    sys.exit(1 if nd else 0)
