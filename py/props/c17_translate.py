"""C17 translator: extracts, with `ast` only (the package is not imported here),

* from decompose/decompose_single_qubit_gate.py
    - how `_angles_for_ZYZ` combines its four "atoms" (phase of conj a, phase of conj b,
      arctan2(|conj b|, |conj a|), phase of 1/sqrt(det)) into alpha, theta, beta, global phase, and the
      signs / order of the returned tuple,
    - for every method of `_single_decompositions_dictionary` the returned gate tuple: gate names in
      order, and each `arg_value` as an exact linear form in the four returned angles and pi;
* from algorithms/qft.py
    - the template of `_cphase_to_cnot` (which entries of the ZYZ_PauliX tuple are kept, which gates are
      inserted, which multiples of `arg_value` are used).

The result is a plain dict (used by the harness to instantiate the tables numerically against the real
functions) and is rendered to lean/QipVerif/Gen/ZyzTables.lean, about which the theorems are stated.
"""
import ast, os
from fractions import Fraction

from vlib.core import TranslatorError

# ------------------------------------------------------------------------------------------------
# terms: hashable nested tuples


def _num(x):
    return ("num", Fraction(x))


class Ev:
    """Evaluates the small expression language used by the anchored functions to terms."""

    def __init__(self, env=None):
        self.env = dict(env or {})

    def ev(self, n):
        if isinstance(n, ast.Constant):
            v = n.value
            if isinstance(v, bool) or v is None:
                return ("const", repr(v))
            if isinstance(v, int):
                return _num(v)
            if isinstance(v, float):
                if v == int(v):
                    return _num(int(v))
                return _num(Fraction(v))
            if isinstance(v, complex):
                if v.real == 0 and v.imag == int(v.imag):
                    return ("mul", _num(int(v.imag)), ("i",)) if v.imag != 1 else ("i",)
                return ("cnum", repr(v))
            if isinstance(v, str):
                return ("str", v)
            raise TranslatorError(f"constant {v!r}")
        if isinstance(n, ast.Name):
            if n.id in self.env:
                return self.env[n.id]
            return ("name", n.id)
        if isinstance(n, ast.Attribute):
            base = self.ev(n.value)
            if base == ("name", "np") and n.attr == "pi":
                return ("pi",)
            return ("attr", base, n.attr)
        if isinstance(n, ast.UnaryOp):
            if isinstance(n.op, ast.USub):
                return ("neg", self.ev(n.operand))
            if isinstance(n.op, ast.UAdd):
                return self.ev(n.operand)
            raise TranslatorError("unary operator " + ast.dump(n.op))
        if isinstance(n, ast.BinOp):
            ops = {ast.Add: "add", ast.Sub: "sub", ast.Mult: "mul", ast.Div: "div", ast.Pow: "pow"}
            for k, v in ops.items():
                if isinstance(n.op, k):
                    return (v, self.ev(n.left), self.ev(n.right))
            raise TranslatorError("binary operator " + ast.dump(n.op))
        if isinstance(n, ast.Call):
            f = self.ev(n.func)
            args = tuple(self.ev(a) for a in n.args)
            kws = tuple(sorted((k.arg, self.ev(k.value)) for k in n.keywords))
            return ("call", f, args, kws)
        if isinstance(n, ast.Subscript):
            return ("idx", self.ev(n.value), self.ev(n.slice))
        if isinstance(n, (ast.List, ast.Tuple)):
            return ("seq",) + tuple(self.ev(e) for e in n.elts)
        raise TranslatorError("expression not recognised: " + ast.dump(n)[:120])


def linearize(t, atoms):
    """term -> {atom_index | 'pi' | 'one': Fraction}.  `atoms`: dict term -> index."""
    if t in atoms:
        return {atoms[t]: Fraction(1)}
    k = t[0]
    if k == "num":
        return {"one": t[1]} if t[1] != 0 else {}
    if k == "pi":
        return {"pi": Fraction(1)}
    if k == "neg":
        return {a: -c for a, c in linearize(t[1], atoms).items()}
    if k in ("add", "sub"):
        l, r = linearize(t[1], atoms), linearize(t[2], atoms)
        out = dict(l)
        for a, c in r.items():
            out[a] = out.get(a, Fraction(0)) + (c if k == "add" else -c)
        return {a: c for a, c in out.items() if c != 0}
    if k == "mul":
        l, r = linearize(t[1], atoms), linearize(t[2], atoms)
        if set(l) <= {"one"}:
            c0 = l.get("one", Fraction(0))
            return {a: c0 * c for a, c in r.items() if c0 * c != 0}
        if set(r) <= {"one"}:
            c0 = r.get("one", Fraction(0))
            return {a: c0 * c for a, c in l.items() if c0 * c != 0}
        raise TranslatorError("non-linear product in an angle")
    if k == "div":
        l, r = linearize(t[1], atoms), linearize(t[2], atoms)
        if set(r) == {"one"} and r["one"] != 0:
            return {a: c / r["one"] for a, c in l.items()}
        raise TranslatorError("division by a non-constant in an angle")
    raise TranslatorError("angle expression contains an unrecognised quantity: " + repr(t)[:160])


def lin5(d, what):
    """-> [c0,c1,c2,c3,cpi] (Fractions); a constant term other than a multiple of pi is refused."""
    if "one" in d:
        raise TranslatorError(f"{what}: constant offset that is not a multiple of pi")
    return [d.get(0, Fraction(0)), d.get(1, Fraction(0)), d.get(2, Fraction(0)), d.get(3, Fraction(0)),
            d.get("pi", Fraction(0))]


# ------------------------------------------------------------------------------------------------
# reference shape of the non-linear part of _angles_for_ZYZ (the four atoms).  The Lean model
# (Lemmas/ZyzModel.lean: `atomA`, `atomB`, `atomT`, `atomN`) is the hand transcription of exactly this.

REF_ATOMS_SRC = """
input_array = input_gate.full()
normalization_constant = np.sqrt(np.linalg.det(input_array))
input_array = input_array * (1 / normalization_constant)
a_negative = np.real(input_array[0][0]) - 1j * np.imag(input_array[0][0])
b_negative = np.real(input_array[0][1]) - 1j * np.imag(input_array[0][1])
ATOM0 = cmath.phase(a_negative)
ATOM1 = cmath.phase(b_negative)
ATOM2 = np.arctan2(np.absolute(b_negative), np.absolute(a_negative))
ATOM3 = cmath.phase(1 / normalization_constant)
"""

REF_ROTATION_SRC = "Qobj([[1.0, 0.0], [0.0, np.exp(1.0j * arg_value)]])"


def _flat_body(fn):
    """statements of a function with `with` blocks flattened and the docstring dropped"""
    out = []

    def walk(stmts):
        for s in stmts:
            if isinstance(s, ast.With):
                walk(s.body)
            elif isinstance(s, ast.Expr) and isinstance(s.value, ast.Constant) and isinstance(s.value.value, str):
                continue
            else:
                out.append(s)
    walk(fn.body)
    return out


def _run_assignments(stmts, ev, on_other=None):
    """Executes plain assignments symbolically; returns the Return node (if any)."""
    for s in stmts:
        if isinstance(s, ast.Assign):
            if len(s.targets) != 1:
                raise TranslatorError("chained assignment")
            tg = s.targets[0]
            if isinstance(tg, ast.Name):
                ev.env[tg.id] = ev.ev(s.value)
                continue
            if isinstance(tg, ast.Tuple) and all(isinstance(e, ast.Name) for e in tg.elts):
                v = ev.ev(s.value)
                for k, e in enumerate(tg.elts):
                    ev.env[e.id] = ("ret", v, k) if v[0] != "seq" else v[1 + k]
                continue
        if isinstance(s, ast.Return):
            return s
        if on_other is not None and on_other(s):
            continue
        raise TranslatorError("statement not recognised: " + ast.dump(s)[:140])
    return None


def _find_function(mod, name):
    for n in mod.body:
        if isinstance(n, ast.FunctionDef) and n.name == name:
            return n
    raise TranslatorError(f"function {name} not found")


def _is_call_stmt(name):
    def f(s):
        return (isinstance(s, ast.Expr) and isinstance(s.value, ast.Call)
                and isinstance(s.value.func, ast.Name) and s.value.func.id == name)
    return f


def extract_angles(mod):
    ref = Ev()
    _run_assignments(ast.parse(REF_ATOMS_SRC).body, ref)
    atoms = {ref.env[f"ATOM{k}"]: k for k in range(4)}
    if len(atoms) != 4:
        raise TranslatorError("reference atoms not distinct")
    fn = _find_function(mod, "_angles_for_ZYZ")
    if [a.arg for a in fn.args.args] != ["input_gate"]:
        raise TranslatorError("_angles_for_ZYZ signature changed")
    ev = Ev()
    ret = _run_assignments(_flat_body(fn), ev, on_other=lambda s: isinstance(s, ast.Expr) and isinstance(s.value, ast.Call))
    if ret is None or not isinstance(ret.value, ast.Tuple) or len(ret.value.elts) != 4:
        raise TranslatorError("_angles_for_ZYZ does not return a 4-tuple")
    # local variables, then the returned tuple as linear forms in the locals
    local_names = ["alpha", "theta", "beta", "global_phase_angle"]
    locs = {}
    for nm in local_names:
        if nm not in ev.env:
            raise TranslatorError(f"_angles_for_ZYZ: local {nm} not found")
        locs[nm] = lin5(linearize(ev.env[nm], atoms), nm)
    ev2 = Ev()
    loc_atoms = {("name", nm): k for k, nm in enumerate(local_names)}
    rets = [lin5(linearize(ev2.ev(e), loc_atoms), f"return[{k}]") for k, e in enumerate(ret.value.elts)]
    return {"locals": locs, "local_names": local_names, "returns": rets}


GATE_NAMES = ["RZ", "RY", "RX", "X", "GLOBALPHASE"]
CP_NAMES = ["CNOT", "RZ"]


def _gate_term(t, atoms, what, allowed=None):
    """('call', Gate, (name,), kws) -> dict(name, targets, controls, arg)"""
    if not (t[0] == "call" and t[1] == ("name", "Gate")):
        raise TranslatorError(f"{what}: not a Gate(...) construction")
    args, kws = t[2], dict(t[3])
    if not args or args[0][0] != "str":
        raise TranslatorError(f"{what}: gate name is not a string literal")
    name = args[0][1]
    allowed = allowed or GATE_NAMES
    if name not in allowed:
        raise TranslatorError(f"{what}: gate name {name!r} outside the modelled set {allowed}")
    if len(args) > 1:
        raise TranslatorError(f"{what}: positional targets/controls")
    arg = None
    if "arg_value" in kws:
        arg = lin5(linearize(kws["arg_value"], atoms), what)
    return {"name": name, "targets": kws.get("targets"), "controls": kws.get("controls"), "arg": arg}


def extract_methods(mod):
    table = None
    for n in mod.body:
        if (isinstance(n, ast.Assign) and len(n.targets) == 1 and isinstance(n.targets[0], ast.Name)
                and n.targets[0].id == "_single_decompositions_dictionary" and isinstance(n.value, ast.Dict)):
            table = {}
            for k, v in zip(n.value.keys, n.value.values):
                if not (isinstance(k, ast.Constant) and isinstance(k.value, str) and isinstance(v, ast.Name)):
                    raise TranslatorError("method dictionary entry not recognised")
                table[k.value] = v.id
    if table is None:
        raise TranslatorError("_single_decompositions_dictionary not found")
    out = {}
    for method, fname in table.items():
        fn = _find_function(mod, fname)
        ev = Ev()
        ret = _run_assignments(_flat_body(fn), ev, on_other=_is_call_stmt("check_gate"))
        call = ("call", ("name", "_angles_for_ZYZ"), (("name", "input_gate"),), ())
        atoms = {("ret", call, k): k for k in range(4)}
        if ret is None or not isinstance(ret.value, ast.Tuple):
            raise TranslatorError(f"{fname}: no tuple returned")
        gates = []
        for k, e in enumerate(ret.value.elts):
            g = _gate_term(ev.ev(e), atoms, f"{fname}[{k}]")
            if g["targets"] != ("seq", _num(0)) or g["controls"] is not None:
                raise TranslatorError(f"{fname}[{k}]: targets are not [0]")
            if (g["arg"] is None) != (g["name"] == "X"):
                raise TranslatorError(f"{fname}[{k}]: argument presence does not fit gate {g['name']}")
            gates.append({"name": g["name"], "arg": g["arg"]})
        out[method] = {"function": fname, "gates": gates}
    return out


def extract_cphase(qft_mod):
    fn = _find_function(qft_mod, "_cphase_to_cnot")
    if [a.arg for a in fn.args.args] != ["targets", "controls", "arg_value"]:
        raise TranslatorError("_cphase_to_cnot signature changed")
    ev = Ev()
    atoms = {("name", "arg_value"): 0}
    state = {"method": None, "new": None, "objs": {}}
    ref_rot = Ev().ev(ast.parse(REF_ROTATION_SRC, mode="eval").body)

    def coef(t, what):
        l = lin5(linearize(t, atoms), what)
        if any(c != 0 for c in l[1:]):
            raise TranslatorError(f"{what}: not a multiple of arg_value")
        return l[0]

    out_list = None
    for s in _flat_body(fn):
        if isinstance(s, ast.Assign) and len(s.targets) == 1:
            tg, v = s.targets[0], s.value
            if isinstance(tg, ast.Name):
                t = ev.ev(v)
                if tg.id == "rotation":
                    if t != ref_rot:
                        raise TranslatorError("_cphase_to_cnot: rotation matrix is not diag(1, exp(1j*arg_value))")
                    ev.env["rotation"] = ("name", "rotation")
                    continue
                if tg.id == "decomposed_gates":
                    want = ("call", ("name", "list"), (("call", ("name", "decompose_one_qubit_gate"),
                            (("name", "rotation"),), None),), ())
                    if not (t[0] == "call" and t[1] == ("name", "list") and len(t[2]) == 1
                            and t[2][0][0] == "call" and t[2][0][1] == ("name", "decompose_one_qubit_gate")
                            and t[2][0][2] == (("name", "rotation"),)):
                        raise TranslatorError("_cphase_to_cnot: decomposed_gates not recognised")
                    kws = dict(t[2][0][3])
                    if set(kws) != {"method"} or kws["method"][0] != "str":
                        raise TranslatorError("_cphase_to_cnot: method keyword")
                    state["method"] = kws["method"][1]
                    ev.env["decomposed_gates"] = ("name", "decomposed_gates")
                    continue
                if isinstance(v, ast.List) and not v.elts:
                    state["new"] = tg.id
                    out_list = []
                    continue
                if t[0] == "idx" and t[1] == ("name", "decomposed_gates") and t[2][0] == "num":
                    k = int(t[2][1])
                    obj = state["objs"].setdefault(k, {"kind": "dec", "index": k, "extra": Fraction(0), "qubits": None})
                    ev.env[tg.id] = ("obj", k)
                    continue
            if (isinstance(tg, ast.Attribute) and isinstance(tg.value, ast.Name)
                    and ev.env.get(tg.value.id, ("",))[0] == "obj" and tg.attr == "targets"):
                t = ev.ev(v)
                if t not in (("name", "targets"), ("name", "controls")):
                    raise TranslatorError("_cphase_to_cnot: retargeting to something else than targets/controls")
                state["objs"][ev.env[tg.value.id][1]]["qubits"] = t[1]
                continue
        if (isinstance(s, ast.AugAssign) and isinstance(s.op, ast.Add) and isinstance(s.target, ast.Attribute)
                and isinstance(s.target.value, ast.Name) and ev.env.get(s.target.value.id, ("",))[0] == "obj"
                and s.target.attr == "arg_value"):
            state["objs"][ev.env[s.target.value.id][1]]["extra"] += coef(ev.ev(s.value), "arg_value +=")
            continue
        if (isinstance(s, ast.Expr) and isinstance(s.value, ast.Call) and isinstance(s.value.func, ast.Attribute)
                and isinstance(s.value.func.value, ast.Name) and s.value.func.value.id == state["new"]
                and s.value.func.attr == "append" and len(s.value.args) == 1):
            t = ev.ev(s.value.args[0])
            if t[0] == "obj":
                out_list.append(state["objs"][t[1]])     # the object itself (later mutations are visible, as in Python)
                continue
            g = _gate_term(t, atoms, "_cphase_to_cnot append", CP_NAMES)
            if (g["name"] == "CNOT") != (g["controls"] is not None) or (g["name"] == "RZ") != (g["arg"] is not None):
                raise TranslatorError("_cphase_to_cnot: inserted gate has unexpected controls/argument")
            def q(x):
                if x is None:
                    return None
                if x in (("name", "targets"), ("name", "controls")):
                    return x[1]
                raise TranslatorError("_cphase_to_cnot: qubits of an inserted gate")
            c = None
            if g["arg"] is not None:
                if any(x != 0 for x in g["arg"][1:]):
                    raise TranslatorError("_cphase_to_cnot: inserted gate angle not a multiple of arg_value")
                c = g["arg"][0]
            out_list.append({"kind": "gate", "name": g["name"], "targets": q(g["targets"]),
                             "controls": q(g["controls"]), "coef": c})
            continue
        if isinstance(s, ast.Return):
            if not (isinstance(s.value, ast.Name) and s.value.id == state["new"]):
                raise TranslatorError("_cphase_to_cnot: return value")
            break
        raise TranslatorError("_cphase_to_cnot: statement not recognised: " + ast.dump(s)[:140])
    if out_list is None or state["method"] is None:
        raise TranslatorError("_cphase_to_cnot: structure not recognised")
    return {"method": state["method"], "entries": [dict(e) for e in out_list]}


def extract(repo):
    p1 = os.path.join(repo, "src", "qutip_qip", "decompose", "decompose_single_qubit_gate.py")
    p2 = os.path.join(repo, "src", "qutip_qip", "algorithms", "qft.py")
    try:
        m1 = ast.parse(open(p1).read())
        m2 = ast.parse(open(p2).read())
    except (OSError, SyntaxError) as e:
        raise TranslatorError(f"cannot parse the anchored sources: {e}")
    return {"angles": extract_angles(m1), "methods": extract_methods(m1), "cphase": extract_cphase(m2)}


# ------------------------------------------------------------------------------------------------
# rendering

LEAN_HEADER = '''/-!
# GENERATED by py/props/c17_translate.py — do not edit.

Source: src/qutip_qip/decompose/decompose_single_qubit_gate.py (`_angles_for_ZYZ`, the three
method functions, `_single_decompositions_dictionary`) and src/qutip_qip/algorithms/qft.py
(`_cphase_to_cnot`), read with Python's `ast`.  Angles are exact linear forms with rational
coefficients.  Import-free.
-/
namespace QipVerif.Gen.Zyz

/-- rational coefficient `num/den` -/
structure Coef where
  num : Int
  den : Nat
deriving DecidableEq, Repr

/-- linear form `c0·x0 + c1·x1 + c2·x2 + c3·x3 + cpi·π` over four symbols -/
structure Lin where
  c0 : Coef
  c1 : Coef
  c2 : Coef
  c3 : Coef
  cpi : Coef
deriving DecidableEq, Repr

/-- names of the single-qubit gates a method tuple may contain -/
inductive GName | RZ | RY | RX | X | GLOBALPHASE
deriving DecidableEq, Repr

/-- names of the gates `_cphase_to_cnot` inserts itself -/
inductive CpName | CNOT | RZ
deriving DecidableEq, Repr

/-- one entry of a returned gate tuple: name and `arg_value` (none for Pauli X) -/
structure GateT where
  name : GName
  arg : Option Lin
deriving DecidableEq, Repr

/-- which argument of `_cphase_to_cnot` a gate acts on -/
inductive Qb | targets | controls
deriving DecidableEq, Repr

/-- one entry of the list `_cphase_to_cnot` returns -/
inductive CpEntry
  /-- `decomposed_gates[index]`, re-targeted (if `some`), with `arg_value += extra·arg_value` -/
  | dec (index : Nat) (qubits : Option Qb) (extra : Coef)
  /-- a fresh `Gate(name, targets=on, controls=ctl, arg_value=coef·arg_value)` -/
  | gate (name : CpName) (on : Qb) (ctl : Option Qb) (coef : Option Coef)
deriving DecidableEq, Repr
'''


def _coef(c):
    c = Fraction(c)
    n = str(c.numerator) if c.numerator >= 0 else f"({c.numerator})"
    return f"⟨{n}, {c.denominator}⟩"


def _lin(l):
    return "⟨" + ", ".join(_coef(c) for c in l) + "⟩"


def _gates(gs):
    rows = []
    for g in gs:
        arg = "none" if g["arg"] is None else f"some {_lin(g['arg'])}"
        rows.append(f"  ⟨.{g['name']}, {arg}⟩")
    return "[\n" + ",\n".join(rows) + "]"


LEAN_IDENT = {"ZYZ": "zyz", "ZXZ": "zxz", "ZYZ_PauliX": "zyzPauliX"}


def render(tab):
    a = tab["angles"]
    s = LEAN_HEADER
    s += ("\n/-! ## `_angles_for_ZYZ`\nAtoms: x0 = phase(conj a), x1 = phase(conj b), x2 = arctan2(|conj b|, |conj a|), "
          "x3 = phase(1/sqrt(det)), where (a, b) is the first row of input/sqrt(det). -/\n")
    lean_local = {"alpha": "localAlpha", "theta": "localTheta", "beta": "localBeta", "global_phase_angle": "localPhase"}
    for nm in a["local_names"]:
        s += f"/-- local variable `{nm}` in the atoms -/\ndef {lean_local[nm]} : Lin := {_lin(a['locals'][nm])}\n"
    s += ("/-- the returned 4-tuple, each component a linear form in the locals "
          "(alpha, theta, beta, global_phase_angle) -/\n")
    s += "def anglesReturn : List Lin := [\n" + ",\n".join("  " + _lin(l) for l in a["returns"]) + "]\n"
    s += "\n/-! ## method tuples: linear forms in the four values returned by `_angles_for_ZYZ` -/\n"
    names = []
    for method in sorted(tab["methods"]):
        if method not in LEAN_IDENT:
            raise TranslatorError(f"decomposition method {method!r} is not one of the three modelled methods")
        m = tab["methods"][method]
        s += f"/-- `{m['function']}` (method key \"{method}\") -/\ndef {LEAN_IDENT[method]} : List GateT := {_gates(m['gates'])}\n"
        names.append(method)
    if sorted(names) != sorted(LEAN_IDENT):
        raise TranslatorError(f"methods offered: {names}; the property names ZYZ, ZXZ, ZYZ_PauliX")
    s += "def methodKeys : List String := [" + ", ".join(f'"{m}"' for m in sorted(names)) + "]\n"
    c = tab["cphase"]
    s += "\n/-! ## `_cphase_to_cnot(targets, controls, arg_value)` -/\n"
    s += f'def cphaseMethod : String := "{c["method"]}"\n'
    rows = []
    for e in c["entries"]:
        if e["kind"] == "dec":
            q = "none" if e["qubits"] is None else f"(some .{e['qubits']})"
            rows.append(f"  .dec {e['index']} {q} {_coef(e['extra'])}")
        else:
            ctl = "none" if e["controls"] is None else f"(some .{e['controls']})"
            cf = "none" if e["coef"] is None else f"(some {_coef(e['coef'])})"
            if e["targets"] is None:
                raise TranslatorError("_cphase_to_cnot: inserted gate without targets")
            rows.append(f"  .gate .{e['name']} .{e['targets']} {ctl} {cf}")
    s += "def cphaseTemplate : List CpEntry := [\n" + ",\n".join(rows) + "]\n"
    s += "\nend QipVerif.Gen.Zyz\n"
    return s
