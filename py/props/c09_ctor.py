"""C09, constructor arguments: requests `Class(targets=…, controls=…, arg_value=…, control_value=…)` to every gate class of
GATE_CLASS_MAP (directly and through QubitCircuit.add_gate by name), to `ControlledGate` with every single-qubit target
class and to the generic `Gate(name)`.

* harness: the model of the constructor chain (Model/GateCtor.lean over the regenerated Gen/GateCtor.lean, driver
  `drv_gates ctor`) against the implementation — refusal kind, what the object carries, the matrix of get_compact_qobj;
* oracle (independent of the model): a request that is ACCEPTED must yield the documented matrix — for a controlled gate
  the block matrix that applies the target unitary exactly when the controls (first listed = most significant) hold the
  REQUESTED control value (all ones when none is given); a refusal is always fine."""
import itertools
import numpy as np

ABSENT = "-"          # the argument is not passed at all
PI = np.pi

# spec of the matrix function of a single-qubit class -> documented name
SPEC_DOC = {"sigmax()": "X", "sigmay()": "Y", "sigmaz()": "Z", "rx(arg)": "RX", "ry(arg)": "RY", "rz(arg)": "RZ",
            "snot()": "SNOT", "sqrtnot()": "SQRTNOT", "s_gate()": "S", "t_gate()": "T", "qrot(*arg)": "R",
            "qasmu_gate(arg)": "QASMU"}
# documented controlled gates: name -> (number of controls, documented name of the unitary on the remaining qubits)
CONTROLLED = {"CNOT": (1, "X"), "CX": (1, "X"), "CY": (1, "Y"), "CZ": (1, "Z"), "CSIGN": (1, "Z"), "CS": (1, "S"),
              "CT": (1, "T"), "CRX": (1, "RX"), "CRY": (1, "RY"), "CRZ": (1, "RZ"), "CPHASE": (1, "PHASEGATE"),
              "TOFFOLI": (2, "X"), "FREDKIN": (1, "SWAP")}
# number of parameters of the documented gate (and the lengths of arg_value it documents)
DOC_ARGS = {"RX": [None], "RY": [None], "RZ": [None], "PHASEGATE": [None], "CRX": [None], "CRY": [None], "CRZ": [None],
            "CPHASE": [None], "SWAPalpha": [None], "SWAPALPHA": [None], "RZX": [None], "QASMU": [3], "R": [2], "MS": [1, 2]}


def doc_name(key):
    return key.split(":", 1)[1] if key.startswith("Gate:") else key


def arg_values(shape, rng=None, salt=0):
    """shape: ABSENT | None | "s" | ("l", k)  -> the Python value (non-integral reals)"""
    base = [0.7310 + 0.1 * salt, -1.2345, 2.6180, 0.4142, 1.1897]
    if shape == ABSENT or shape is None:
        return shape
    if shape == "s":
        return base[0]
    return list(base[:shape[1]]) + [0.37 + 0.01 * i for i in range(max(0, shape[1] - len(base)))]


def fmt_q(a):
    if a == ABSENT:
        return "-"
    if a is None:
        return "N"
    return "s:%d" % a if isinstance(a, int) else "l:" + ",".join(map(str, a))


def fmt_a(a):
    if a == ABSENT:
        return "-"
    if a is None:
        return "N"
    return "s" if a == "s" else "l%d" % a[1]


def fmt_v(v):
    return "-" if v == ABSENT else "N" if v is None else str(v)


def request_line(w):
    return "ctor key=%s path=%s ts=%s cs=%s arg=%s cv=%s" % (w["key"], w["path"], fmt_q(w["targets"]), fmt_q(w["controls"]),
                                                             fmt_a(w["arg"]), fmt_v(w["cv"]))


def norm_shape(a):
    """JSON round trip: ("l", k) becomes ["l", k]"""
    return tuple(a) if isinstance(a, list) and len(a) == 2 and a[0] == "l" else a


def kwargs_of(w):
    kw = {}
    for k, name in (("targets", "targets"), ("controls", "controls"), ("cv", "control_value")):
        if w[k] != ABSENT:
            kw[name] = w[k]
    arg = norm_shape(w["arg"])
    if arg != ABSENT:
        kw["arg_value"] = arg_values(arg)
    return kw


def build(w, qc=None):
    """make the request on the implementation -> the gate object (raises what the constructor raises); path "circuit" adds
    the gate by name to `qc` (a fresh circuit if None), path "class" builds the object (and adds it to `qc` if given)"""
    from qutip_qip.operations import gateclass, Gate
    from qutip_qip.circuit import QubitCircuit
    key, path = w["key"], w["path"]
    kw = kwargs_of(w)
    if path == "circuit":
        qc = QubitCircuit(6) if qc is None else qc
        qc.add_gate(doc_name(key), **kw)
        return qc.gates[-1]
    if key.startswith("ControlledGate:"):
        g = gateclass.ControlledGate(target_gate=getattr(gateclass, key.split(":", 1)[1]), **kw)
    elif key.startswith("Gate:"):
        g = Gate(key.split(":", 1)[1], **kw)
    else:
        g = gateclass.GATE_CLASS_MAP[key](**kw)
    if qc is not None:
        qc.add_gate(g)
    return g


def classify_ctor_exc(e, controlled):
    msg = str(e)
    if isinstance(e, TypeError):
        if "missing" in msg and "required" in msg:
            return "missingArg"
        if "can only concatenate list" in msg:
            return "concatNone"
    if isinstance(e, ValueError):
        if "control_value" in msg:
            return "cvRefused"
        if "requires one target" in msg:
            return "tgOneTarget" if controlled else "oneTarget"
        if "cannot have a control" in msg:
            return "noControl"
        if "requires two targets" in msg:
            return "twoQubits"
    return "other:" + type(e).__name__ + ":" + msg[:80]


def classify_compact_exc(e):
    from props.c09 import classify_ctrl_exc
    msg = str(e)
    if isinstance(e, TypeError):
        if "list indices must be integers" in msg and "NoneType" in msg:
            return "cvNone"
        if "has no len" in msg or "targets should be" in msg:
            return classify_ctrl_exc(e)
        return "argType"
    if isinstance(e, ValueError):
        if "unpack" in msg:
            return "argCount"
        if "control_value" in msg:
            return "fixedCV"
    return classify_ctrl_exc(e)


def doc_matrix(name, arg):
    """documented matrix of the gate `name` for the arg_value shape `arg` (None: the shape is not a documented one)"""
    from props.c09 import DOC
    want = DOC_ARGS.get(name)
    arg = norm_shape(arg)
    vals = arg_values(arg)
    if want is None:                       # the gate has no parameter: arg_value is ignored
        return DOC[name](None)
    if want == [None]:
        return DOC[name](vals) if arg == "s" else None
    if not isinstance(arg, tuple) or arg[1] not in want:
        return None
    if name == "MS" and arg[1] == 1:
        vals = vals + [0.0]                # phi defaults to 0 (molmer_sorensen(theta, phi=0.0))
    return DOC[name](vals)


def block(U, m, v):
    """block_diag(1, …, U, …, 1) with U as block number v of 2^m (first control most significant)"""
    d = U.shape[0]
    M = np.eye(d * 2 ** m, dtype=complex)
    M[d * v:d * v + d, d * v:d * v + d] = U
    return M


def expected_matrix(w, gate):
    """the documented matrix for an ACCEPTED request -> (matrix | None, what); None = such a request has no documented
    meaning and must be refused"""
    key = w["key"]
    cv = w["cv"]
    given = cv != ABSENT and cv is not None
    if key.startswith("ControlledGate:"):
        tname = key.split(":", 1)[1]
        tname = "SNOT" if tname == "H" else tname
        U = doc_matrix(tname, w["arg"])
        cs = w["controls"]
        m = 1 if isinstance(cs, int) else len(cs) if isinstance(cs, list) else None
        if U is None or m is None or not given:
            return None, "ControlledGate needs a control value, a list of controls and a documented arg_value"
        if not -2 ** m <= cv < 2 ** m:
            return None, "control value outside the %d controls" % m
        return block(U, m, cv % 2 ** m), "controlled-%s on %d control(s) with value %d" % (tname, m, cv % 2 ** m)
    name = doc_name(key)
    if name in CONTROLLED:
        m, tname = CONTROLLED[name]
        U = doc_matrix(tname, w["arg"])
        if U is None:
            return None, "arg_value is not of the documented shape"
        v = (cv if given else 2 ** m - 1)
        if not -2 ** m <= v < 2 ** m:
            return None, "control value outside the %d control(s)" % m
        return block(U, m, v % 2 ** m), "%s = controlled-%s, control value %d" % (name, tname, v % 2 ** m)
    M = doc_matrix(name, w["arg"])
    if M is None:
        return None, "arg_value is not of the documented shape"
    return M, name


def oracle(w):
    """the property for one constructor request -> (fails, detail)"""
    try:
        g = build(w)
        M = g.get_compact_qobj().full()
    except Exception as e:
        return False, "refused: " + type(e).__name__
    exp, what = expected_matrix(w, g)
    req = "%s(%s) via %s" % (w["key"], ", ".join("%s=%s" % (k, w[k]) for k in ("targets", "controls", "arg", "cv") if w[k] != ABSENT),
                             w["path"])
    if exp is None:
        return True, "%s is accepted (object carries control_value=%r) although %s" % (req, g.control_value, what)
    if M.shape != exp.shape or np.abs(M - exp).max() > 1e-9:
        return True, ("%s is accepted (object carries control_value=%r) but get_compact_qobj() is not the documented matrix of %s"
                      % (req, g.control_value, what))
    if np.abs(M.conj().T @ M - np.eye(len(M))).max() > 1e-10:
        return True, "%s: not unitary" % req
    return False, "documented matrix of " + what


# ------------------------------------------------------------------------------------------------------------------
# enumeration

T_SHAPES = [ABSENT, None, 1, [], [1], [2, 1], [1, 2, 5]]
C_SHAPES = [ABSENT, None, 0, [], [0], [3, 0], [0, 3, 4]]
A_SHAPES = [ABSENT, None, "s", ("l", 0), ("l", 1), ("l", 2), ("l", 3), ("l", 4)]


def canonical_arg(entry):
    kind, lo, hi = entry["argSpec"]
    return {"noArg": ABSENT, "scalar": "s", "unpack": ("l", lo), "star": ("l", hi)}[kind]


def cv_values(entry, controls):
    m = 1 if isinstance(controls, int) else len(controls) if isinstance(controls, list) else 1
    if entry["usesCV"] or entry["oneCtrl"]:
        return [ABSENT, None] + list(range(-2 ** m - 1, 2 ** m + 2))
    return [ABSENT, None, 0, 1, 3]


def paths_of(entry, class_map):
    key = entry["key"]
    if key.startswith("ControlledGate:"):
        return ["class"]
    if key.startswith("Gate:"):
        return ["class"] + ([] if key.split(":", 1)[1] in class_map else ["circuit"])
    return ["class", "circuit"]


def enumerate_requests(entries, class_map, rng, thorough):
    """complete over (targets shape x controls shape x control value) with the canonical arg_value and over the arg_value
    shapes with canonical qubits; the generic Gate(name) gets a thinner grid (it has no guard at all)"""
    for e in entries:
        key = e["key"]
        generic = key.startswith("Gate:")
        ca = canonical_arg(e)
        for path in paths_of(e, class_map):
            for t, c in itertools.product(T_SHAPES, C_SHAPES):
                if key.startswith("ControlledGate:") and c is None:
                    continue                                   # self.controls = [None]: outside the model
                cvs = cv_values(e, c) if not generic else [ABSENT, 0, 1]
                for v in cvs:
                    for a in ([ca] if generic or ca == ABSENT else [ca, ABSENT]):
                        yield {"kind": "ctor", "key": key, "path": path, "targets": t, "controls": c, "arg": a, "cv": v}
            nc, nt = (1, 1) if e["controlled"] else (0, 2 if e["arity"] == "two" else 1)
            if doc_name(key) in ("TOFFOLI", "FREDKIN"):
                nc, nt = (2, 1) if doc_name(key) == "TOFFOLI" else (1, 2)
            for a in A_SHAPES:
                for v in ([ABSENT, 1] if not e["cvRequired"] else [1, 0]):
                    yield {"kind": "ctor", "key": key, "path": path, "targets": list(range(nc, nc + nt)),
                           "controls": (list(range(nc)) if nc else ABSENT), "arg": a, "cv": v}
            # duplicate / negative labels are not checked by any constructor
            for t, c in (([0], [0]), ([-1], [0]), (0, 0)):
                yield {"kind": "ctor", "key": key, "path": path, "targets": t, "controls": c, "arg": ca, "cv": ABSENT if not e["cvRequired"] else 1}


SINGLE_TARGETS = ["X", "Y", "Z", "RX", "RY", "RZ", "H", "SQRTNOT", "S", "T", "R", "QASMU"]


def doc_arg_shape(name):
    """the documented shape of arg_value of the gate `name`"""
    want = DOC_ARGS.get(name)
    if want is None:
        return ABSENT
    return "s" if want == [None] else ("l", want[-1])


def sweep_requests():
    """the oracle's systematic sweep — independent of the translator and of the model: every key of the runtime
    GATE_CLASS_MAP (class path and add_gate by name), ControlledGate x every single-qubit target class, Gate(name) for every
    documented name; well-formed placements (controls as integer and as list, or all qubits as targets), every control
    value in [-2^m-1, 2^m+1] and none, the documented arg_value"""
    from qutip_qip.operations import gateclass
    from props.c09 import SHAPES
    class_map = gateclass.GATE_CLASS_MAP
    keys = [(k, ["class", "circuit"]) for k in class_map]
    keys += [("ControlledGate:" + t, ["class"]) for t in SINGLE_TARGETS if hasattr(gateclass, t)]
    keys += [("Gate:" + n, ["class"] + ([] if n in class_map else ["circuit"])) for n in SHAPES
             if n not in ("H", "MS", "RZX", "CX", "iSWAP", "SWAPALPHA")]
    for key, paths in keys:
        name = doc_name(key)
        generic_ctrl = key.startswith("ControlledGate:")
        if generic_ctrl:
            tn = key.split(":", 1)[1]
            ca = doc_arg_shape("SNOT" if tn == "H" else tn)
            places = [([0], [1]), (0, 1), ([1, 0], [2]), ([0, 2], 1), ([2, 0, 1], [3])]
        elif name in CONTROLLED:
            ca = doc_arg_shape(name)
            m, tn = CONTROLLED[name]
            nt = 2 if name == "FREDKIN" else 1
            places = [(list(range(m)), list(range(m, m + nt))), (ABSENT, list(range(m + nt)))]
            if m == 1:
                places.append((0, 1 if nt == 1 else [1, 2]))
        else:
            ca = doc_arg_shape(name)
            nt = SHAPES[name][1]
            places = [(ABSENT, list(range(nt)))] + ([(ABSENT, 0)] if nt == 1 else [])
        for path in paths:
            for c, t in places:
                m = 1 if isinstance(c, int) else len(c) if isinstance(c, list) else CONTROLLED.get(name, (1,))[0]
                for v in [ABSENT] + list(range(-2 ** m - 1, 2 ** m + 2)):
                    if generic_ctrl and v == ABSENT:
                        continue
                    yield {"kind": "ctor", "key": key, "path": path, "targets": t, "controls": c, "arg": ca, "cv": v}


# ------------------------------------------------------------------------------------------------------------------
# harness: model vs implementation

def parse_opt_list(s):
    return None if s == "N" else [int(x) for x in s[2:].split(",") if x]


def compare_one(w, o, entry):
    """-> None if model answer `o` and the implementation agree on the request `w`, else (model, impl, what)"""
    from props.c09 import DOC
    try:
        g = build(w)
    except Exception as e:
        impl = "err " + classify_ctor_exc(e, entry["controlled"])
        return None if o == impl else (o, impl, "constructor: refusal")
    if not o.startswith("ok "):
        return (o, "accepted: targets=%r controls=%r control_value=%r" % (g.targets, g.controls, g.control_value),
                "constructor: the model refuses, the implementation accepts")
    f = o.split(" ")
    ts, cs, cv = parse_opt_list(f[1][3:]), parse_opt_list(f[2][3:]), (None if f[3][3:] == "N" else int(f[3][3:]))
    carried = (None if g.targets is None else list(g.targets), None if g.controls is None else list(g.controls), g.control_value)
    if carried != (ts, cs, cv) or (cv is not None and type(g.control_value) is not int):
        return (o[:80], "targets=%r controls=%r control_value=%r" % carried, "constructor: what the object carries")
    try:
        M = g.get_compact_qobj().full()
    except Exception as e:
        impl = "cerr " + classify_compact_exc(e)
        return None if " ".join(f[4:]) == impl else (" ".join(f[4:])[:60], impl, "get_compact_qobj: refusal")
    if f[4] == "cerr":
        return (" ".join(f[4:]), "matrix of shape %s" % (M.shape,), "get_compact_qobj: the model refuses, the implementation returns")
    if f[4] == "plain":
        name = doc_name(w["key"])
        E = doc_matrix(name, w["arg"])
        if E is None:
            return ("plain", "accepted", "get_compact_qobj: arg_value of an undocumented shape accepted")
    else:
        tname = SPEC_DOC[entry["spec"]]
        U = doc_matrix(tname, w["arg"])
        if U is None:
            return ("block", "accepted", "get_compact_qobj: arg_value of an undocumented shape accepted")
        val = {"z": 0, "o": 1, "a": U[0, 0], "b": U[0, 1], "c": U[1, 0], "d": U[1, 1]}
        E = np.array([[val[ch] for ch in r] for r in f[6].split(";")], dtype=complex)
    if M.shape != E.shape or np.abs(M - E).max() > 1e-12:
        return (f[4] + " " + (f[5] if len(f) > 5 else ""), np.round(M, 4).tolist(), "get_compact_qobj: matrix")
    return None


def correspondence(ctx, res, drv, entries, class_map):
    by_key = {e["key"]: e for e in entries}
    reqs = list(enumerate_requests(entries, class_map, ctx.rng, ctx.thorough))
    outs = drv.run([request_line(w) for w in reqs])
    for w, o in zip(reqs, outs):
        e = by_key[w["key"]]
        inp = {k: (list(v) if isinstance(v, tuple) else v) for k, v in w.items() if k != "kind"}
        fam = ("generic-Gate" if e["generic"] else "ControlledGate" if e["cvRequired"] else "one-controlled" if e["oneCtrl"]
               else "fixed-" + e["arity"])
        res.case(inp, nontrivial=True, tags=["constructor", "ctor:" + fam, "ctor:" + w["path"],
                                             "ctor:" + ("accepted" if o.startswith("ok") else o.replace(" ", "-"))])
        d = compare_one(w, o, e)
        if d is not None:
            res.disagree(inp, d[0], d[1], "model of the gate constructors vs implementation (" + d[2] + ")", dict(inp, kind="ctor"))
    res.notes.append("constructors: every key of GATE_CLASS_MAP (class path and add_gate by name), ControlledGate x every single-qubit "
                     "target class, Gate(name) for every name of the generic chain; 7 shapes of targets x 7 shapes of controls "
                     "(absent, None, integer, lists of 0..3) x every control value in [-2^m-1, 2^m+1], None, absent x documented / "
                     "absent arg_value, plus 8 shapes of arg_value on the canonical placement and duplicate / negative labels "
                     "(complete over this grid)")
    return len(reqs)


# ------------------------------------------------------------------------------------------------------------------
# circuits holding SEVERAL gate objects: the matrix a circuit reports for a gate is that gate's own matrix

def _gate_on(key, path, nq, cv=ABSENT, m=None):
    """a well-formed request for `key` on the first qubits of a register (controls first)"""
    name = doc_name(key)
    if key.startswith("ControlledGate:"):
        tn = key.split(":", 1)[1]
        return {"key": key, "path": path, "targets": [m], "controls": list(range(m)), "cv": cv,
                "arg": doc_arg_shape("SNOT" if tn == "H" else tn)}
    if name in CONTROLLED:
        mc = CONTROLLED[name][0]
        return {"key": key, "path": path, "targets": list(range(mc, nq)), "controls": list(range(mc)), "cv": cv,
                "arg": doc_arg_shape(name)}
    return {"key": key, "path": path, "targets": list(range(nq)), "controls": ABSENT, "cv": cv, "arg": doc_arg_shape(name)}


def multi_requests(rng, thorough):
    """circuits of several gates on the same qubits: all ordered pairs of keys of GATE_CLASS_MAP with the same number of
    qubits (each gate as an object and by name), all ordered pairs of ControlledGate objects over the single-qubit target
    classes for 1..3 controls and two control values, and seeded random longer sequences"""
    from qutip_qip.operations import gateclass
    from props.c09 import SHAPES
    groups = {}
    for k in gateclass.GATE_CLASS_MAP:
        groups.setdefault(sum(SHAPES[k]), []).append(k)
    for nq, keys in sorted(groups.items()):
        for a in keys:
            for b in keys:
                if a == b:
                    continue
                for pa, pb in (("class", "class"), ("class", "circuit"), ("circuit", "class")):
                    yield {"kind": "circ", "n": nq, "gates": [_gate_on(a, pa, nq), _gate_on(b, pb, nq)]}
    singles = [t for t in SINGLE_TARGETS if hasattr(gateclass, t)]
    for m in (1, 2, 3):
        for v in (2 ** m - 1, 0):
            for a in singles:
                for b in singles:
                    if a != b:
                        yield {"kind": "circ", "n": m + 1, "gates": [_gate_on("ControlledGate:" + a, "class", m + 1, v, m),
                                                                     _gate_on("ControlledGate:" + b, "class", m + 1, v, m)]}
    # the one-control classes next to ControlledGate objects with one control, and longer sequences
    two = [k for k in groups.get(2, [])]
    pool = [(k, p) for k in two for p in ("class", "circuit")] + [("ControlledGate:" + t, "class") for t in singles]
    for _ in range(150 if not thorough else 1500):
        gs = []
        for k, p in [rng.choice(pool) for _ in range(rng.randint(3, 7))]:
            gs.append(_gate_on(k, p, 2, 1, 1) if k.startswith("ControlledGate:") else _gate_on(k, p, 2))
        yield {"kind": "circ", "n": 2, "gates": gs}


def run_multi(w):
    """-> (list of matrices the circuit reports through propagators(expand=False), compute_unitary(), gate objects)"""
    from qutip_qip.circuit import QubitCircuit
    qc = QubitCircuit(w["n"])
    for g in w["gates"]:
        build(g, qc)
    props = [p.full() for p in qc.propagators(expand=False)]
    return props, qc.compute_unitary().full(), list(qc.gates)


def oracle_multi(w):
    """the property for a circuit of several gates: every propagator is the documented matrix of ITS gate, and the
    circuit unitary is their product (all gates act on the qubits 0..n-1 in this order, so compact = expanded)"""
    try:
        props, U, gates = run_multi(w)
    except Exception as e:
        return True, "a circuit of individually valid gates raises %s: %s" % (type(e).__name__, str(e)[:120])
    names = [g["key"] + ("" if g["path"] == "class" else "(by name)") for g in w["gates"]]
    total = np.eye(2 ** w["n"], dtype=complex)
    for i, (g, P) in enumerate(zip(w["gates"], props)):
        exp, what = expected_matrix(g, gates[i])
        if exp is None:
            return True, "gate %d (%s): %s" % (i, names[i], what)
        if P.shape != exp.shape or np.abs(P - exp).max() > 1e-9:
            return True, ("circuit [%s]: propagators(expand=False)[%d] is not the documented matrix of %s"
                          % (", ".join(names), i, what))
        total = exp @ total
    if U.shape != total.shape or np.abs(U - total).max() > 1e-9:
        return True, "circuit [%s]: compute_unitary() is not the product of the documented matrices" % ", ".join(names)
    return False, "every propagator is the documented matrix of its gate"


def correspondence_multi(ctx, res):
    """the regenerated rule `_get_gate_unitary(gate) = gate.get_compact_qobj()` (Gen.G.circuitGateUnitary) against the
    behaviour: the matrix reported through the circuit equals the matrix of a FRESH object of the same request"""
    n = 0
    for w in multi_requests(ctx.rng, ctx.thorough):
        n += 1
        inp = {"n": w["n"], "gates": [{k: v for k, v in g.items()} for g in w["gates"]]}
        res.case(inp, nontrivial=True, tags=["circuit-of-several-gates", "len=%d" % len(w["gates"])])
        try:
            props, U, _ = run_multi(w)
            own = [build(dict(g, path="class") if not g["key"].startswith("Gate:") else g).get_compact_qobj().full()
                   for g in w["gates"]]
            bad = [i for i, (P, O) in enumerate(zip(props, own)) if P.shape != O.shape or np.abs(P - O).max() > 1e-13]
            detail = "propagator(s) %s differ from the gate's own get_compact_qobj()" % bad if bad else ""
        except Exception as e:
            bad, detail = [0], "raises %s: %s" % (type(e).__name__, str(e)[:100])
        if bad:
            res.disagree(inp, "gate.get_compact_qobj() of each gate", detail,
                         "circuit path for circuits of several gates (rule _get_gate_unitary = own matrix)", dict(w))
    res.notes.append("circuits of several gates: all ordered pairs of GATE_CLASS_MAP keys with equal qubit count (object/object, "
                     "object/by-name, by-name/object), all ordered pairs of ControlledGate objects over the 12 single-qubit target "
                     "classes x 1..3 controls x 2 control values (complete), seeded random sequences of 3..7 two-qubit gates; "
                     "matrices read through propagators(expand=False) and compute_unitary")
    return n


# ------------------------------------------------------------------------------------------------------------------
# controlled gates AFTER expansion on a register: the control value is read in the order the controls are LISTED

def listed_order_semantics(N, controls, targets, v, U):
    """documented semantics, written from the docstrings only: on N qubits (qubit 0 = most significant digit of the basis
    index), apply U to `targets` exactly when the control qubits, read in the order they are LISTED with the first one as
    the most significant bit, spell the number v; identity otherwise"""
    dim = 2 ** N
    M = np.zeros((dim, dim), dtype=complex)
    k = len(targets)
    for y in range(dim):
        bits = [(y >> (N - 1 - q)) & 1 for q in range(N)]
        val = 0
        for c in controls:
            val = 2 * val + bits[c]
        if val != v:
            M[y, y] = 1
            continue
        col = 0
        for t in targets:
            col = 2 * col + bits[t]
        for row in range(2 ** k):
            nb = list(bits)
            for i, t in enumerate(targets):
                nb[t] = (row >> (k - 1 - i)) & 1
            x = 0
            for b in nb:
                x = 2 * x + b
            M[x, y] = U[row, col]
    return M


def expand_requests(rng, thorough):
    """every ordered placement of m controls + target(s) on N in {3, 4} qubits (m = 1, 2, 3) x every control value:
    ControlledGate with every single-qubit target class through get_qobj, with X and R also through
    propagators(expand=True) / compute_unitary and as controlled_gate(U, …); the named one-control classes, TOFFOLI and
    FREDKIN on every placement (class and by name)"""
    from qutip_qip.operations import gateclass
    singles = [t for t in SINGLE_TARGETS if hasattr(gateclass, t)]
    for N in (3, 4):
        for m in (1, 2, 3):
            if m + 1 > N:
                continue
            for qs in itertools.permutations(range(N), m + 1):
                cs, t = list(qs[:m]), [qs[m]]
                for v in range(2 ** m):
                    for T in singles:
                        vias = ["get_qobj"] + (["propagators", "unitary", "function"] if T in ("X", "R") else [])
                        for via in vias:
                            yield {"kind": "expand", "key": "ControlledGate:" + T, "controls": cs, "targets": t, "cv": v, "N": N,
                                   "arg": doc_arg_shape("SNOT" if T == "H" else T), "via": via}
        for name, (m, tn) in CONTROLLED.items():
            nt = 2 if name == "FREDKIN" else 1
            if m + nt > N or name not in gateclass.GATE_CLASS_MAP:
                continue
            for qs in itertools.permutations(range(N), m + nt):
                for via in ("get_qobj", "propagators", "byname"):
                    yield {"kind": "expand", "key": name, "controls": list(qs[:m]), "targets": list(qs[m:]), "cv": ABSENT, "N": N,
                           "arg": doc_arg_shape(name), "via": via}


def expanded_of(w):
    """the operator on the register the implementation gives for the request, through the path `via`"""
    from qutip_qip.circuit import QubitCircuit
    from qutip_qip.operations import controlled_gate
    import qutip
    N = w["N"]
    req = {"key": w["key"], "path": "class", "targets": w["targets"], "controls": w["controls"], "arg": w["arg"], "cv": w["cv"]}
    via = w["via"]
    if via == "function":
        tn = w["key"].split(":", 1)[1]
        U = doc_matrix("SNOT" if tn == "H" else tn, w["arg"])
        return controlled_gate(qutip.Qobj(U), controls=list(w["controls"]), targets=list(w["targets"]), N=N,
                               control_value=w["cv"]).full()
    if via == "get_qobj":
        return build(req).get_qobj(dims=[2] * N).full()
    qc = QubitCircuit(N)
    build(dict(req, path="circuit") if via == "byname" else req, qc)
    if via == "unitary":
        return qc.compute_unitary().full()
    return qc.propagators(expand=True)[0].full()


def oracle_expand(w):
    name = doc_name(w["key"])
    if w["key"].startswith("ControlledGate:"):
        tn = w["key"].split(":", 1)[1]
        tn = "SNOT" if tn == "H" else tn
        m, v = len(w["controls"]), w["cv"]
    else:
        m, tn = CONTROLLED[name]
        v = 2 ** m - 1 if w["cv"] == ABSENT else w["cv"]
    U = doc_matrix(tn, w["arg"])
    exp = listed_order_semantics(w["N"], w["controls"], w["targets"], v, U)
    req = "%s(controls=%s, targets=%s, control_value=%s) on %d qubits via %s" % (w["key"], w["controls"], w["targets"], w["cv"],
                                                                                 w["N"], w["via"])
    try:
        M = expanded_of(w)
    except Exception as e:
        return True, "%s raises %s: %s" % (req, type(e).__name__, str(e)[:100])
    if M.shape != exp.shape or np.abs(M - exp).max() > 1e-9:
        bits = format(v, "0%db" % m)
        return True, ("%s: the operator on the register does not apply %s to qubit(s) %s exactly when the controls %s read %s "
                      "(listed order, first = most significant)" % (req, tn, w["targets"], w["controls"], bits))
    return False, "listed-order semantics met"


def correspondence_expand(ctx, res, drv):
    """model (GateCtor.expanded over the regenerated table, `drv_gates ctor … n=N`) vs `get_qobj(dims=[2]*N)` for the classes
    that read control_value: every ordered placement / value as in `expand_requests`, plus refused placements"""
    from props.c09 import classify_ctrl_exc
    from qutip_qip.operations import gateclass
    singles = [t for t in SINGLE_TARGETS if hasattr(gateclass, t)]
    reqs = []
    for w in expand_requests(ctx.rng, ctx.thorough):
        if w["via"] == "get_qobj" and w["key"].startswith("ControlledGate:"):
            reqs.append(w)
    for key in ["CX", "CY", "CS", "CT", "CRX", "CRY", "CRZ"]:
        if key in gateclass.GATE_CLASS_MAP:
            for N in (3, 4):
                for c, t in itertools.permutations(range(N), 2):
                    reqs.append({"kind": "expand", "key": key, "controls": [c], "targets": [t], "cv": ABSENT, "N": N,
                                 "arg": doc_arg_shape(key), "via": "get_qobj"})
    for T in ("X", "RY"):
        for cs, t, N, v in (([0, 0], [1], 3, 1), ([0, 1], [1], 3, 1), ([0, 3], [1], 3, 1), ([2, 0], [1], 2, 2), ([-1, 0], [1], 3, 1),
                            ([1, 0], [2], 3, 2), ([0, 1, 2], [3], 3, 5), ([2, 1], [0], 5, 1)):
            reqs.append({"kind": "expand", "key": "ControlledGate:" + T, "controls": cs, "targets": t, "cv": v, "N": N,
                         "arg": doc_arg_shape(T), "via": "get_qobj"})
    lines = ["ctor key=%s path=class ts=%s cs=%s arg=%s cv=%s n=%d" % (w["key"], fmt_q(w["targets"]), fmt_q(w["controls"]),
                                                                       fmt_a(w["arg"]), fmt_v(w["cv"]), w["N"]) for w in reqs]
    outs = drv.run(lines)
    for w, o in zip(reqs, outs):
        inp = {k: (list(v) if isinstance(v, tuple) else v) for k, v in w.items() if k != "kind"}
        res.case(inp, nontrivial=True, tags=["expanded-controlled", "N=%d" % w["N"], "m=%d" % len(w["controls"])])
        f = o.split(" ")
        try:
            M = expanded_of(w)
            impl = None
        except Exception as e:
            impl = "xerr " + classify_ctrl_exc(e)
        tn = w["key"].split(":", 1)[1] if ":" in w["key"] else CONTROLLED[w["key"]][1]
        U = doc_matrix("SNOT" if tn == "H" else tn, w["arg"])
        bad = None
        if not o.startswith("ok ") or len(f) < 6:
            bad = (o[:80], impl or "matrix")
        elif f[4] == "xerr":
            if impl != "xerr " + f[5]:
                bad = (" ".join(f[4:]), impl or "matrix")
        elif f[4] == "block":
            if impl is not None:
                bad = ("block", impl)
            else:
                val = {"z": 0, "o": 1, "a": U[0, 0], "b": U[0, 1], "c": U[1, 0], "d": U[1, 1]}
                E = np.array([[val[ch] for ch in r] for r in f[6].split(";")], dtype=complex)
                if E.shape != M.shape or np.abs(E - M).max() > 1e-12:
                    bad = ("block %s" % f[5], np.round(M, 3).tolist())
        else:
            bad = (" ".join(f[4:])[:60], impl or "matrix")
        if bad:
            wellformed = len(set(w["controls"] + w["targets"])) == len(w["controls"]) + 1 and \
                all(0 <= q < w["N"] for q in w["controls"] + w["targets"])
            res.disagree(inp, bad[0], bad[1], "model of get_qobj of a controlled object (GateCtor.expanded) vs implementation",
                         dict(w) if wellformed else None)
    res.notes.append("expanded controlled gates: ControlledGate x 12 target classes x every ordered placement of 1..3 controls + target "
                     "on 3 and 4 qubits x every control value, CX…CRZ on every ordered pair, refused placements — get_qobj vs the "
                     "model (complete over this grid)")
    return len(reqs)


# ------------------------------------------------------------------------------------------------------------------
# cross-OBJECT histories in one process: what a FRESH circuit / gate object is

HIST_NAMES = ["T", "X", "S", "Z", "Y", "SNOT", "SQRTNOT"]


def custom_matrix(tag):
    """the custom single-qubit unitary with this tag (differs from every library matrix and from every other tag)"""
    a = 0.3 + 0.37 * tag
    return np.array([[np.cos(a), -np.sin(a) * np.exp(0.2j * (tag + 1))], [np.sin(a), np.cos(a) * np.exp(0.2j * (tag + 1))]])


def hist_requests(rng, thorough):
    """histories of constructions / writes on circuit objects (ops as for `drv_gates heap`, plus Python-only in-place
    mutations `M<c>:<attr>` of another circuit's lists), every circuit probed with every name afterwards"""
    t = 0
    for nm in HIST_NAMES:
        t += 1
        for ov in "01":
            # the block of a library brings its own "T"; a main circuit merges it; a fresh circuit is created afterwards
            yield {"kind": "hist", "ops": ["L%s:%d" % (nm, t), "W0", "D", "A1:0:" + ov, "D"]}
            yield {"kind": "hist", "ops": ["D", "L%s:%d" % (nm, t), "W1", "D", "A0:1:" + ov, "A2:0:" + ov, "D", "D"]}
        yield {"kind": "hist", "ops": ["D", "S0:%s:%d" % (nm, t), "D"]}
        yield {"kind": "hist", "ops": ["D", "D", "S1:%s:%d" % (nm, t), "M1:dims", "M1:input", "M1:gates", "D"]}
        yield {"kind": "hist", "ops": ["L", "W0", "W0", "S1:%s:%d" % (nm, t), "D", "A2:1:0", "D"]}
        yield {"kind": "hist", "ops": ["D", "W0", "S0:%s:%d" % (nm, t), "D"]}
    for _ in range(120 if not thorough else 1500):
        ops, ndict, ncirc = [], 0, 0
        for _ in range(rng.randint(4, 11)):
            r = rng.random()
            if r < 0.3 or ncirc == 0:
                ops.append("D"); ndict += 1; ncirc += 1
            elif r < 0.4:
                k = rng.sample(HIST_NAMES, rng.randint(0, 2))
                ops.append("L" + ",".join("%s:%d" % (n, rng.randint(1, 9)) for n in k)); ndict += 1
            elif r < 0.5 and ndict:
                ops.append("W%d" % rng.randrange(ndict)); ncirc += 1
            elif r < 0.7:
                ops.append("S%d:%s:%d" % (rng.randrange(ncirc), rng.choice(HIST_NAMES), rng.randint(1, 9)))
            elif r < 0.9 and ncirc >= 2:
                a, b = rng.sample(range(ncirc), 2)        # qc.add_circuit(qc) on a non-empty circuit never terminates
                ops.append("A%d:%d:%d" % (a, b, rng.randint(0, 1)))
            else:
                ops.append("M%d:%s" % (rng.randrange(ncirc), rng.choice(["dims", "input", "gates"])))
        ops.append("D")
        yield {"kind": "hist", "ops": ops}


def run_hist(w):
    """execute the history on the implementation -> (table circuit -> {name: tag | None (library) | '?'}, anomalies of
    freshly constructed circuits, list of the dict-object index each circuit was given (-1: default constructed))"""
    from qutip import Qobj
    from qutip_qip.circuit import QubitCircuit
    from props.c09 import DOC
    dicts, circs, given, anomalies = [], [], [], []
    funcs = {}

    def fn(tag):
        if tag not in funcs:
            def make(M):
                return lambda: M
            funcs[tag] = make(Qobj(custom_matrix(tag)))
        return funcs[tag]
    for op in w["ops"]:
        k, body = op[0], op[1:]
        if k == "D":
            qc = QubitCircuit(2)
            bad = []
            if qc.user_gates != {}:
                bad.append("user_gates=%r" % sorted(qc.user_gates))
            if qc.gates != []:
                bad.append("gates")
            if list(qc.dims) != [2, 2]:
                bad.append("dims=%r" % (qc.dims,))
            if list(qc.input_states) != [None, None] or list(qc.output_states) != [None, None]:
                bad.append("input/output states")
            if any(qc.user_gates is d for d in dicts) or any(qc.gates is c.gates or qc.dims is c.dims for c in circs):
                bad.append("a container of the new circuit is an object another circuit holds")
            if bad:
                anomalies.append("QubitCircuit(2) number %d is not fresh: %s" % (len(circs), ", ".join(bad)))
            circs.append(qc); dicts.append(qc.user_gates); given.append(-1)
        elif k == "L":
            dicts.append({kv.split(":")[0]: fn(int(kv.split(":")[1])) for kv in body.split(",") if kv})
        elif k == "W":
            circs.append(QubitCircuit(2, user_gates=dicts[int(body)])); given.append(int(body))
        elif k == "S":
            c, nm, tag = body.split(":")
            circs[int(c)].user_gates[nm] = fn(int(tag))
        elif k == "A":
            a, b, ov = body.split(":")
            circs[int(a)].add_circuit(circs[int(b)], overwrite_user_gates=(ov == "1"))
        elif k == "M":
            c, attr = body.split(":")
            qc = circs[int(c)]
            if attr == "dims":
                qc.dims[0] = 2
                qc.dims.append(2); qc.dims.pop()
            elif attr == "input":
                qc.input_states[0] = "0"
            else:
                qc.add_gate("SNOT", targets=1)
    table = []
    for qc in circs:
        row = {}
        for nm in HIST_NAMES:
            qc.add_gate(nm, targets=0)
            M = qc.propagators(expand=False)[-1].full()
            qc.gates.pop()
            if np.abs(M - DOC[nm](None)).max() < 1e-12:
                row[nm] = None
            else:
                tags = [t for t in range(0, 40) if np.abs(M - custom_matrix(t)).max() < 1e-12]
                row[nm] = tags[0] if tags else "?"
        table.append(row)
    return table, anomalies, given


def oracle_hist(w):
    """the property on a history: a circuit built by `QubitCircuit(N)` whose own user_gates nobody wrote (no
    `qc.user_gates[…] = …` on it, no `add_circuit` INTO it, its dictionary handed to nobody) reports the documented library
    matrix for every library name, through propagators and through run(); every such constructor returns a fresh object"""
    import qutip
    from qutip_qip.circuit import QubitCircuit
    from props.c09 import DOC
    try:
        table, anomalies, given = run_hist(w)
    except Exception as e:
        return True, "history %s raises %s: %s" % (w["ops"], type(e).__name__, str(e)[:100])
    if anomalies:
        return True, "history %s: %s" % (" ".join(w["ops"]), anomalies[0])
    # which circuits' own dictionaries were written on purpose: bookkeeping on the ops only
    ncirc, group, written = 0, [], set()
    ndefault = 0
    owner = {}                       # dict index -> group id
    nd = 0
    for op in w["ops"]:
        k, body = op[0], op[1:]
        if k == "D":
            owner[nd] = ("d", nd); group.append(("d", nd)); nd += 1
        elif k == "L":
            owner[nd] = ("d", nd); nd += 1
        elif k == "W":
            group.append(owner[int(body)])
        elif k == "S":
            written.add(group[int(body.split(":")[0])])
        elif k == "A":
            written.add(group[int(body.split(":")[0])])
    for c, g in enumerate(group):
        if g in written or given[c] != -1 or any(group[j] == g for j in range(len(group)) if j != c):
            continue
        for nm, got in table[c].items():
            if got is not None:
                return True, ("history %s: circuit %d was built by QubitCircuit(2) and nobody wrote its user_gates, yet gate %r "
                              "added by name has %s instead of the library matrix"
                              % (" ".join(w["ops"]), c, nm, "the custom matrix #%s of another circuit" % got))
    # the same through the simulator on a brand-new circuit after the history
    for nm in HIST_NAMES[:3]:
        qc = QubitCircuit(1)
        qc.add_gate(nm, targets=0)
        psi = (qutip.basis(2, 0) + 0.5j * qutip.basis(2, 1)).unit()
        out = qc.run(psi).full().ravel()
        exp = DOC[nm](None) @ psi.full().ravel()
        if np.abs(out - exp).max() > 1e-10:
            return True, "history %s: a new QubitCircuit(1) with gate %r: run() does not apply the library matrix" % (" ".join(w["ops"]), nm)
    return False, "fresh circuits resolve the library"


def correspondence_hist(ctx, res, drv):
    """model CircHeap (rule Gen.G.circuitDefaultUserGates: a new dictionary per default-constructed circuit; a given dictionary is
    shared; add_circuit / item assignment write the holder's dictionary) vs implementation: for every circuit of the history and
    every probe name, custom tag or library"""
    reqs = list(hist_requests(ctx.rng, ctx.thorough))
    outs = drv.run(["heap ops=%s probes=%s" % (";".join(o for o in w["ops"] if not o.startswith("M")), ",".join(HIST_NAMES))
                    for w in reqs])
    for w, o in zip(reqs, outs):
        res.case({"ops": w["ops"]}, nontrivial=True, tags=["cross-object-history", "len=%d" % len(w["ops"])])
        try:
            table, anomalies, _ = run_hist(w)
            impl = "|".join("c%d=%s" % (c, ",".join("%s:%s" % (nm, "-" if row[nm] is None else row[nm]) for nm in HIST_NAMES))
                            for c, row in enumerate(table))
        except Exception as e:
            impl, anomalies = "exc:%s:%s" % (type(e).__name__, str(e)[:80]), []
        if o != "ok " + impl or anomalies:
            res.disagree({"ops": w["ops"]}, o[:300], (impl + " " + "; ".join(anomalies))[:300],
                         "model of circuit objects and their user_gates dictionaries (CircHeap) vs implementation", dict(w))
    res.notes.append("cross-object histories: constructions (default / given dictionary), item assignments, add_circuit with and "
                     "without overwrite, in-place mutations of other circuits' lists; 49 systematic + seeded random histories, every "
                     "circuit probed with 7 library names through add_gate by name + propagators")
    return len(reqs)


def fresh_gate_requests():
    from qutip_qip.operations import gateclass
    for k in gateclass.GATE_CLASS_MAP:
        yield {"kind": "fresh", "key": k}


def oracle_fresh_gate(w):
    """two objects of one class built from equal arguments are independent: mutating the first one's containers in place
    does not show in a second one, which has the documented matrix"""
    from props.c09 import SHAPES
    key = w["key"]
    nc, nt = SHAPES[key]
    def mk():        # new argument lists for every object (Gate.__init__ stores the list it is given)
        return {"key": key, "path": "class", "targets": list(range(nc, nc + nt)) if (nc and key not in ("TOFFOLI", "FREDKIN")) else
                list(range(nc + nt)), "controls": list(range(nc)) if (nc and key not in ("TOFFOLI", "FREDKIN")) else ABSENT,
                "arg": doc_arg_shape(key), "cv": ABSENT}
    req = mk()
    try:
        g1 = build(mk())
        snap = (list(g1.targets), None if g1.controls is None else list(g1.controls), g1.control_value)
        g1.targets.append(9)
        if g1.controls is not None:
            g1.controls.append(8)
        if isinstance(g1.arg_value, list):
            g1.arg_value[0] = 0.111
        else:
            g1.arg_value = 0.111
        g1.control_value = 0
        g1.name = "other"
        g2 = build(mk())
        now = (list(g2.targets), None if g2.controls is None else list(g2.controls), g2.control_value)
        M = g2.get_compact_qobj().full()
    except Exception as e:
        return True, "%s: building two objects raises %s: %s" % (key, type(e).__name__, str(e)[:80])
    if now != snap:
        return True, "%s: a second object built from the same arguments carries %r, the first carried %r" % (key, now, snap)
    exp, what = expected_matrix(req, g2)
    if exp is None or M.shape != exp.shape or np.abs(M - exp).max() > 1e-9:
        return True, "%s: after mutating another object of the class, a new object does not have the documented matrix" % key
    return False, "independent objects"


# ------------------------------------------------------------------------------------------------------------------
# qubits given in other containers than the documented int / list (tuple, numpy array, numpy integers, range)

def _container(kind, qs):
    if kind == "tuple":
        return tuple(qs)
    if kind == "array":
        return np.array(qs)
    if kind == "npint":
        return [np.int64(q) for q in qs] if len(qs) != 1 else np.int64(qs[0])
    if kind == "range":
        return range(qs[0], qs[-1] + 1) if list(range(qs[0], qs[-1] + 1)) == list(qs) else \
            range(qs[0], qs[-1] - 1, -1) if list(range(qs[0], qs[-1] - 1, -1)) == list(qs) else tuple(qs)
    return list(qs)


def seq_requests(kinds=("tuple", "array", "npint", "range")):
    from qutip_qip.operations import gateclass
    from props.c09 import SHAPES
    keys = [(k, ["class", "circuit"]) for k in gateclass.GATE_CLASS_MAP]
    keys += [("ControlledGate:X", ["class"]), ("ControlledGate:RY", ["class"])]
    keys += [("Gate:" + n, ["class"]) for n in ("CNOT", "CRX", "TOFFOLI", "FREDKIN", "X", "SWAP")]
    for key, paths in keys:
        name = doc_name(key)
        if key.startswith("ControlledGate:"):
            tn = key.split(":", 1)[1]
            cs, ts, cvs, arg = [2, 1], [0], [2, 1], doc_arg_shape(tn)
        elif name in CONTROLLED:
            m = CONTROLLED[name][0]
            nt = 2 if name == "FREDKIN" else 1
            cs, ts, cvs, arg = list(range(nt + m - 1, nt - 1, -1)), list(range(nt)), [ABSENT], doc_arg_shape(name)
        else:
            nt = SHAPES[name][1]
            cs, ts, cvs, arg = None, list(range(nt - 1, -1, -1)) if nt > 1 else [1], [ABSENT], doc_arg_shape(name)
        for kind in kinds:
            for path in paths:
                for cv in cvs:
                    yield {"kind": "seq", "key": key, "path": path, "container": kind, "controls": cs, "targets": ts, "cv": cv,
                           "arg": arg, "N": 4}


def oracle_seq(w):
    """a request whose qubits come in another sequence type is refused by the constructor, or served like the same request
    with lists: documented compact matrix AND listed-order operator on the register"""
    from props.c09 import DOC
    kind = w["container"]
    req = {"key": w["key"], "path": w["path"], "arg": w["arg"], "cv": w["cv"],
           "targets": _container(kind, w["targets"]), "controls": ABSENT if w["controls"] is None else _container(kind, w["controls"])}
    lreq = dict(req, targets=list(w["targets"]), controls=ABSENT if w["controls"] is None else list(w["controls"]))
    label = "%s(controls=%r, targets=%r%s) via %s" % (w["key"], req["controls"], req["targets"],
                                                     "" if w["cv"] == ABSENT else ", control_value=%s" % w["cv"], w["path"])
    try:
        g = build(req)
    except Exception as e:
        return False, "refused: " + type(e).__name__
    try:
        M = g.get_compact_qobj().full()
        F = g.get_qobj(dims=[2] * w["N"]).full()
    except Exception as e:
        return True, "%s is accepted (stores targets=%r controls=%r) but cannot be evaluated: %s: %s" % (
            label, g.targets, g.controls, type(e).__name__, str(e)[:80])
    exp, what = expected_matrix(lreq, g)
    if exp is None or M.shape != exp.shape or np.abs(M - exp).max() > 1e-9:
        return True, "%s is accepted (stores controls=%r) but get_compact_qobj() is not the documented matrix of %s" % (label, g.controls, what)
    name = doc_name(w["key"])
    if w["key"].startswith("ControlledGate:") or name in CONTROLLED:
        if w["key"].startswith("ControlledGate:"):
            tn, m, v = w["key"].split(":", 1)[1], len(w["controls"]), w["cv"]
        else:
            m, tn = CONTROLLED[name]
            v = 2 ** m - 1
        full = listed_order_semantics(w["N"], list(w["controls"]), list(w["targets"]), v, doc_matrix(tn, w["arg"]))
    else:
        full = listed_order_semantics(w["N"], [], list(w["targets"]), 0, doc_matrix(name, w["arg"]))
    if F.shape != full.shape or np.abs(F - full).max() > 1e-9:
        return True, "%s: get_qobj on %d qubits is not the operator of the same request with lists" % (label, w["N"])
    return False, "served like the list form"
