"""C13 — transpilation targets the device (ModelProcessor.transpile of LinearSpinChain,
CircularSpinChain, SCQubits, DispersiveCavityQED).

T: the devices' native gate lists, the setup string each topology_map hands to the router and the
   shape of ModelProcessor.transpile are regenerated from /repo with `ast`
   (py/translate/devices.py -> lean/QipVerif/Gen/DeviceTables.lean); the decomposition rule tables
   as for C03 (py/translate/decomp.py).  The extraction is cross-checked against the live objects.
H: lean/QipVerif/Model/Transpile.lean (route-then-resolve, composed from the C07 and C03 models) is
   run side by side with processor.transpile(qc): the gate lists are compared exactly.
Oracle (independent of the model): names within native + markers, every multi-qubit gate on
   qubits the hardware couples, dense unitary equality (<= 5 qubits).

Streams: every placement of every library gate (exhaustive, 1-5 qubits x 4 devices); SYSTEMATIC
two- and three-gate circuits for every pair of every register on every device (both orientations of a
pair, repeats, the same pair under other names, exchange gates before / after controlled gates,
three-qubit gates after a two-qubit gate on two of their qubits); HISTORIES of transpile calls in one
process (orientations; devices that share a chain setup; register sizes; the same circuit object
twice); random circuits; malformed circuits.  The fields of the emitted gate objects that the model
fixes (control_value, classical controls, a label that contradicts the angle) are compared too.  A
witness that only fails after earlier calls of the process is replaced by the shortest failing call
sequence, checked in a fresh interpreter."""
import itertools, json, math, os, re, subprocess, sys, time
import numpy as np

from vlib.core import PropertyCheck, TranslatorError
from translate import decomp, devices
from props import _fresh
from props.c03 import G, PI8, RESOLVABLE, OTHERS, PARAM, build_circuit, parse_model, same_gates, aslist

DEVS = ["LinearSpinChain", "CircularSpinChain", "SCQubits", "DispersiveCavityQED"]
# the hardware couplings as the property states them (NOT read from the code)
TOPOLOGY = {"LinearSpinChain": "open", "CircularSpinChain": "ring", "SCQubits": "open",
            "DispersiveCavityQED": "all"}
MARKERS = {"GLOBALPHASE", "IDLE"}
_PROCS = {}


def buildable(dev, N):
    """CircularSpinChain refuses to be built with fewer than two qubits"""
    return N >= (2 if dev == "CircularSpinChain" else 1)


def processor(dev, N):
    key = (dev, N)
    if key not in _PROCS:
        import qutip_qip.device as D
        _PROCS[key] = getattr(D, dev)(N)
    return _PROCS[key]


def coupled(dev, N, a, b):
    t = TOPOLOGY[dev]
    if t == "all":
        return True
    if abs(a - b) == 1:
        return True
    return t == "ring" and {a, b} == {0, N - 1}


FORMS = ("name", "class", "generic", "moved")


def raw_circuit(N, gates):
    """like c03.build_circuit, with the OBJECT FORM of every gate: `name` = add_gate(<name string>, ...); `class` = an
    instance of the library class of that name (GATE_CLASS_MAP) handed to add_gate; `generic` (= the old flag `raw`) = an
    instance of the base class Gate carrying that name (validates nothing); `moved` = the gate object of another
    circuit, built there with add_gate(<name>)"""
    from qutip_qip.circuit import QubitCircuit
    from qutip_qip.operations import Gate, GATE_CLASS_MAP
    qc = QubitCircuit(N)
    for g in gates:
        kw = {}
        if g.value() is not None:
            kw["arg_value"] = g.value()
        form = getattr(g, "form", None) or ("generic" if getattr(g, "raw", False) else "name")
        if form == "generic":
            qc.add_gate(Gate(g.name, targets=(g.t or None), controls=(g.c or None), **kw))
        elif form == "class":
            if g.t:
                kw["targets"] = list(g.t)
            if g.c:
                kw["controls"] = list(g.c)
            # as a user writes it: the class from the public exports, no name argument
            import qutip_qip.operations as OPS
            cls = getattr(OPS, g.name, None) or getattr(OPS, g.name.upper(), None) or GATE_CLASS_MAP[g.name]
            qc.add_gate(cls(**kw))
        elif form == "moved":
            other = QubitCircuit(N)
            other.add_gate(g.name, targets=(g.t or None), controls=(g.c or None), **kw)
            qc.add_gate(other.gates[0])
        else:
            qc.add_gate(g.name, targets=(g.t or None), controls=(g.c or None), **kw)
    return qc


class RG(G):
    __slots__ = ("raw", "form")

    def __init__(self, *a, raw=False, form=None, **k):
        super().__init__(*a, **k)
        self.raw = raw or form == "generic"
        self.form = form or ("generic" if raw else None)

    def value(self):
        if self.raw or self.name == "RZX":
            return self.val
        return super().value()


CALLS = []      # every transpile call of this process, in order (witnesses)


def impl_transpile(dev, N, gates, qc=None, M=None, proc=None):
    """-> (verdict, transpiled circuit | None, input circuit | None); the processor has M qubits (default N = qc.N);
    `proc`: a given processor object (object histories) instead of the shared one of (dev, M)"""
    if qc is None:
        try:
            qc = raw_circuit(N, gates)
        except Exception as e:
            return "unconstructible:" + type(e).__name__, None, None
    if proc is None:
        CALLS.append(wit(dev, N, gates, M))
        proc = processor(dev, N if M is None else M)
    try:
        r = proc.transpile(qc)
    except ValueError as e:
        m = str(e)
        if "Not sufficient" in m:
            return "err notSufficient1q", None, qc
        if "not a valid two-qubit basis" in m:
            return "err invalid2q", None, qc
        return "err value", None, qc
    except NotImplementedError:
        return "err cannotResolve", None, qc
    except (IndexError, TypeError):
        return "err index", None, qc
    except Exception as e:
        return "err other:" + type(e).__name__, None, qc
    return "ok", r, qc


MODEL_ERR = {"err size": "err value", "err route:shape": "err index", "err route:value": "err value", "err route:notimpl": "err notimpl",
             "err decomp:index": "err index", "err decomp:cannotResolve": "err cannotResolve",
             "err decomp:notSufficient1q": "err notSufficient1q", "err decomp:invalid2q": "err invalid2q"}


def same_gates13(model, impl_gates):
    """c03.same_gates, with RZX (native to SCQubits, parametrised, no decomposition rule) compared by its angle"""
    if len(model) != len(impl_gates):
        return False
    for (n, t, c, v), g in zip(model, impl_gates):
        if n == "RZX":
            if g.name != "RZX" or t != aslist(g.targets) or c != aslist(g.controls):
                return False
            iv = g.arg_value
            if iv is None:
                if v not in (None, 0, 0.0):      # a raw RZX object without an angle
                    return False
            elif v is None or abs(iv - v) > 1e-12 * max(1.0, abs(v)):
                return False
        elif not same_gates([(n, t, c, v)], [g]):
            return False
    return True


def expressible(dev, name, native):
    """can the device express this library gate at all (property: otherwise transpile must refuse)"""
    if name == "RZX":
        return "RZX" in native          # native to SCQubits; no decomposition rule anywhere
    if name not in RESOLVABLE:
        return False
    if name in ("SQRTSWAP", "SQRTISWAP") and name not in native:
        return False
    return True


# names and aliases of the library (operations.GATE_CLASS_MAP) outside the model's gate alphabet decomp.GNAMES: judged by
# the oracle only (refusal, or a transpiled circuit that meets the property)
ALIASES = {"H": (0, 1), "CX": (1, 1), "iSWAP": (0, 2), "SWAPALPHA": (0, 2)}
XSHAPE = dict(decomp.SHAPE)
XSHAPE.update(ALIASES)
# every other gate name of the library except RZX (native to SCQubits, known to no rule; routed since fixes/C13-3 - it is
# in the class and compared with the model like the resolvable gates, see in_class / same_gates13)
EXTRA = [n for n in XSHAPE if n not in RESOLVABLE + OTHERS and n != "RZX"]
# proper arguments of the gate classes that take more than one
# the rest of the model's gate alphabet (decomp.GNAMES): refused today, compared as refusals in the exhaustive stream
MODEL_EXTRA = [n for n in decomp.GNAMES if n not in RESOLVABLE + OTHERS and n != "RZX"]
XARGS = {"MS": [0.3, 0.4], "R": [0.3, 0.4], "QASMU": [0.3, 0.4, 0.5], "SWAPALPHA": 0.7, "CRY": 0.7, "CRZ": 0.7}


def shape_ok(N, g):
    """a library gate as the gate classes build it, on distinct in-range qubits"""
    if g[0] not in XSHAPE:
        return False
    nc, nt = XSHAPE[g[0]]
    qs = list(g[1]) + list(g[2])
    return len(g[1]) == nt and len(g[2]) == nc and len(set(qs)) == len(qs) and all(0 <= q < N for q in qs)


def in_class(w):
    """the quantifier of the property: library gates (the resolvable ones, the other gate classes of the library, and
    RZX, which SCQubits lists as native) as their classes build them, on distinct in-range qubits"""
    return all(g[0] in RESOLVABLE + OTHERS + EXTRA + ["RZX"] and shape_ok(w["N"], g) for g in w["gates"])


def wit(dev, N, gates, M=None):
    w = {"dev": dev, "N": N, "gates": [[g.name, list(g.t), list(g.c), g.value()] +
                                       ([g.form] if getattr(g, "form", None) not in (None, "name") else []) for g in gates]}
    if M is not None and M != N:
        w["M"] = M            # processor.num_qubits when it differs from qc.N
    return w


def gates_of(w):
    gs = []
    for i, g in enumerate(w["gates"]):
        n, t, c, v = g[:4]
        gs.append(RG(n, t, c, sym=(i if v is not None else None), val=v, form=(g[4] if len(g) > 4 else None)))
    return gs


LABEL = re.compile(r"^(-?)(\d*)\\pi(?:/(\d+))?$")


def field_defect(g):
    """fields of an emitted gate object that the model fixes: no control value other than "all controls 1", no
    classical condition, and a label of the form k\\pi/m must be the angle it labels -> None | description"""
    cs = aslist(g.controls)
    if g.control_value is not None and (not cs or g.control_value != 2 ** len(cs) - 1):
        return f"{g.name}{aslist(g.targets)}: control_value={g.control_value!r}"
    if g.classical_controls is not None or g.classical_control_value is not None:
        return f"{g.name}{aslist(g.targets)}: classical condition {g.classical_controls!r}/{g.classical_control_value!r}"
    lab = g.arg_label
    if lab is not None and not isinstance(lab, str):
        return f"{g.name}{aslist(g.targets)}: arg_label={lab!r}"
    if isinstance(lab, str) and isinstance(g.arg_value, (int, float)):
        m = LABEL.match(lab)
        if m:
            v = (-1 if m.group(1) else 1) * (int(m.group(2)) if m.group(2) else 1) * math.pi / (int(m.group(3)) if m.group(3) else 1)
            if abs(v - g.arg_value) > 1e-9:
                return f"{g.name}{aslist(g.targets)}: label {lab!r} on the angle {g.arg_value!r}"
    return None


# ----------------------------------------------------------------------------------------
# ONE processor, ONE circuit object, edited in place between the calls

def content_of(qc):
    return [[g.name, aslist(g.targets), aslist(g.controls),
             None if g.arg_value is None else float(g.arg_value)] for g in qc.gates]


def apply_edit(qc, e):
    """in-place edits of a circuit object: ["arg", i, value] | ["targets", i, [..]] | ["controls", i, [..]] |
    ["swap_roles", i] | ["replace", i, [name, targets, controls, value]] | ["append", gate] | ["remove", i]; through the
    gate list itself: ["extend", gates] | ["insert", i, gate] | ["set", i, gate] | ["slice", i, j, gates] |
    ["copy_extend", gates] (deepcopy of the circuit, then extend).  -> the circuit object to go on with"""
    kind = e[0]
    if kind == "arg":
        qc.gates[e[1]].arg_value = e[2]
    elif kind == "targets":
        qc.gates[e[1]].targets = list(e[2])
    elif kind == "controls":
        qc.gates[e[1]].controls = list(e[2])
    elif kind == "swap_roles":
        g = qc.gates[e[1]]
        g.targets, g.controls = g.controls, g.targets
    elif kind == "replace":
        n, t, c, v = e[2][:4]
        qc.remove_gate_or_measurement(index=e[1])
        qc.add_gate(n, targets=(t or None), controls=(c or None), arg_value=v, index=[e[1]])
    elif kind == "append":
        n, t, c, v = e[1][:4]
        qc.add_gate(n, targets=(t or None), controls=(c or None), arg_value=v)
    elif kind == "remove":
        qc.remove_gate_or_measurement(index=e[1])
    elif kind in ("extend", "insert", "set", "slice", "copy_extend"):
        # edits through the public attribute `gates` (add_gate is not involved)
        from copy import deepcopy
        objs = lambda gl: raw_circuit(qc.N, gates_of({"gates": gl})).gates
        if kind == "extend":
            qc.gates.extend(objs(e[1]))
        elif kind == "insert":
            qc.gates.insert(e[1], objs([e[2]])[0])
        elif kind == "set":
            qc.gates[e[1]] = objs([e[2]])[0]
        elif kind == "slice":
            qc.gates[e[1]:e[2]] = objs(e[3])
        else:
            qc = deepcopy(qc)
            qc.gates.extend(objs(e[1]))
    else:
        raise ValueError("unknown edit " + repr(e))
    return qc


def new_processor(dev, M):
    import qutip_qip.device as D
    return getattr(D, dev)(M)


def pulses_of(proc):
    coeffs = proc.get_full_coeffs()
    tl = proc.get_full_tlist()
    return (None if tl is None else np.asarray(tl, dtype=float)), np.asarray(coeffs, dtype=float)


def same_as_fresh(dev, M, proc, qc, kind):
    """`load_circuit` / `run_state(qc=)` on the processor in use against a NEW processor given a deep copy of the
    circuit as it is now -> None | description of the difference"""
    from copy import deepcopy
    from qutip import basis, tensor
    fresh, qf = new_processor(dev, M), deepcopy(qc)

    def run(p, c):
        try:
            if kind == "load":
                p.load_circuit(c)
                return "ok", pulses_of(p)
            psi = tensor(*[basis(2, 0)] * M) if dev != "DispersiveCavityQED" else None
            if psi is None:
                p.load_circuit(c)
                return "ok", pulses_of(p)
            res = p.run_state(init_state=psi, qc=c)
            return "ok", (None, res.states[-1].full().ravel())
        except Exception as e:
            return "raises " + type(e).__name__, None

    s1, a = run(proc, qc)
    s2, b = run(fresh, qf)
    if s1 != s2:
        return f"{kind}: {s1} on the processor in use, {s2} on a fresh processor"
    if a is None:
        return None
    if kind == "load" or dev == "DispersiveCavityQED":
        (t1, c1), (t2, c2) = a, b
        if (t1 is None) != (t2 is None) or c1.shape != c2.shape or (t1 is not None and t1.shape != t2.shape):
            return f"{kind}: compiled pulses have another shape than those of a fresh processor for the circuit as it is now"
        if (t1 is not None and np.abs(t1 - t2).max(initial=0) > 1e-9) or np.abs(c1 - c2).max(initial=0) > 1e-9:
            return f"{kind}: compiled pulses differ from those of a fresh processor for the circuit as it is now"
        return None
    d = float(np.abs(a[1] - b[1]).max())
    if d > 1e-6:
        return f"run_state(qc=...): final state differs by {d:.3g} from that of a fresh processor"
    return None


def check_object_history(w):
    """{"object_history": {"dev", "N", ["M"], "gates": initial content, "steps": [{"call": "transpile" | "load" |
    "run_state"} | {"edit": [...]} ...]}}: one NEW processor and one circuit object; every call must meet the
    property for the content the circuit has at that moment (transpile), resp. compile what a fresh processor
    compiles for it (load_circuit / run_state)."""
    o = w["object_history"]
    dev, N = o["dev"], o["N"]
    M = o.get("M", N)
    if dev not in DEVS or not (1 <= N <= 6) or not buildable(dev, M):
        return False, "outside the property's class (device / register size)"
    try:
        qc = raw_circuit(N, gates_of({"gates": o["gates"]}))
    except Exception as e:
        return False, f"not constructible ({type(e).__name__})"
    proc = new_processor(dev, M)
    native = list(proc.native_gates)
    done = []
    for k, stp in enumerate(o["steps"]):
        if "edit" in stp:
            try:
                qc = apply_edit(qc, stp["edit"])
            except Exception as e:
                return False, f"edit {stp['edit']} not applicable ({type(e).__name__})"
            done.append("edit " + json.dumps(stp["edit"]))
            continue
        cw = {"dev": dev, "N": N, "gates": content_of(qc)}
        if M != N:
            cw["M"] = M
        if not in_class(cw):
            return False, "outside the property's class (content after the edits is not a circuit of library gates)"
        where = (f"step {k + 1} of {len(o['steps'])} ({stp['call']} on the same {dev}({M}) and the same circuit object"
                 + (", after " + "; ".join(done[-2:]) if done else "") + "): ")
        if stp["call"] == "map":
            # the circuit returned by topology_map is the one the following steps work on
            try:
                qc = proc.topology_map(qc)
            except NotImplementedError:
                pass
            done.append("topology_map")
            continue
        if stp["call"] == "transpile":
            st, r, _ = impl_transpile(dev, N, [], qc, M, proc)
            f, d, _ = judge(cw, native, st, r, qc)
            if f:
                return True, where + d
        else:
            if any(not expressible(dev, g[0], native) for g in cw["gates"]):
                continue
            d = same_as_fresh(dev, M, proc, qc, stp["call"])
            if d:
                return True, where + d
        done.append(stp["call"])
    return False, "every call meets the property for the circuit as it is at that moment"


def shrink_object_history(w):
    """a failing object history with as few steps as still fail (it is self-contained, so this is cheap)"""
    f, d = check_object_history(w)
    if not f:
        return w
    m = re.match(r"step (\d+) of", d)
    cur = json.loads(json.dumps(w))
    if m:
        cur["object_history"]["steps"] = cur["object_history"]["steps"][:int(m.group(1))]
    i = 0
    while i < len(cur["object_history"]["steps"]) - 1:
        trial = json.loads(json.dumps(cur))
        del trial["object_history"]["steps"][i]
        try:
            ok = check_object_history(trial)[0]
        except Exception:
            ok = False
        if ok:
            cur = trial
        else:
            i += 1
    return cur


def check_property(w):
    """The property on the real code -> (fails, detail): one transpile call, or a history of calls made in one
    process, in order (`"reuse": true` = the circuit OBJECT of the previous call is transpiled again), or an object
    history (one processor, one circuit object edited in place between the calls)."""
    if "object_history" in w:
        return check_object_history(w)
    if "history" not in w:
        return check_single(w)[:2]
    prev, n = None, len(w["history"])
    for k, c in enumerate(w["history"]):
        f, d, prev = check_single(c, prev if c.get("reuse") else None)
        if f:
            return True, f"call {k + 1} of {n} made in one process ({c['dev']}({c.get('M', c['N'])})): " + d
    return False, f"all {n} calls meet the property"


def check_single(w, qc=None):
    f, d, qc = _check_single(w, qc)
    return f, d, qc


def _check_single(w, qc0):
    dev, N = w["dev"], w["N"]
    M = w.get("M", N)
    if dev not in DEVS or not (1 <= N <= 8) or not (1 <= M <= 8) or not buildable(dev, M):
        return False, "outside the property's class (device / register size)", None
    if not in_class(w):
        return False, "outside the property's class (not a library gate on distinct in-range qubits)", None
    native = list(processor(dev, M).native_gates)
    st, r, qc = impl_transpile(dev, N, gates_of(w), qc0, M)
    if qc is None:
        return False, f"not constructible ({st})", None
    return judge(w, native, st, r, qc)


def judge(w, native, st, r, qc):
    """the property for one transpile call: witness w (content of the circuit at the time of the call), verdict `st`,
    result `r`, the circuit object `qc` -> (fails, detail, qc)"""
    dev, N = w["dev"], w["N"]
    M = w.get("M", N)
    bad = [g[0] for g in w["gates"] if not expressible(dev, g[0], native)]
    allowed = set(native) | MARKERS
    if st != "ok":
        if bad:
            return False, f"refused ({st}): {sorted(set(bad))} cannot be expressed in {native}", qc
        if N > M:
            return False, f"refused ({st}): the circuit has {N} qubits, the processor {M}", qc
        return True, f"a circuit of expressible gates is refused: {st}", qc
    names = sorted({g.name for g in r.gates} - allowed)
    if names:
        return True, f"transpiled circuit contains {names}, not native to {dev} {native}" + \
            (f" (inexpressible input gates {sorted(set(bad))} were not refused)" if bad else ""), qc
    for g in r.gates:
        qs = aslist(g.controls) + aslist(g.targets)
        if any(q >= M for q in qs):
            return True, (f"{g.name} on qubits {qs} in the transpiled circuit: {dev}({M}) has no qubit {max(qs)} "
                          f"(a circuit on {N} qubits was not refused)"), qc
        for a, b in itertools.combinations(qs, 2):
            if not coupled(dev, M, a, b):
                return True, (f"{g.name} on qubits {qs} in the transpiled circuit: {a} and {b} are not coupled on {dev}({M}) "
                              f"[{TOPOLOGY[dev]} topology]"), qc
    if N <= 5:
        try:
            U0 = qc.compute_unitary().full()
        except Exception as e:
            return False, f"input circuit has no unitary ({type(e).__name__})", qc
        try:
            U1 = r.compute_unitary().full()
        except Exception as e:
            return True, f"transpiled circuit has no unitary ({type(e).__name__}: {e})", qc
        d = float(np.abs(U0 - U1).max())
        if d > 1e-9:
            return True, f"unitary of the transpiled circuit differs by {d:.3g} (global phase included)", qc
    return False, "native gates only, coupled qubits only, same unitary", qc


def placed(name, qs, idx=0):
    nc, nt = XSHAPE[name]
    t, c = list(qs[:nt]), list(qs[nt:])
    if name in PARAM or name == "RZX":
        return RG(name, t, c, sym=idx, val=0.7390851332151607)
    return RG(name, t, c)


def random_gate(rng, N, names, idx):
    name = rng.choice(names)
    nc, nt = decomp.SHAPE[name]
    if nc + nt > N:
        return None
    qs = rng.sample(range(N), nc + nt)
    t, c = qs[:nt], qs[nt:]
    if name in PARAM:
        if rng.random() < 0.6:
            return RG(name, t, c, sym=idx, val=rng.choice([rng.uniform(-7, 7), 0.0, 1e-9, -math.pi, 2 * math.pi, 9.5]))
        return RG(name, t, c, p8=2 * rng.randint(-9, 9))
    return RG(name, t, c)


def malformed_case(rng):
    """Inputs outside the property's class; the model must still give the code's verdict."""
    dev = rng.choice(DEVS)
    N = rng.randint(1 if buildable(dev, 1) else 2, 5)
    gs = []
    for i in range(rng.randint(1, 3)):
        mode = rng.choice(["other", "raw3", "rawsub", "rzx", "raw-noctl", "raw-short", "valid", "swapalpha"])
        if dev == "DispersiveCavityQED" and mode in ("raw-noctl", "raw-short"):
            # a gate object with a missing qubit only meets the router on the chain devices; on the unrouted
            # device it would reach the rule functions, whose behaviour on such objects (controls=None handed
            # on unchecked) is outside what the rule templates of C03 represent
            mode = "valid"
        if mode == "other":
            g = random_gate(rng, N, OTHERS, i)
        elif mode == "raw3" and N >= 3:           # an unknown gate on three qubits
            g = RG("FOO3", rng.sample(range(N), 3), [], raw=True)
        elif mode == "rawsub" and N >= 3:         # a three-qubit gate whose name is a substring of "CNOT"
            qs = rng.sample(range(N), 3)
            g = RG(rng.choice(["C", "NOT", "CN", "FOO"]), qs[:1], qs[1:], raw=True)
        elif mode == "rzx" and N >= 2:            # native to SCQubits, known to no rule
            g = RG("RZX", rng.sample(range(N), 2), [], raw=True)
        elif mode == "raw-noctl" and N >= 2:
            g = RG(rng.choice(["CNOT", "CSIGN"]), rng.sample(range(N), 2), [], raw=True)
        elif mode == "raw-short":
            g = RG(rng.choice(["SWAP", "ISWAP", "SQRTISWAP"]), [rng.randrange(N)], [], raw=True)
        elif mode == "swapalpha" and N >= 2:
            g = RG("SWAPalpha", rng.sample(range(N), 2), [], sym=i, val=0.3125)
        else:
            g = random_gate(rng, N, RESOLVABLE, i)
        if g is not None:
            gs.append(g)
    return dev, N, gs


# ----------------------------------------------------------------------------------------
# systematic multi-gate circuits and histories

CTL2 = ("CNOT", "CSIGN")
SWP2 = ("SWAP", "ISWAP", "SQRTISWAP")


def p2(name, a, b, idx=0):
    """two-qubit library gate on the ordered pair (a, b): control a / target b, resp. targets [a, b]"""
    return placed(name, (b, a) if name in CTL2 else (a, b), idx)


def systematic_multi(N):
    """(kind, gate list) for every pair a < b of an N-qubit register: circuits that use the pair more than once"""
    for a, b in itertools.combinations(range(N), 2):
        ors = ((a, b), (b, a))
        for n1 in CTL2:
            for n2 in CTL2:
                for o1 in ors:
                    for o2 in ors:
                        kind = ("both-orientations" if o1 != o2 else "repeat") + ("" if n1 == n2 else "+names")
                        yield kind, [p2(n1, *o1), p2(n2, *o2)]
        for o1 in ors:
            o2 = (o1[1], o1[0])
            yield "both-orientations+between", [p2("CNOT", *o1), placed("RX", (a,), 1), p2("CNOT", *o2)]
            yield "both-orientations+thrice", [p2("CNOT", *o1), p2("CNOT", *o2), p2("CNOT", *o1)]
        for k, n in enumerate(SWP2):
            yield "repeat", [p2(n, a, b), p2(n, a, b)]
            yield "repeat+reversed-targets", [p2(n, a, b), p2(n, b, a)]
            yield "same-pair+names", [p2(n, a, b), p2(SWP2[(k + 1) % len(SWP2)], b, a)]
        for c in CTL2:
            for o in ors:
                for n in SWP2:
                    yield "exchange-before-controlled", [p2(n, a, b), p2(c, *o)]
                    yield "controlled-before-exchange", [p2(c, *o), p2(n, b, a)]
        # RZX (native to SCQubits, refused elsewhere): both target orders, next to other gates of the pair
        for o1 in ors:
            o2 = (o1[1], o1[0])
            yield "rzx-both-orders", [p2("RZX", *o1), p2("RZX", *o2, idx=1)]
            yield "rzx+controlled", [p2("CNOT", *o1), p2("RZX", *o2, idx=1), p2("CNOT", *o2)]
            yield "rzx+exchange", [p2("SWAP", a, b), p2("RZX", *o1, idx=1)]
        # a three-qubit gate after a CNOT on two of its qubits (its decomposition contains both orientations)
        for c in range(N):
            if c in (a, b):
                continue
            yield "three-qubit-after-pair", [p2("CNOT", a, b), placed("TOFFOLI", (c, a, b))]
            yield "three-qubit-after-pair", [p2("CNOT", b, a), placed("FREDKIN", (a, b, c))]


def systematic_histories(N):
    """(kind, [(dev, N, gates), ...]): transpile calls made one after the other in one process"""
    chains = ["LinearSpinChain", "SCQubits", "CircularSpinChain"]
    for a, b in itertools.combinations(range(N), 2):
        ab, ba = [p2("CNOT", a, b)], [p2("CNOT", b, a)]
        for dev in chains:
            yield "orientations", [(dev, N, ab), (dev, N, ba), (dev, N, ab)]
        yield "devices", [("LinearSpinChain", N, ab), ("SCQubits", N, ba), ("CircularSpinChain", N, ab),
                          ("LinearSpinChain", N, ba), ("DispersiveCavityQED", N, ba)]
        yield "devices", [("SCQubits", N, ba), ("LinearSpinChain", N, ab), ("CircularSpinChain", N, ba)]
        if N < 5:
            yield "sizes", [("CircularSpinChain", N, ab), ("CircularSpinChain", N + 1, ab), ("CircularSpinChain", N + 1, ba),
                            ("CircularSpinChain", N, ba)]
        two = [p2("CNOT", a, b), p2("ISWAP", b, a)]
        yield "same-object-twice", [("CircularSpinChain", N, two), ("CircularSpinChain", N, two, True),
                                    ("LinearSpinChain", N, two)]
        yield "rzx", [("SCQubits", N, [p2("RZX", a, b)]), ("SCQubits", N, [p2("RZX", b, a)]),
                      ("LinearSpinChain", N, [p2("RZX", a, b)]), ("SCQubits", N, [p2("CNOT", a, b), p2("RZX", b, a, idx=1)])]
        yield "names", [("LinearSpinChain", N, [p2("CSIGN", a, b)]), ("LinearSpinChain", N, ab),
                        ("LinearSpinChain", N, [p2("SWAP", a, b)]), ("LinearSpinChain", N, [p2("ISWAP", b, a)])]


def form_cases(full=True):
    """(device, N, gates, kind): the OBJECT FORM of a gate - the library class instance, a generic Gate object carrying
    the name, the gate object of another circuit - for every gate kind (one-, two-, three-qubit), every placement of the
    multi-qubit gates; and circuits mixing the forms"""
    one = [n for n in RESOLVABLE if decomp.SHAPE[n] == (0, 1)]
    two = ["CNOT", "CSIGN", "SWAP", "ISWAP", "SQRTISWAP"]
    three = ["TOFFOLI", "FREDKIN"]
    for dev in DEVS:
        for N in ((3, 4) if full else (3, 4)):
            if not buildable(dev, N):
                continue
            for form in FORMS[1:]:
                for name in three:
                    for qs in itertools.permutations(range(N), 3):
                        if not full and qs not in ((2, 0, 1), (0, 2, 1), (1, 0, 2)):
                            continue
                        g = placed(name, qs)
                        yield dev, N, [RG(g.name, g.t, g.c, form=form)], "form=" + form + "/3q"
                if not full:
                    continue
                for name in two:
                    for qs in itertools.permutations(range(N), 2):
                        g = placed(name, qs)
                        yield dev, N, [RG(g.name, g.t, g.c, form=form)], "form=" + form + "/2q"
                for name in one:
                    g = placed(name, (N - 1,))
                    yield dev, N, [RG(g.name, g.t, g.c, sym=g.sym, val=g.val, form=form)], "form=" + form + "/1q"
            if full:
                # the forms mixed in one circuit
                a, b, c = 0, N - 1, 1
                yield dev, N, [RG("TOFFOLI", [b], [a, c], form="generic"), RG("CNOT", [a], [b]),
                               RG("FREDKIN", [a, b], [c], form="class")], "form=mixed"
                yield dev, N, [RG("CNOT", [b], [a], form="generic"), RG("TOFFOLI", [c], [a, b], form="moved"),
                               RG("ISWAP", [a, b], [], form="class")], "form=mixed"


def size_cases():
    """(device, qc.N, gates, processor size): circuits on fewer qubits than the processor, and on one more"""
    for dev in DEVS:
        for M in range(2, 6):
            for N in list(range(2, M)) + [M + 1]:
                for name in ("CNOT", "CSIGN", "SWAP", "ISWAP") + (("RZX",) if dev == "SCQubits" else ()):
                    for a, b in itertools.permutations(range(N), 2):
                        yield dev, N, [p2(name, a, b)], M
                if N >= 3:
                    yield dev, N, [placed("TOFFOLI", (N - 1, 0, 1))], M
                    yield dev, N, [p2("CNOT", 0, N - 1), placed("SNOT", (1,)), p2("ISWAP", N - 1, 0)], M


def ohist(dev, N, gates, steps, M=None):
    o = {"dev": dev, "N": N, "gates": gates, "steps": steps}
    if M is not None and M != N:
        o["M"] = M
    return {"object_history": o}


T, L, R, MAP = {"call": "transpile"}, {"call": "load"}, {"call": "run_state"}, {"call": "map"}


def ed(*e):
    return {"edit": list(e)}


def object_histories(full=True):
    """(kind, witness): ONE processor and ONE circuit object; calls of transpile / load_circuit / run_state with in-place
    edits of the circuit between them - edits that keep the number of gates (angle, qubits, roles, a gate replaced at
    its position) and edits that change it"""
    for dev in DEVS:
        # the parameter sweep of a three-gate circuit, then structural edits
        base = [["RX", [0], [], 0.3], ["CNOT", [2], [0], None], ["RY", [1], [], 0.2]]
        yield "angle", ohist(dev, 3, base, [T, ed("arg", 0, 0.9), T, ed("arg", 2, -1.3), T, T])
        yield "roles", ohist(dev, 3, base, [T, ed("swap_roles", 1), T, ed("targets", 1, [1]), T])
        yield "replace", ohist(dev, 3, base, [T, ed("replace", 1, ["CNOT", [0], [2], None]), T,
                                              ed("replace", 0, ["RZ", [0], [], 0.3]), T,
                                              ed("replace", 2, ["ISWAP", [0, 2], [], None]), T])
        yield "count", ohist(dev, 3, base, [T, ed("append", ["SNOT", [1], [], None]), T, ed("remove", 0), T,
                                            ed("append", ["X", [0], [], None]), T])
        yield "load", ohist(dev, 3, base, [L, ed("arg", 0, 0.9), L, ed("swap_roles", 1), L, T])
        yield "mixed", ohist(dev, 3, base, [T, ed("arg", 0, 1.7), L, ed("replace", 1, ["CSIGN", [2], [1], None]), T,
                                            ed("targets", 2, [0]), L])
        yield "run", ohist(dev, 2, [["RX", [0], [], 0.3], ["ISWAP", [0, 1], [], None]],
                           [R, ed("arg", 0, 2.1), R, ed("targets", 0, [1]), T])
        # the circuit RETURNED by topology_map: handed to transpile (with a three-qubit gate in it), extended through its
        # gate list and transpiled
        tof = [["TOFFOLI", [2], [0, 1], None]]
        yield "mapped", ohist(dev, 3, tof, [MAP, T])
        yield "mapped", ohist(dev, 3, base, [MAP, ed("extend", [["CNOT", [0], [2], None]]), T, MAP, T])
        yield "mapped", ohist(dev, 4, [["ISWAP", [0, 3], [], None]],
                              [MAP, ed("insert", 0, ["CNOT", [3], [0], None]), T, ed("copy_extend", [["FREDKIN", [0, 2], [1], None]]), T])
        yield "mapped", ohist(dev, 3, base, [MAP, ed("slice", 0, 1, [["SWAP", [0, 2], [], None]]), T,
                                             ed("set", 0, ["CSIGN", [2], [0], None]), L])
        if not full:
            continue
        # one two-qubit gate on every pair: the roles / the pair changed in place
        for N in (2, 3, 4):
            for a, b in itertools.permutations(range(N), 2):
                c = [x for x in range(N) if x not in (a, b)]
                steps = [T, ed("swap_roles", 0), T]
                if c:
                    steps += [ed("targets", 0, [c[0]]), T]
                yield "pair", ohist(dev, N, [["CNOT", [b], [a], None]], steps)
                yield "pair", ohist(dev, N, [["ISWAP", [a, b], [], None], ["RZ", [a], [], 0.4]],
                                    [T, ed("replace", 0, ["CNOT", [b], [a], None]), T, ed("arg", 1, 0.8), T])
        # a smaller circuit on a larger processor
        yield "sizes", ohist(dev, 3, base, [T, ed("swap_roles", 1), T, ed("arg", 0, 0.5), L], M=4)


def random_object_history(rng):
    dev = rng.choice(DEVS)
    N = rng.randint(2, 4)
    names = ["RX", "RY", "RZ", "SNOT", "X", "CNOT", "CSIGN", "ISWAP", "SWAP"]

    def gate():
        while True:
            n = rng.choice(names)
            nc, nt = decomp.SHAPE[n]
            if nc + nt <= N:
                qs = rng.sample(range(N), nc + nt)
                return [n, qs[:nt], qs[nt:], rng.choice([0.3, 1.1, -0.7, 2.5]) if n in PARAM else None]

    gates = [gate() for _ in range(rng.randint(1, 4))]
    cur = [list(g) for g in gates]
    steps = [rng.choice([T, T, L])]
    for _ in range(rng.randint(1, 4)):
        i = rng.randrange(len(cur)) if cur else None
        kind = rng.choice(["arg", "replace", "swap_roles", "append", "remove", "targets"])
        if kind == "arg" and i is not None and cur[i][3] is not None:
            v = rng.choice([0.2, 0.9, -1.4, 3.0])
            steps.append(ed("arg", i, v))
            cur[i][3] = v
        elif kind == "replace" and i is not None:
            g = gate()
            steps.append(ed("replace", i, g))
            cur[i] = list(g)
        elif kind == "swap_roles" and i is not None and len(cur[i][1]) == 1 and len(cur[i][2]) == 1:
            steps.append(ed("swap_roles", i))
            cur[i][1], cur[i][2] = cur[i][2], cur[i][1]
        elif kind == "append":
            g = gate()
            steps.append(ed("append", g))
            cur.append(list(g))
        elif kind == "remove" and len(cur) > 1:
            steps.append(ed("remove", i))
            cur.pop(i)
        elif kind == "targets" and i is not None and len(cur[i][1]) == 1 and not cur[i][2]:
            q = rng.randrange(N)
            steps.append(ed("targets", i, [q]))
            cur[i][1] = [q]
        else:
            continue
        steps.append(rng.choice([T, T, T, L]))
    return ohist(dev, N, gates, steps)


def calls_of(w):
    """the (device, sizes, gates) records of a witness of any kind"""
    if "object_history" in w:
        o = w["object_history"]
        gs = list(o["gates"]) + [e["edit"][-1] for e in o["steps"] if "edit" in e and e["edit"][0] in ("replace", "append")]
        c = {"dev": o["dev"], "N": o["N"], "gates": gs}
        if "M" in o:
            c["M"] = o["M"]
        return [c]
    return w["history"] if "history" in w else [w]


def hwit(calls):
    out = []
    for c in calls:
        w = wit(c[0], c[1], c[2])
        if len(c) > 3 and c[3]:
            w["reuse"] = True
        out.append(w)
    return {"history": out}


def fresh_fails(w, timeout=300):
    """check_property(w) in a FRESH interpreter (same tree, nothing transpiled before) -> (fails | None, detail)"""
    return _fresh.fresh_fails("c13", w, timeout)


def reproducible(w, ncalls, budget=26):
    """a witness that failed in this process -> one that fails when replayed from scratch (see props/_fresh.py);
    only calls inside the property's class are taken from the call log"""
    if "object_history" in w:
        return shrink_object_history(w)       # self-contained: its own processor and circuit object
    own = w["history"] if "history" in w else [w]
    strip = lambda c: {k: v for k, v in c.items() if k != "reuse"}
    log = CALLS[:ncalls]
    if [strip(c) for c in log[len(log) - len(own):]] == [strip(c) for c in own]:
        log = log[:len(log) - len(own)]
    log = [c for c in log if in_class(c)]
    keys = {(c["dev"], c["N"]) for c in own}
    return _fresh.reproducible("c13", w, log, lambda c: (c["dev"], c["N"]) in keys, budget)


class C13(PropertyCheck):
    id = "C13"
    lean_modules = ["QipVerif.Props.C13"]
    drivers = ["drv_transpile"]
    theorems = ["QipVerif.C13." + t for t in (
        "source_is_repaired", "native_valid", "rule_stays_on_qubits", "rule_shapes", "resolve_stays_on_qubits",
        "transpile_native", "transpile_coupled", "transpile_coupled_partial", "transpile_refuses", "transpile_accepts", "routing_stage_den",
        "transpile_den", "transpile_den_partial",
        "C13_counterexample_toffoli_linear", "C13_counterexample_toffoli_ring", "C13_counterexample_fredkin_scqubits",
        "toffoli_repaired",
        "size_tie", "transpileOn_eq", "smallSpec_valid", "transpile_coupled_device", "transpile_refuses_large",
        "transpile_den_device", "transpile_coupled_device_partial", "C13_counterexample_small_circuit_on_ring",
        "C13_counterexample_large_circuit",
        "transpile_is_source", "transpile_coupled_rzx", "C13_counterexample_rzx_unrouted")]
    technique = ("Lean 4: composition of the routing model (C07) and the decomposition model (C03) exactly as "
                 "ModelProcessor.transpile composes the code; device tables and the shape of transpile regenerated from the "
                 "source with ast; theorems for all register sizes and all circuits by induction through the stages; "
                 "decidable facts about the regenerated tables by kernel evaluation; gate-for-gate correspondence with "
                 "processor.transpile for the four devices, incl. systematic multi-gate circuits, histories of calls in one "
                 "process and circuits whose register differs from the processor's")
    level_text = ("Theorems about the model of ModelProcessor.transpile AFTER fixes/C13-1.patch (gates on more than two qubits "
                  "are decomposed before routing), for every register size N, the four devices and every circuit of library "
                  "gates on distinct in-range qubits: the output contains only native gates and GLOBALPHASE/IDLE markers; any "
                  "two distinct qubits of any output gate are directly coupled (neighbours on the open chain, neighbours or "
                  "the wrap pair on the ring, any pair through the cavity); a circuit is refused iff it contains a gate whose name "
                  "the native stage refuses (transpile_refuses / transpile_accepts); the unitary over C (denG: ordered product of the embedded "
                  "library matrices, global phase included) is preserved for every valuation of the symbolic angles - the "
                  "decomposition stages by C03.resolve_den_partial, the routing stage by C07's toChain_den_C transported along "
                  "the conversion of gate types (routing_stage_den); no hypothesis about matrices is left. The code as found "
                  "violates the coupling clause for three-qubit gates (counter-examples decided by the kernel and confirmed on "
                  "the real code); for circuits without them the clause is proved for the code as found as well "
                  "(transpile_coupled_partial). The circuit's register against the processor's (transpileD; flags regenerated, "
                  "size_tie): with fixes/C13-2 a circuit on more qubits than the processor is refused (transpile_refuses_large) "
                  "and for a circuit on N <= M qubits every output gate acts on qubits the DEVICE with M qubits couples "
                  "(transpile_coupled_device), same unitary (transpile_den_device); for the code as found this holds when N = M "
                  "or N < M and the device is not the ring (transpile_coupled_device_partial), counter-examples "
                  "C13_counterexample_small_circuit_on_ring / _large_circuit confirmed on the real code. RZX (native to "
                  "SCQubits, no decomposition rule): the router of the source is regenerated (routeRzx, transpileVR); a circuit "
                  "of the class is transpiled identically by both routers (transpile_is_source), with fixes/C13-3 and RZX "
                  "admitted to the class every output gate acts on coupled qubits (transpile_coupled_rzx), the router as found "
                  "returns RZX[0,2] on SCQubits(3) unrouted (C13_counterexample_rzx_unrouted, confirmed); native-gate, refusal and "
                  "unitary clauses for circuits WITH RZX are covered by the correspondence and the oracle only (the shared "
                  "denotation denG has no RZX; C07 proves the routing of RZX over C). Model and code are "
                  "compared gate for gate: every placement of every library gate on 1-5 qubits on each device, systematic "
                  "circuits that use a pair of qubits more than once (every pair, every device), histories of 3-5 transpile "
                  "calls in one process, circuits with qc.N != num_qubits, random circuits, malformed circuits; fields of the "
                  "emitted gate objects (control_value, classical condition, label vs angle) compared.")
    level_note = ("Trusted: Lean kernel (propext, Classical.choice, Quot.sound); py/translate/devices.py (ast extraction of "
                  "native_gates / topology_map / transpile, cross-checked against the live objects every run) and "
                  "py/translate/decomp.py; the harness py/props/c13.py. transpile_den composes C03.resolve_den_partial and "
                  "C07's toChain_den_C; side condition phOK (a PHASEGATE with a FIXED angle is a multiple of pi/4, inherited "
                  "from C03's exact angle representation).")
    trusted_base = [
        "Lean 4.33 kernel; axioms propext, Classical.choice, Quot.sound; decide / decide +kernel for table facts and counter-examples",
        "py/translate/devices.py (ast: native_gates literals, topology_map setup strings incl. the branch for smaller "
        "circuits, the recognised shapes of transpile: with/without pre-decomposition, with/without size check), "
        "cross-checked against processor.native_gates / processor.topology_map / a live size probe every run",
        "py/translate/decomp.py (rule templates, as for C03)",
        "the models of C07 (Model/Route.lean) and C03 (Model/Decompose.lean), tied to the code by their own correspondences "
        "and again here through the composed output",
        "py/props/c13.py harness",
    ]
    assumptions = ["circuits consist of gates without classical controls and contain no measurement (resolve_gates refuses those)",
                   "while the source has no size check (fixes/C13-2 not applied): the circuit has the processor's size, or is "
                   "smaller and the device is not the ring (recorded finding otherwise)",
                   "transpile_den: a PHASEGATE with a fixed angle is a multiple of pi/4 (C03's phOK); symbolic angles unrestricted"]
    rule = ("case = (device, register size of the circuit[, of the processor], gate list with placements and exact/symbolic "
            "angles) or a history of such calls in one process; distinct by canonical JSON; non-trivial = the circuit is "
            "rewritten or refused (output differs from the input list)")

    # ---------------------------------------------------------------------------------
    def regenerate(self, ctx):
        decomp.regenerate(ctx.seed)                 # Gen/DecompTables.lean, Gen/DecompVariant.lean (shared with C03)
        ctx.log("source shape: resolve_gates reads a string basis as %s (fixes/C03-3 %s): the model of "
                "_decompose_multi_qubit_gates resolves in %s" % (
                    ("one gate name", "applied", "the list [CNOT]") if decomp.string_basis_exact()
                    else ("a text searched for substrings", "not applied", "the string \"CNOT\"")))
        self.devs, (self.pre, self.guard, self.rz), _ = devices.regenerate()
        ctx.log("source shape: RZX is %s by the router (fixes/C13-3 %s)" % (
            ("routed", "applied") if self.rz else ("not known", "not applied")))
        ctx.log("source shape: transpile %s a circuit on more qubits than the processor; CircularSpinChain routes a "
                "smaller circuit on the %s chain (fixes/C13-2 %s)" % (
                    "refuses" if self.guard else "does not refuse", self.devs["circularSpinChain"][3],
                    "applied" if self.guard else "not applied"))
        return ["DecompTables.lean", "DecompVariant.lean", "DeviceTables.lean"]

    # ---------------------------------------------------------------------------------
    def _tables_check(self, ctx, res):
        """the ast-extracted tables against the live objects"""
        from qutip_qip.circuit import QubitCircuit
        from qutip_qip.transpiler.chain import to_chain_structure
        ans = ctx.driver("drv_transpile").run(["tables"])[0].split()
        model = dict(a.split("=", 1) for a in ans)

        def live_topo(p, n):
            qc = QubitCircuit(n)
            qc.add_gate("CNOT", controls=0, targets=3)
            qc.add_gate("ISWAP", targets=[3, 1])
            try:
                got = [(g.name, aslist(g.targets), aslist(g.controls)) for g in p.topology_map(qc).gates]
            except NotImplementedError:
                return "none"
            for s in ("linear", "circular", "ring"):
                ref = [(g.name, aslist(g.targets), aslist(g.controls)) for g in to_chain_structure(qc, s).gates]
                if ref == got:
                    return s if s != "ring" else "other"
            return "?"

        # the size check of transpile
        big = QubitCircuit(3)
        big.add_gate("X", targets=[2])
        try:
            processor("LinearSpinChain", 2).transpile(big)
            live_guard = "0"
        except ValueError:
            live_guard = "1"
        except Exception as e:
            live_guard = type(e).__name__
        inp = {"tables": "size check of transpile"}
        res.case(inp, nontrivial=True, tags=["tables"])
        if model.get("guard") != live_guard:
            res.disagree(inp, model.get("guard"), live_guard, "regenerated flag sizeGuard vs live transpile",
                         {"dev": "LinearSpinChain", "N": 3, "M": 2, "gates": [["CNOT", [2], [0], None]]})
        # does the router route RZX
        qz = QubitCircuit(3)
        qz.add_gate("RZX", targets=[0, 2], arg_value=0.5)
        live_rzx = "1" if len(to_chain_structure(qz, "linear").gates) > 1 else "0"
        inp = {"tables": "router routes RZX"}
        res.case(inp, nontrivial=True, tags=["tables"])
        if model.get("rzx") != live_rzx:
            res.disagree(inp, model.get("rzx"), live_rzx, "regenerated flag routeRzx vs live to_chain_structure",
                         {"dev": "SCQubits", "N": 3, "gates": [["RZX", [0, 2], [], 0.5]]})
        for dev in DEVS:
            p = processor(dev, 4)
            nat = "None" if p.native_gates is None else ",".join(p.native_gates)
            live = f"{nat}:{live_topo(p, 4)}:{live_topo(processor(dev, 5), 4)}"
            inp = {"tables": dev}
            res.case(inp, nontrivial=True, tags=["tables"])
            if model.get(dev) != live:
                res.disagree(inp, model.get(dev), live, "regenerated device table vs live processor object",
                             {"dev": dev, "N": 4, "gates": [["TOFFOLI", [2], [0, 1], None]]})

    @staticmethod
    def _line(dev, N, gs, M=None):
        m = "" if M is None else f" m={M}"
        return f"transpile dev={dev} n={N}{m} gates={';'.join(g.enc() for g in gs) if gs else '-'}"

    def _one_call(self, dev, N, gs, o, qc=None, M=None):
        """model answer `o` against one transpile call -> (model verdict, model gates, input circuit, None | (model, impl, what))"""
        symvals = {g.sym: g.val for g in gs if g.sym is not None}
        st, mg = parse_model(o, symvals)
        st = MODEL_ERR.get(st.strip(), st.strip())
        if qc is None:
            try:
                qc = raw_circuit(N, gs)
            except Exception:
                return st, mg, None, None
        before = [(g.name, aslist(g.targets), aslist(g.controls), g.arg_value) for g in qc.gates]
        ist, r, qc = impl_transpile(dev, N, gs, qc, M)
        bad = None
        if st != ist:
            bad = (st, ist, "verdict of transpile")
        elif st == "ok" and not same_gates13(mg, r.gates):
            bad = ([list(x) for x in mg][:40],
                   [[g.name, aslist(g.targets), aslist(g.controls), g.arg_value] for g in r.gates][:40],
                   "transpiled gate list")
        elif st == "ok":
            for g in r.gates:
                fd = field_defect(g)
                if fd:
                    bad = ("control_value None or all-ones, no classical condition, label = angle", fd,
                           "fields of an emitted gate object")
                    break
        if bad is None and before != [
                (g.name, aslist(g.targets), aslist(g.controls), g.arg_value) for g in qc.gates]:
            bad = ("input circuit unchanged", "input circuit changed", "transpile changed its input circuit")
        return st, mg, qc, bad

    def _run_cases(self, ctx, res, cases, kind, tag_of=None):
        """cases: (device, qc.N, gates[, processor size])"""
        cases = [c if len(c) == 4 else (c[0], c[1], c[2], None) for c in cases]
        lines = [self._line(dev, N, gs, M) for (dev, N, gs, M) in cases]
        outs = ctx.driver("drv_transpile").run(lines)
        for k, ((dev, N, gs, M), o) in enumerate(zip(cases, outs)):
            st, mg, qc, bad = self._one_call(dev, N, gs, o, None, M)
            ncalls = len(CALLS)
            inp = {"dev": dev, "N": N, "gates": [g.js() + ([getattr(g, "form", None) or "generic"] if (
                getattr(g, "raw", False) or getattr(g, "form", None) not in (None, "name")) else []) for g in gs]}
            if M is not None:
                inp["M"] = M
            if qc is None:
                continue
            rewritten = st != "ok" or [(n, t, c) for (n, t, c, _) in mg] != [(g.name, g.t, g.c) for g in gs]
            nq = max([len(g.t) + len(g.c) for g in gs] + [0])
            res.case(inp, nontrivial=rewritten,
                     tags=[f"dev={dev}", f"N={N}", f"verdict={st}", f"len={min(len(gs), 6)}", f"maxarity={nq}", kind]
                     + ([] if tag_of is None else [tag_of[k]]))
            if bad is not None:
                w, what = wit(dev, N, gs, M), bad[2]
                if len(res.disagreements) < 3 and check_property(w)[0]:
                    w2 = reproducible(w, len(CALLS))
                    if w2 is not w:
                        what += (f"; fails only after earlier calls of the same process: witness = the shortest failing "
                                 f"call sequence ({len(w2['history'])} calls)")
                    w = w2
                res.disagree(inp, bad[0], bad[1], what, w)

    def _run_object_histories(self, ctx, res, hists):
        """hists: [(kind, witness)] - one NEW processor and one circuit object per witness; the model is stateless: every
        transpile call is compared with the model's answer for the content the circuit has at that moment, every
        load_circuit / run_state with a fresh processor on a deep copy"""
        plans, lines = [], []
        for kind, w in hists:
            o = w["object_history"]
            dev, N, M = o["dev"], o["N"], o.get("M")
            try:
                sim = raw_circuit(N, gates_of({"gates": o["gates"]}))     # the contents, edit by edit
                contents = []
                for stp in o["steps"]:
                    if "edit" in stp:
                        sim = apply_edit(sim, stp["edit"])
                    elif stp["call"] == "map":
                        try:
                            sim = new_processor(dev, N if M is None else M).topology_map(sim)
                        except NotImplementedError:
                            pass
                    elif stp["call"] == "transpile":
                        gs = gates_of({"gates": content_of(sim)})
                        contents.append(gs)
                        lines.append(self._line(dev, N, gs, M))
            except Exception:
                continue
            plans.append((kind, w, contents))
        outs = ctx.driver("drv_transpile").run(lines)
        pos = 0
        for kind, w, contents in plans:
            o = w["object_history"]
            dev, N, M = o["dev"], o["N"], o.get("M")
            proc = new_processor(dev, N if M is None else M)
            native = list(proc.native_gates)
            qc = raw_circuit(N, gates_of({"gates": o["gates"]}))
            first_bad, k_t, rewritten = None, 0, False
            for k, stp in enumerate(o["steps"]):
                if "edit" in stp:
                    qc = apply_edit(qc, stp["edit"])
                    continue
                if stp["call"] == "map":
                    try:
                        qc = proc.topology_map(qc)
                    except NotImplementedError:
                        pass
                    continue
                if stp["call"] == "transpile":
                    gs, ans = contents[k_t], outs[pos]
                    k_t += 1
                    pos += 1
                    symvals = {g.sym: g.val for g in gs if g.sym is not None}
                    st, mg = parse_model(ans, symvals)
                    st = MODEL_ERR.get(st.strip(), st.strip())
                    ist, r, _ = impl_transpile(dev, N, gs, qc, M, proc)
                    rewritten = rewritten or st != "ok" or len(mg) != len(gs)
                    bad = None
                    if st != ist:
                        bad = (st, ist, "verdict of transpile")
                    elif st == "ok" and not same_gates13(mg, r.gates):
                        bad = ([list(x) for x in mg][:30],
                               [[g.name, aslist(g.targets), aslist(g.controls), g.arg_value] for g in r.gates][:30],
                               "transpiled gate list")
                else:
                    bad = None
                    if all(expressible(dev, g[0], native) for g in content_of(qc)):
                        d = same_as_fresh(dev, N if M is None else M, proc, qc, stp["call"])
                        if d:
                            bad = ("what a fresh processor compiles for the circuit as it is now", d, stp["call"])
                if bad is not None and first_bad is None:
                    wk = json.loads(json.dumps(w))
                    wk["object_history"]["steps"] = o["steps"][:k + 1]
                    first_bad = (bad[0], bad[1], bad[2] + f" (step {k + 1} of {len(o['steps'])}, one processor, one "
                                 "circuit object edited in place)", wk)
            res.case(w, nontrivial=True, tags=["object-history", "object-history=" + kind,
                                                f"dev={o['dev']}", f"steps={len(o['steps'])}"])
            if first_bad is not None:
                res.disagree(w, first_bad[0], first_bad[1], first_bad[2], first_bad[3])

    def _run_histories(self, ctx, res, hists):
        """hists: [(kind, [(dev, N, gates[, reuse]), ...])] - the calls of one history are made consecutively"""
        lines = [self._line(c[0], c[1], c[2]) for _, h in hists for c in h]
        outs = ctx.driver("drv_transpile").run(lines)
        pos = 0
        for kind, h in hists:
            prev, first_bad, rewritten = None, None, False
            for k, c in enumerate(h):
                o = outs[pos]
                pos += 1
                reuse = len(c) > 3 and c[3]
                st, mg, qc, bad = self._one_call(c[0], c[1], c[2], o, prev if reuse else None)
                prev = qc
                rewritten = rewritten or st != "ok" or len(mg) != len(c[2])
                if bad is not None and first_bad is None:
                    w, what = hwit(h[:k + 1]), bad[2] + f" (call {k + 1} of {len(h)}: {c[0]}({c[1]}))"
                    if len(res.disagreements) < 3 and check_property(w)[0]:
                        w = reproducible(w, len(CALLS))
                    first_bad = (bad[0], bad[1], what, w)
            inp = {"history": [[c[0], c[1], [g.js() for g in c[2]]] + ([1] if len(c) > 3 and c[3] else []) for c in h]}
            res.case(inp, nontrivial=rewritten, tags=["history", "history=" + kind, f"calls={len(h)}"])
            if first_bad is not None:
                res.disagree(inp, first_bad[0], first_bad[1], first_bad[2], first_bad[3])

    def correspondence(self, ctx, res):
        rng = ctx.rng
        self._tables_check(ctx, res)
        # exhaustive: every placement of every library gate, 1-5 qubits, on every device
        cases = []
        for dev in DEVS:
            for N in range(1, 6):
                if not buildable(dev, N):
                    continue
                # + the alias names of the gate classes: H has the rule of SNOT (Gen.ruleAlias, the driver reads it as SNOT),
                # CX / iSWAP / SWAPALPHA have no rule and are names the model does not know either
                for name in RESOLVABLE + OTHERS + MODEL_EXTRA + list(ALIASES) + ["RZX"]:
                    nc, nt = XSHAPE[name]
                    if nc + nt > N:
                        continue
                    for qs in itertools.permutations(range(N), nc + nt):
                        cases.append((dev, N, [placed(name, qs)]))
        self._run_cases(ctx, res, cases, "single")
        res.exhaustive = True
        res.notes.append(f"exhaustive: every placement (ordered, any distance) of every library gate incl. TOFFOLI/FREDKIN on "
                         f"1-5 qubits x 4 devices ({len(cases)} cases); regenerated device tables compared with the live "
                         f"processor objects; then seeded random circuits and a malformed stream")
        # systematic multi-gate circuits: every pair of every register on every device
        cases, kinds = [], []
        for dev in DEVS:
            for N in range(2, 6):
                if not buildable(dev, N):
                    continue
                for kind, gs in systematic_multi(N):
                    cases.append((dev, N, gs))
                    kinds.append("multi=" + kind)
        self._run_cases(ctx, res, cases, "multi", kinds)
        hists = [(kind, h) for N in range(2, 6) for kind, h in systematic_histories(N)]
        self._run_histories(ctx, res, hists)
        # one processor, one circuit object, in-place edits between the calls
        oh = list(object_histories()) + [("random", random_object_history(rng)) for _ in range(300 if ctx.thorough else 60)]
        self._run_object_histories(ctx, res, oh)
        res.notes.append(f"object histories: {len(oh)} sequences of transpile / load_circuit / run_state on ONE processor and ONE "
                         "circuit object with in-place edits between the calls (angle, qubits, roles, a gate replaced at its "
                         "position, gates appended / removed); transpile against the stateless model on the current content, "
                         "load_circuit / run_state against a fresh processor on a deep copy")
        # the object form of the gates
        fc = list(form_cases())
        self._run_cases(ctx, res, [c[:3] for c in fc], "forms", [c[3] for c in fc])
        res.notes.append(f"object forms: {len(fc)} circuits whose gates are library class instances / generic Gate objects "
                         "carrying the name / gate objects of another circuit (every placement of TOFFOLI, FREDKIN and the "
                         "two-qubit gates on 3 and 4 qubits, one-qubit gates, mixed circuits) x 4 devices; the model is "
                         "form-independent")
        # the circuit's register against the processor's
        sz = list(size_cases())
        self._run_cases(ctx, res, sz, "sizes", ["sizes=" + ("smaller" if c[1] < c[3] else "larger") for c in sz])
        res.notes.append(f"sizes: {len(sz)} circuits with qc.N != processor.num_qubits (every placement of CNOT/CSIGN/SWAP/"
                         "ISWAP on 2..M-1 and M+1 qubits, M = 2..5, 4 devices); source shape: size check "
                         + ("present" if getattr(self, "guard", False) else "absent"))
        res.notes.append(f"systematic: {len(cases)} circuits that use one pair of qubits more than once (every pair of every "
                         f"register 2-5 qubits x 4 devices: both orientations, repeats, other names, exchange before/after "
                         f"controlled, a three-qubit gate after a CNOT on two of its qubits); {len(hists)} histories of 3-5 "
                         f"transpile calls in one process (orientations, devices sharing a setup, sizes, same object twice); "
                         f"fields of the emitted gate objects (control_value, classical condition, label vs angle) compared")
        if ctx.thorough:
            # every ordered pair of placed resolvable gates on 3 qubits, on every device
            singles = []
            for name in RESOLVABLE:
                nc, nt = decomp.SHAPE[name]
                for qs in itertools.permutations(range(3), nc + nt):
                    singles.append((name, qs))
            cases = []
            for dev in DEVS:
                for (n1, q1) in singles:
                    for (n2, q2) in singles:
                        cases.append((dev, 3, [placed(n1, q1, 0), placed(n2, q2, 1)]))
            self._run_cases(ctx, res, cases, "pair")
            res.notes.append(f"thorough: every ordered pair of placed resolvable gates on 3 qubits x 4 devices ({len(cases)} cases)")
        # random circuits
        n_rand = 20000 if ctx.thorough else 700
        cases = []
        for _ in range(n_rand):
            dev = rng.choice(DEVS)
            N = rng.randint(1 if buildable(dev, 1) else 2, 5)
            L = rng.randint(0, 8)
            r = rng.random()
            names = RESOLVABLE if r < 0.7 else (["TOFFOLI", "FREDKIN", "CNOT", "SWAP", "ISWAP", "RX", "SNOT"] if r < 0.9
                                                else RESOLVABLE + OTHERS)
            gs = [g for g in (random_gate(rng, N, names, i) for i in range(L)) if g is not None]
            cases.append((dev, N, gs))
        self._run_cases(ctx, res, cases, "random")
        # malformed stream
        cases = [malformed_case(rng) for _ in range(1500 if ctx.thorough else 250)]
        self._run_cases(ctx, res, cases, "malformed")

    # ---------------------------------------------------------------------------------
    def oracle_replay(self, ctx, w):
        """the property for the witness run FROM SCRATCH (what `./check C13 --replay` does): a failure seen after
        other calls of this process is confirmed in a fresh interpreter"""
        before = len(CALLS)
        f, d = check_property(w)
        if f and before > 0:
            ff, _ = fresh_fails(w)
            if ff is False:
                return False, "passes from scratch (failed only after earlier calls of this process: " + d + ")"
        return f, d

    def _in_theorem_class(self, w):
        """While the source has no size check (fixes/C13-2 not applied) the theorem for it
        (transpile_coupled_device_partial) excludes circuits larger than the processor and circuits smaller than a
        ring; the finding is recorded and replayed on its own."""
        if getattr(self, "guard", None) is None:
            try:
                _, (_, self.guard, _rz) = devices.extract_all()
            except TranslatorError:
                self.guard = True          # unrecognised source: strict reading
        if getattr(self, "rz", None) is None:
            try:
                self.rz = bool(devices.route_rzx())
            except TranslatorError:
                self.rz = True             # unrecognised source: strict reading
        for c in calls_of(w):
            M, N = c.get("M", c["N"]), c["N"]
            if not self.guard and (N > M or (N < M and c["dev"] == "CircularSpinChain")):
                return False
            # while the router does not know RZX (fixes/C13-3 not applied) the theorems do not cover circuits with RZX
            if not self.rz and any(g[0] == "RZX" for g in c["gates"]):
                return False
        return True

    def finding_matches(self, witness, finding):
        cs = calls_of(witness)
        if finding.get("class") == "circuit-size-differs-from-processor":
            return any(c.get("M", c["N"]) != c["N"] for c in cs)
        if finding.get("class") == "rzx-unrouted":
            return any(g[0] == "RZX" for c in cs for g in c["gates"])
        return witness == finding.get("witness")

    def _sizes(self):
        for dev, N, gs, M in size_cases():
            if M <= 4 and gs[0].name in ("CNOT", "ISWAP", "TOFFOLI"):
                yield wit(dev, N, gs, M)

    def _alphabet(self, wide=False):
        """EVERY other gate name of the library (the gate classes not resolvable today, legacy names, aliases: CZ, CX, H,
        iSWAP, CRX, MS, ...) on neighbouring AND distant qubits of every device: refused, or transpiled onto native gates on
        coupled qubits with the same unitary - "accepted, but on uncoupled qubits" is the violation"""
        for name in OTHERS + EXTRA:
            nc, nt = XSHAPE[name]
            if nc + nt > 2 or nc + nt == 0:
                continue
            for N in ((4, 5, 3) if wide else (4,)):
                for dev in DEVS:
                    if nc + nt == 1:
                        places = [(0,), (N - 1,)]
                    elif wide:
                        places = list(itertools.permutations(range(N), 2))
                    else:
                        places = [(0, 1), (1, 0), (0, 2), (2, 0), (1, 3), (3, 0)]
                    for qs in places:
                        v = XARGS.get(name, 0.7390851332151607 if name in PARAM else None)
                        yield {"dev": dev, "N": N, "gates": [["RY", [qs[0]], [], 0.5], [name, list(qs[:nt]), list(qs[nt:]), v]]}

    def _systematic(self):
        """the whole gate alphabet on neighbouring and distant qubits, three-qubit gates (the known weak spot), then two-qubit
        gates at every distance"""
        yield from self._alphabet(wide=True)
        for name in ("TOFFOLI", "FREDKIN"):
            for N in (3, 4, 5):
                for dev in DEVS:
                    for qs in itertools.permutations(range(N), 3):
                        yield wit(dev, N, [placed(name, qs)])
        for name in ("CNOT", "CSIGN", "SWAP", "ISWAP", "SQRTISWAP"):
            for N in (2, 3, 4, 5):
                for dev in DEVS:
                    for qs in itertools.permutations(range(N), 2):
                        yield wit(dev, N, [placed(name, qs)])
        yield from self._multi()
        yield from self._sizes()
        yield from self._rzx()
        for dev, N, gs, _ in form_cases():
            yield wit(dev, N, gs)

    def _rzx(self):
        for N in (2, 3, 4):
            for dev in DEVS:
                for a, b in itertools.permutations(range(N), 2):
                    yield wit(dev, N, [p2("RZX", a, b)])
                    if b > a + 1:
                        yield wit(dev, N, [p2("RZX", a, b), p2("CNOT", b, a), p2("RZX", b, a, idx=2)])

    def _multi(self, maxN=5):
        """both orientations of every pair in one circuit, and in consecutive calls"""
        for N in range(3, maxN + 1):
            for dev in DEVS:
                if dev == "DispersiveCavityQED" and N > 3:
                    continue
                for a, b in itertools.combinations(range(N), 2):
                    yield wit(dev, N, [p2("CNOT", a, b), p2("CNOT", b, a)])
                    yield wit(dev, N, [p2("CNOT", b, a), placed("RX", (a,), 1), p2("CNOT", a, b)])
        for N in (3, 4):
            for kind, h in systematic_histories(N):
                if kind in ("orientations", "devices", "sizes"):
                    yield hwit(h)

    def _rand_witness(self, rng):
        dev = rng.choice(DEVS)
        N = rng.randint(1 if buildable(dev, 1) else 2, 5)
        native = devices_native(dev)
        names = [n for n in RESOLVABLE if expressible(dev, n, native)]
        if rng.random() < 0.15:               # any gate name of the library (model alphabet): refusal or a correct result
            names = names + [n for n in OTHERS if n != "IDLE"]
        gs = [g for g in (random_gate(rng, N, names, i) for i in range(rng.randint(1, 6))) if g is not None]
        return wit(dev, N, gs)

    def oracle_search(self, ctx, budget_s):
        t0 = time.time()
        forms = (wit(dev, N, gs) for dev, N, gs, _ in form_cases())
        for w in itertools.chain((w for _, w in object_histories()), forms, self._systematic()):
            if not self._in_theorem_class(w):
                continue
            f, d = check_property(w)
            if f:
                w = reproducible(w, len(CALLS))
                yield w, (check_property(w)[1] if "object_history" in w else d)
            if time.time() - t0 > budget_s:
                return
        while time.time() - t0 < budget_s:
            w = random_object_history(ctx.rng) if ctx.rng.random() < 0.3 else self._rand_witness(ctx.rng)
            f, d = check_property(w)
            if f:
                w = reproducible(w, len(CALLS))
                yield w, (check_property(w)[1] if "object_history" in w else d)

    def oracle_always(self, ctx):
        # minimal systematic part: the first placement of each three-qubit gate on 3 and 4 qubits per device
        seen_kind = set()
        for name in ("TOFFOLI", "FREDKIN"):
            for N in (3, 4):
                for dev in DEVS:
                    w = wit(dev, N, [placed(name, (2, 0, 1) if name == "TOFFOLI" else (0, 2, 1))])
                    f, d = check_property(w)
                    if f and (name, dev) not in seen_kind:
                        seen_kind.add((name, dev))
                        yield reproducible(w, len(CALLS)), d
        n = 0
        for w in self._alphabet():
            f, d = check_property(w)
            if f:
                yield reproducible(w, len(CALLS)), d
                n += 1
                if n >= 2:
                    break
        n = 0
        forms = (wit(dev, N, gs) for dev, N, gs, _ in form_cases(full=False))
        for w in itertools.chain((w for _, w in object_histories(full=False)), forms, self._multi(4), self._sizes(), self._rzx()):
            if not self._in_theorem_class(w):
                continue
            f, d = check_property(w)
            if f:
                w = reproducible(w, len(CALLS))
                yield w, (check_property(w)[1] if "object_history" in w else d)
                n += 1
                if n >= 2:
                    break
        for _ in range(120 if not ctx.thorough else 1500):
            w = self._rand_witness(ctx.rng)
            f, d = check_property(w)
            if f:
                yield reproducible(w, len(CALLS)), d


def devices_native(dev):
    return list(processor(dev, 2).native_gates)


CHECK = C13()
