"""C03 — basis decomposition (QubitCircuit.resolve_gates).

T: the `_gate_*` / `_basis_*` rule tables are regenerated from /repo on every run
(py/translate/decomp.py) into lean/QipVerif/Gen/DecompTables.lean + one module per rule whose
exact soundness theorem is re-checked by the kernel.
H: the control flow of resolve_gates (Model/Decompose.lean) is run side by side with the code."""
import itertools, math, time
import numpy as np

from vlib.core import PropertyCheck, TranslatorError
from translate import decomp

PI8 = math.pi / 8
RESOLVABLE = ["X", "Y", "Z", "SNOT", "SQRTNOT", "PHASEGATE", "RX", "RY", "RZ", "CNOT", "CSIGN", "SWAP",
              "ISWAP", "SQRTSWAP", "SQRTISWAP", "TOFFOLI", "FREDKIN", "GLOBALPHASE"]
OTHERS = ["BERKELEY", "SWAPalpha", "CPHASE", "CRX", "S", "T", "CS", "CZ", "IDLE", "CT", "CY"]
PARAM = decomp.PARAMETRIC
B2 = ["CNOT", "CSIGN", "ISWAP", "SQRTSWAP", "SQRTISWAP"]
R1 = ["RX", "RY", "RZ"]


def valid_bases():
    """The ~25 basis specifications of the property: string form, list form, processors' native sets."""
    out = [("str", b) for b in B2]
    for b in B2:
        for r in ([], ["RX", "RY"], ["RX", "RZ"], ["RY", "RZ"], ["RX", "RY", "RZ"]):
            out.append(("list", [b] + r))
    out.append(("list", ["SQRTISWAP", "ISWAP", "RX", "RZ"]))   # spin chain / cavity QED native set
    out.append(("list", ["RX", "RY", "CNOT"]))                   # SC qubits (RZX is ignored by validation)
    out.append(("list", ["RX", "RY", "RZX", "CNOT"]))
    return out


def other_bases():
    return [("str", "RX"), ("str", "FOO"), ("str", "TOFFOLI"), ("list", ["CNOT", "RX"]), ("list", ["RZ", "ISWAP"]),
            ("list", ["CNOT", "RX", "IDLE"]), ("list", ["RX", "RY"]), ("list", ["CSIGN", "ISWAP", "RY", "RZ"]),
            ("list", []), ("list", ["FOO", "CNOT"]), ("list", ["T", "CNOT", "RX", "RY"])]


class G:
    """A gate of the harness: name, targets, controls, angle = symbolic value or fixed multiple of pi/8."""
    __slots__ = ("name", "t", "c", "sym", "p8", "val")

    def __init__(self, name, t, c, sym=None, p8=0, val=None):
        self.name, self.t, self.c, self.sym, self.p8, self.val = name, list(t), list(c), sym, p8, val

    def enc(self):
        d = lambda l: ".".join(map(str, l)) if l else "-"
        if self.sym is not None:
            a = f"{self.sym},1,1,0"
        else:
            a = f"-1,0,1,{self.p8}"
        return f"{self.name}/{d(self.t)}/{d(self.c)}/{a}"

    def value(self):
        if self.name not in PARAM:
            return None
        return self.val if self.sym is not None else self.p8 * PI8

    def js(self):
        return [self.name, self.t, self.c, ("sym%d" % self.sym) if self.sym is not None else self.p8]


def random_gate(rng, N, names, idx):
    name = rng.choice(names)
    nc, nt = decomp.SHAPE[name]
    if nc + nt > N:
        return None
    qs = rng.sample(range(N), nc + nt)
    t, c = qs[:nt], qs[nt:]
    if name in PARAM:
        if rng.random() < 0.6:
            return G(name, t, c, sym=idx, val=rng.choice([rng.uniform(-7, 7), 0.0, 1e-9, -math.pi, 2 * math.pi, 9.5]))
        return G(name, t, c, p8=2 * rng.randint(-9, 9))
    return G(name, t, c)


def build_circuit(N, gates):
    from qutip_qip.circuit import QubitCircuit
    qc = QubitCircuit(N)
    for g in gates:
        kw = {}
        if g.value() is not None:
            kw["arg_value"] = g.value()
        qc.add_gate(g.name, targets=(g.t or None), controls=(g.c or None), **kw)
    return qc


def impl_resolve(N, gates, basis):
    qc = build_circuit(N, gates)
    b = basis[1] if basis[0] == "str" else list(basis[1])
    try:
        r = qc.resolve_gates(b)
    except ValueError as e:
        m = str(e)
        if "Not sufficient" in m:
            return "err notSufficient1q", None, qc
        if "not a valid two-qubit basis" in m:
            return "err invalid2q", None, qc
        return "err other:ValueError", None, qc
    except NotImplementedError:
        return "err cannotResolve", None, qc
    except (IndexError, TypeError):
        return "err index", None, qc
    except Exception as e:
        return "err other:" + type(e).__name__, None, qc
    return "ok", r, qc


def aslist(x):
    return [] if x is None else list(x)


def parse_model(ans, symvals):
    """model answer -> list of (name, targets, controls, numeric angle or None)"""
    if not ans.startswith("ok"):
        return ans, None
    body = ans[3:].strip()
    out = []
    if body and body != "-":
        for s in body.split(";"):
            n, t, c, a = s.split("/")
            nat = lambda x: [] if x == "-" else [int(v) for v in x.split(".")]
            sy, cn, cd, p8 = a.split(",")
            sy, cn, cd, p8 = int(sy), int(cn), int(cd), int(p8)
            val = p8 * PI8 + ((cn / cd) * symvals[sy] if sy >= 0 and cn != 0 else 0.0)
            out.append((n, nat(t), nat(c), val))
    return "ok", out


def same_gates(model, impl_gates):
    if len(model) != len(impl_gates):
        return False
    for (n, t, c, v), g in zip(model, impl_gates):
        if n != g.name or t != aslist(g.targets) or c != aslist(g.controls):
            return False
        iv = g.arg_value
        if n in PARAM:
            if iv is None or abs(iv - v) > 1e-12 * max(1.0, abs(v)):
                return False
        elif iv not in (None, 0, 0.0):
            return False
    return True


def basis_enc(b):
    return ("str:" + b[1]) if b[0] == "str" else ("list:" + ",".join(b[1]))


def allowed_names(b):
    names = [b[1]] if b[0] == "str" else list(b[1])
    b2 = [n for n in names if n in B2]
    b1 = [n for n in names if n in R1 + ["IDLE"]]
    if not b1:
        b1 = list(R1)
    return set(b2) | set(b1) | {"GLOBALPHASE", "IDLE"}


class C03(PropertyCheck):
    id = "C03"
    lean_modules = ["QipVerif.Props.C03"]
    drivers = ["drv_decomp"]
    theorems = []   # filled in regenerate() (table theorems) + the fixed ones below
    fixed_theorems = [
        "QipVerif.C03.resolve_names",
        "QipVerif.C03.resolve_refuses",
        "QipVerif.C03.dispatch_refuses",
        "QipVerif.C03.pauli_markers_lost_counterexample",
        "QipVerif.C03.pauli_markers_kept",
        "QipVerif.C03.rule_PHASEGATE_sound",
        "QipVerif.C03.elim_RX_sound",
        "QipVerif.C03.elim_RY_sound",
        "QipVerif.C03.elim_RZ_sound",
        "QipVerif.C03.pauli_X_sound",
        "QipVerif.C03.pauli_Y_sound",
        "QipVerif.C03.pauli_Z_sound",
        "QipVerif.C03.resolve_den_partial",
        "QipVerif.C03.resolve_den_unrestricted_counterexample",
        "QipVerif.C03.phasegate_odd_counterexample",
    ]
    technique = ("Lean 4: rule tables regenerated from the source, each rule's exact unitary identity decided by the kernel "
                 "in Z[zeta16][1/2] (decide +kernel); parametric rules proved over C for all angles; list-level theorems on "
                 "the model of resolve_gates by induction; model/implementation correspondence of the control flow")
    level_text = ("Every _gate_*/_basis_* rule of the current source is regenerated into Lean and its soundness (same unitary, "
                  "global phase included) is a kernel-checked theorem; the parametric rules (PHASEGATE, elimination of the third "
                  "rotation, Pauli substitution) are proved for all angles over C; the output-alphabet and refusal theorems hold "
                  "for all circuits and all basis specifications by induction over the model of resolve_gates, which is compared "
                  "gate-for-gate with the implementation (exhaustively for every placed gate x every basis spec on 3 qubits).")
    level_note = ("Trusted: Lean kernel (propext, Classical.choice, Quot.sound); the exact gate library gateE (validated exhaustively "
                  "against the gate functions by C09's correspondence); behavioural extraction of the rule templates "
                  "(py/translate/decomp.py, validated on random placements/angles each run); the lifting of a rule identity from "
                  "its canonical placement to every register size and placement uses the embedding algebra of C08 "
                  "(Lemmas/EmbedAlg.lean) — see notes in DESIGN.md for which composition steps are proved.")
    trusted_base = [
        "Lean 4.33 kernel; axioms propext, Classical.choice, Quot.sound; decide +kernel for the finite rule tables",
        "py/translate/decomp.py (behavioural extraction of rule templates: linear in the angle, qubits only by reference), validated every run",
        "Model/Circuit.lean:gateE exact gate matrices (tied to the code by C09)",
        "py/props/c03.py harness",
    ]
    assumptions = ["rules are uniform in placement and affine in the input angle (checked on random instances every run)"]
    rule = ("case = (register size, gate list with placements and exact/symbolic angles, basis specification); distinct by "
            "canonical JSON; non-trivial = at least one gate is rewritten or refused")

    # ---------------------------------------------------------------------------------
    def regenerate(self, ctx):
        gate_rules, basis_rules, mods, changed = decomp.regenerate(ctx.seed)
        self.rule_mods = mods
        names = []
        for m in mods:
            names.append("QipVerif.Gen.sound_" + m[len("Rule_"):])
        self.theorems = names + list(self.fixed_theorems)
        # Props/C03 imports every rule module through the generated aggregator
        agg = "".join(f"import QipVerif.Gen.{m}\n" for m in mods) + \
            "/-! GENERATED: imports every rule-soundness module. -/\n"
        import os
        from vlib.paths import LEAN
        decomp.write_if_changed(os.path.join(LEAN, "QipVerif", "Gen", "DecompRulesAll.lean"), agg)
        return ["DecompTables.lean"] + mods

    # ---------------------------------------------------------------------------------
    def _run_cases(self, ctx, res, cases):
        lines = [f"resolve keep=1 basis={basis_enc(b)} gates={';'.join(g.enc() for g in gs) if gs else '-'}"
                 for (N, gs, b) in cases]
        outs = ctx.driver("drv_decomp").run(lines)
        for (N, gs, b), o in zip(cases, outs):
            symvals = {g.sym: g.val for g in gs if g.sym is not None}
            st, mg = parse_model(o, symvals)
            ist, r, qc = impl_resolve(N, gs, b)
            inp = {"N": N, "gates": [g.js() for g in gs], "basis": list(b)}
            rewritten = st != "ok" or len(mg) != len(gs)
            res.case(inp, nontrivial=rewritten, tags=[f"basis={b[0]}", f"verdict={st.split(':')[0]}", f"len={min(len(gs), 6)}"])
            w = {"N": N, "gates": [[g.name, g.t, g.c, g.value()] for g in gs], "basis": list(b)}
            if st != ist:
                res.disagree(inp, st, ist, "verdict of resolve_gates", w)
            elif st == "ok" and not same_gates(mg, r.gates):
                res.disagree(inp, [list(x) for x in mg],
                             [[g.name, aslist(g.targets), aslist(g.controls), g.arg_value] for g in r.gates],
                             "resolved gate list", w)

    def correspondence(self, ctx, res):
        rng = ctx.rng
        bases = valid_bases() + other_bases()
        # exhaustive: every placed gate on 3 qubits x every basis specification
        cases = []
        N = 3
        for name in RESOLVABLE + OTHERS:
            nc, nt = decomp.SHAPE[name]
            for qs in itertools.permutations(range(N), nc + nt):
                g = (G(name, qs[:nt], qs[nt:], sym=0, val=0.7390851332151607) if name in PARAM
                     else G(name, qs[:nt], qs[nt:]))
                for b in bases:
                    cases.append((N, [g], b))
        self._run_cases(ctx, res, cases)
        res.exhaustive = True
        res.notes.append(f"exhaustive: every placement of every library gate on 3 qubits x {len(bases)} basis specifications "
                         f"({len(cases)} cases); then seeded random sequences")
        # random sequences
        n_rand = 4000 if ctx.thorough else 500
        cases = []
        for _ in range(n_rand):
            N = rng.randint(1, 5)
            L = rng.randint(0, 8)
            names = RESOLVABLE if rng.random() < 0.8 else RESOLVABLE + OTHERS
            gs = [g for g in (random_gate(rng, N, names, i) for i in range(L)) if g is not None]
            b = rng.choice(valid_bases()) if rng.random() < 0.85 else rng.choice(other_bases())
            cases.append((N, gs, b))
        self._run_cases(ctx, res, cases)

    # ---------------------------------------------------------------------------------
    def oracle_replay(self, ctx, w):
        gs = [G(n, t, c, sym=(0 if v is not None else None), val=v) for (n, t, c, v) in w["gates"]]
        for i, g in enumerate(gs):
            g.sym = i if g.val is not None else None
        b = tuple(w["basis"])
        b = (b[0], b[1] if b[0] == "str" else list(b[1]))
        N = w["N"]
        ist, r, qc = impl_resolve(N, gs, b)
        names = [b[1]] if b[0] == "str" else list(b[1])
        valid = (b in valid_bases())
        if not valid:
            return False, "basis specification outside the property's class"
        b2 = [n for n in names if n in B2]
        inexpressible = [g.name for g in gs if g.name not in RESOLVABLE or
                         (g.name in ("SQRTSWAP", "SQRTISWAP") and g.name not in b2)]
        if inexpressible:
            if ist == "ok":
                bad = [g.name for g in r.gates if g.name not in allowed_names(b)]
                if bad:
                    return True, f"gates {inexpressible} are not expressible but the result contains {bad}"
            return False, f"verdict {ist}"
        if ist != "ok":
            return True, f"resolvable circuit refused: {ist}"
        bad = [g.name for g in r.gates if g.name not in allowed_names(b)]
        if bad:
            return True, f"result contains gates outside the basis: {sorted(set(bad))}"
        if N <= 6:
            U0 = qc.compute_unitary().full()
            U1 = r.compute_unitary().full()
            d = np.abs(U0 - U1).max()
            if d > 1e-9:
                return True, f"unitary differs by {d:.3g} (global phase included)"
        return False, "same unitary, basis respected"

    def _rand_witness(self, rng):
        N = rng.randint(1, 4)
        L = rng.randint(1, 5)
        gs = [g for g in (random_gate(rng, N, RESOLVABLE, i) for i in range(L)) if g is not None]
        b = rng.choice(valid_bases())
        return {"N": N, "gates": [[g.name, g.t, g.c, g.value()] for g in gs], "basis": list(b)}

    def oracle_search(self, ctx, budget_s):
        t0 = time.time()
        for name in RESOLVABLE:
            nc, nt = decomp.SHAPE[name]
            N = max(1, nc + nt)
            for b in valid_bases():
                g = G(name, list(range(nt)), list(range(nt, nt + nc)), sym=0 if name in PARAM else None, val=0.739)
                w = {"N": N, "gates": [[g.name, g.t, g.c, g.value()]], "basis": list(b)}
                f, d = self.oracle_replay(ctx, w)
                if f:
                    yield w, d
            if time.time() - t0 > budget_s:
                return
        while time.time() - t0 < budget_s:
            w = self._rand_witness(ctx.rng)
            f, d = self.oracle_replay(ctx, w)
            if f:
                yield w, d

    def oracle_always(self, ctx):
        for _ in range(120 if not ctx.thorough else 1500):
            w = self._rand_witness(ctx.rng)
            f, d = self.oracle_replay(ctx, w)
            if f:
                yield w, d


CHECK = C03()
