"""C03 — basis decomposition (QubitCircuit.resolve_gates).

T: the `_gate_*` / `_basis_*` rule tables are regenerated from /repo on every run
(py/translate/decomp.py) into lean/QipVerif/Gen/DecompTables.lean (names, qubit selectors, angles) and
Gen/DecompLabels.lean (arg_label; every other field of an emitted object must be the plain default) + one module per
rule whose exact soundness theorem is re-checked by the kernel.
H: the control flow of resolve_gates (Model/Decompose.lean, with every field of the emitted gate objects:
Model/DecomposeF.lean) is run side by side with the code; EVERY attribute of every emitted gate object is compared.
Variants of the source (fixes/C03-2: classical condition handed on; fixes/C03-3: a string basis is one name) are read
from the tree by probing each stage (source_variant)."""
import copy, itertools, math, time
import numpy as np

from vlib.core import PropertyCheck, TranslatorError
from translate import decomp

PI8 = math.pi / 8
RESOLVABLE = ["X", "Y", "Z", "SNOT", "SQRTNOT", "PHASEGATE", "RX", "RY", "RZ", "CNOT", "CSIGN", "SWAP",
              "ISWAP", "SQRTSWAP", "SQRTISWAP", "TOFFOLI", "FREDKIN", "GLOBALPHASE"]
OTHERS = ["BERKELEY", "SWAPalpha", "CPHASE", "CRX", "S", "T", "CS", "CZ", "IDLE", "CT", "CY"]
PARAM = decomp.PARAMETRIC
# other spellings the gate classes accept (GATE_CLASS_MAP), not names of the model alphabet: H has a rule
# (`_gate_H = _gate_SNOT`, Gen.ruleAlias), the others have none
ALIASES = ["H"]
ALIAS_OTHERS = ["CX", "iSWAP", "SWAPALPHA"]
PARAM_ALL = PARAM | {"SWAPALPHA"}
B2 = ["CNOT", "CSIGN", "ISWAP", "SQRTSWAP", "SQRTISWAP"]
R1 = ["RX", "RY", "RZ"]


def valid_bases():
    """The ~25 basis specifications of the property: string form, list form, processors' native sets."""
    out = [("str", b) for b in B2]
    for b in B2:
        for r in ([], ["RX", "RY"], ["RX", "RZ"], ["RY", "RZ"], ["RX", "RY", "RZ"]):
            out.append(("list", [b] + r))
    out.append(("list", ["SQRTISWAP", "ISWAP", "RX", "RZ"]))   # spin chain / cavity QED native set
    out.append(("list", ["RX", "RY", "CNOT"]))                   # SC qubits (RZX is ignored by validation)
    out.append(("list", ["RX", "RY", "RZX", "CNOT"]))
    return out


def other_bases():
    return [("list", ["CNOT", "RX", "RY", "RZ", "CX", "H"]), ("list", ["iSWAP", "SWAPALPHA", "ISWAP", "RX", "RZ"]),
            ("str", "RX"), ("str", "FOO"), ("str", "TOFFOLI"), ("list", ["CNOT", "RX"]), ("list", ["RZ", "ISWAP"]),
            ("list", ["CNOT", "RX", "IDLE"]), ("list", ["RX", "RY"]), ("list", ["CSIGN", "ISWAP", "RY", "RZ"]),
            ("list", []), ("list", ["FOO", "CNOT"]), ("list", ["T", "CNOT", "RX", "RY"])]


USER_GATES = ["MYG", "NOT"]          # names of user-defined one-qubit gates (`NOT` is a substring of `CNOT`)


def label_text(lab):
    """harness label -> the text given to the library: None | ("u", id) -> "L<id>" | ("f", k, m) -> k\\pi/m"""
    if lab is None:
        return None
    if lab[0] == "u":
        return "L%d" % lab[1]
    _, k, m = lab
    return ("-" if k < 0 else "") + (str(abs(k)) if abs(k) != 1 else "") + "\\pi" + ("/%d" % m if m != 1 else "")


def label_of_text(txt):
    if txt is None:
        return None
    if isinstance(txt, str) and txt[:1] == "L" and txt[1:].isdigit():
        return ("u", int(txt[1:]))
    f = decomp.parse_label(txt)
    if f is not None and label_text(("f",) + f) == txt:
        return ("f",) + f
    return ("?", txt)


class G:
    """A gate of the harness: name, targets, controls, angle = symbolic value or fixed multiple of pi/8; optional
    label (("u", id) | ("f", k, m)), classical condition (bits, value), style (any dict); `meas`: a measurement."""
    __slots__ = ("name", "t", "c", "sym", "p8", "val", "lab", "cond", "style", "meas", "form", "cont")

    def __init__(self, name, t, c, sym=None, p8=0, val=None, lab=None, cond=None, style=None, meas=False,
                 form="name", cont="list"):
        self.name, self.t, self.c, self.sym, self.p8, self.val = name, list(t), list(c), sym, p8, val
        self.lab, self.cond, self.style, self.meas = lab, cond, style, meas
        # HOW the gate object is made (FORMS) and in which container its qubits are given (CONTS)
        self.form, self.cont = form, cont

    def enc_item(self):
        if self.meas:
            return "M"
        d = lambda l: ".".join(map(str, l)) if l else "-"
        lab = "n" if self.lab is None else ("u%d" % self.lab[1] if self.lab[0] == "u" else "f%d_%d" % self.lab[1:])
        cond = "n" if self.cond is None else "%s:%d" % (d(self.cond[0]), self.cond[1])
        return f"{self.enc()}/{lab}/{cond}"

    def extra(self):
        e = {}
        if self.lab is not None:
            e["label"] = label_text(self.lab)
        if self.cond is not None:
            e["cond"] = [list(self.cond[0]), self.cond[1]]
        if self.style is not None:
            e["style"] = self.style
        if getattr(self, "form", "name") != "name":
            e["form"] = self.form
        if getattr(self, "cont", "list") != "list":
            e["cont"] = self.cont
        return e

    def wit(self):
        """entry of a witness"""
        if self.meas:
            return ["M", self.t, [], None]
        e = self.extra()
        return [self.name, self.t, self.c, self.value()] + ([e] if e else [])

    def enc(self):
        d = lambda l: ".".join(map(str, l)) if l else "-"
        if self.sym is not None:
            a = f"{self.sym},1,1,0"
        else:
            a = f"-1,0,1,{self.p8}"
        return f"{self.name}/{d(self.t)}/{d(self.c)}/{a}"

    def value(self):
        if self.name not in PARAM_ALL:
            return None
        return self.val if self.sym is not None else self.p8 * PI8

    def js(self):
        if self.meas:
            return ["M", self.t]
        e = self.extra()
        return [self.name, self.t, self.c, ("sym%d" % self.sym) if self.sym is not None else self.p8] + ([e] if e else [])


def shape(name):
    if name in decomp.ALIAS_SHAPE:
        return decomp.ALIAS_SHAPE[name]
    return decomp.SHAPE[name] if name in decomp.SHAPE else (0, 1)


def decorate(rng, g, idx, ncb, p_cond=0.3):
    """random label / classical condition / style on a harness gate"""
    if rng.random() < 0.4:
        if g.sym is None and g.name in PARAM and rng.random() < 0.5:
            from fractions import Fraction
            fr = Fraction(g.p8, 8)
            g.lab = ("f", fr.numerator, fr.denominator)          # a true label k\pi/m
        else:
            g.lab = ("u", idx)
    if ncb and rng.random() < p_cond:
        bits = rng.sample(range(ncb), rng.randint(1, ncb))
        g.cond = (bits, rng.randrange(2 ** len(bits)))
    if rng.random() < 0.15:
        g.style = {"tag": idx}
    return g


def random_gate(rng, N, names, idx):
    name = rng.choice(names)
    nc, nt = shape(name)
    if nc + nt > N:
        return None
    qs = rng.sample(range(N), nc + nt)
    t, c = qs[:nt], qs[nt:]
    if name in PARAM_ALL:
        if rng.random() < 0.6:
            return G(name, t, c, sym=idx, val=rng.choice([rng.uniform(-7, 7), 0.0, 1e-9, -math.pi, 2 * math.pi, 9.5]))
        return G(name, t, c, p8=2 * rng.randint(-9, 9))
    return G(name, t, c)


def _user_not():
    import qutip
    return qutip.sigmax()


FORMS = ["name", "class", "generic", "moved", "ctrl"]
CONTS = ["list", "tuple", "array", "npint", "scalar"]


def container(kind, qs):
    """the qubits `qs` as the caller may hand them over"""
    if not qs:
        return None
    if kind == "tuple":
        return tuple(qs)
    if kind == "array":
        return np.array(qs)
    if kind == "npint":
        return [np.int64(q) for q in qs]
    if kind == "scalar":
        return (np.int64(qs[0]) if qs[0] % 2 else int(qs[0])) if len(qs) == 1 else list(qs)
    return list(qs)


def gate_kwargs(g):
    kw = {}
    if g.value() is not None:
        kw["arg_value"] = g.value()
    if getattr(g, "lab", None) is not None:
        kw["arg_label"] = label_text(g.lab)
    if getattr(g, "cond", None) is not None:
        kw["classical_controls"] = list(g.cond[0])
        kw["classical_control_value"] = g.cond[1]
    if getattr(g, "style", None) is not None:
        kw["style"] = dict(g.style)
    return kw


class FormRefused(Exception):
    """the constructors of the library refuse this (form, container) of a gate: outside every stream and sweep"""


def add_gate_in_form(qc, g):
    try:
        _add_gate_in_form(qc, g)
    except FormRefused:
        raise
    except Exception as e:
        raise FormRefused(f"{g.name} as {getattr(g, 'form', 'name')}/{getattr(g, 'cont', 'list')}: "
                          f"{type(e).__name__}: {e}")


def _add_gate_in_form(qc, g):
    """put the harness gate `g` into `qc` in the form g.form: by NAME through add_gate, as an instance of the library
    CLASS of that name, as a GENERIC base-class Gate carrying the name, MOVED from another circuit, or (CNOT, CSIGN) as a
    `_OneControlledGate(target_gate=...)` carrying the name"""
    from qutip_qip.circuit import QubitCircuit
    from qutip_qip.operations import Gate, GATE_CLASS_MAP
    from qutip_qip.operations import gateclass
    form, kind = getattr(g, "form", "name"), getattr(g, "cont", "list")
    T, C = container(kind, g.t), container(kind, g.c)
    kw = gate_kwargs(g)
    if form == "class" and g.name not in GATE_CLASS_MAP:
        form = "generic"
    if form == "ctrl" and g.name not in ("CNOT", "CSIGN"):
        form = "generic"
    if form == "name":
        qc.add_gate(g.name, targets=T, controls=C, **kw)
    elif form == "class":
        if C is not None:
            kw["controls"] = C
        qc.add_gate(GATE_CLASS_MAP[g.name](targets=T, **kw))
    elif form == "generic":
        qc.add_gate(Gate(g.name, targets=T, controls=C, **kw))
    elif form == "ctrl":
        tg = gateclass.X if g.name == "CNOT" else gateclass.Z
        qc.add_gate(gateclass._OneControlledGate(controls=C, targets=T, target_gate=tg, name=g.name, **kw))
    elif form == "moved":
        other = QubitCircuit(qc.N, num_cbits=qc.num_cbits, user_gates=qc.user_gates)
        other.add_gate(g.name, targets=T, controls=C, **kw)
        qc.add_gates(other.gates)
    else:
        raise ValueError(form)


def usable(gate):
    """does the library itself get the qubits of this object (a CNOT built with controls=(1,) stores [(1,)])"""
    try:
        qs = gate.get_all_qubits()
        return all(isinstance(q, (int, np.integer)) for q in qs)
    except Exception:
        return False


def build_circuit(N, gates, ncb=0):
    from qutip_qip.circuit import QubitCircuit
    users = {g.name: _user_not for g in gates if g.name in USER_GATES}
    qc = QubitCircuit(N, num_cbits=ncb, user_gates=users or None) if (ncb or users) else QubitCircuit(N)
    for g in gates:
        if getattr(g, "meas", False):
            qc.add_measurement("M", targets=list(g.t), classical_store=0)
            continue
        if getattr(g, "form", "name") == "name" and getattr(g, "cont", "list") == "list":
            qc.add_gate(g.name, targets=(g.t or None), controls=(g.c or None), **gate_kwargs(g))
        else:
            add_gate_in_form(qc, g)
    return qc


def impl_resolve_on(qc, b):
    """resolve_gates of an EXISTING circuit object -> (verdict, result, qc)"""
    try:
        r = qc.resolve_gates(b)
    except ValueError as e:
        m = str(e)
        return ("err notSufficient1q" if "Not sufficient" in m else
                "err invalid2q" if "not a valid two-qubit basis" in m else "err other:ValueError"), None, qc
    except NotImplementedError as e:
        return ("err measurement" if "measurements" in str(e) else "err cannotResolve"), None, qc
    except (IndexError, TypeError):
        return "err index", None, qc
    except Exception as e:
        return "err other:" + type(e).__name__, None, qc
    return "ok", r, qc


DEFAULT_ARG = "<default argument>"
DEFAULT_BASIS = ["CNOT", "RX", "RY", "RZ"]


def impl_resolve(N, gates, basis, ncb=0, basis_obj=None):
    """`basis_obj`: the OBJECT handed to resolve_gates (a history uses one list object for several calls); default: a
    fresh object per call"""
    qc = build_circuit(N, gates, ncb)
    b = basis_obj if basis_obj is not None else (basis[1] if basis[0] == "str" else list(basis[1]))
    try:
        r = qc.resolve_gates() if isinstance(b, str) and b == DEFAULT_ARG else qc.resolve_gates(b)
    except ValueError as e:
        m = str(e)
        if "Not sufficient" in m:
            return "err notSufficient1q", None, qc
        if "not a valid two-qubit basis" in m:
            return "err invalid2q", None, qc
        return "err other:ValueError", None, qc
    except NotImplementedError as e:
        if "measurements" in str(e):
            return "err measurement", None, qc
        return "err cannotResolve", None, qc
    except (IndexError, TypeError):
        return "err index", None, qc
    except Exception as e:
        return "err other:" + type(e).__name__, None, qc
    return "ok", r, qc


def aslist(x):
    return [] if x is None else list(x)


def parse_model(ans, symvals):
    """model answer -> list of (name, targets, controls, numeric angle or None)"""
    if not ans.startswith("ok"):
        return ans, None
    body = ans[3:].strip()
    out = []
    if body and body != "-":
        for s in body.split(";"):
            n, t, c, a = s.split("/")
            nat = lambda x: [] if x == "-" else [int(v) for v in x.split(".")]
            sy, cn, cd, p8 = a.split(",")
            sy, cn, cd, p8 = int(sy), int(cn), int(cd), int(p8)
            val = p8 * PI8 + ((cn / cd) * symvals[sy] if sy >= 0 and cn != 0 else 0.0)
            out.append((n, nat(t), nat(c), val))
    return "ok", out


def same_gates(model, impl_gates):
    if len(model) != len(impl_gates):
        return False
    for (n, t, c, v), g in zip(model, impl_gates):
        if n != g.name or t != aslist(g.targets) or c != aslist(g.controls):
            return False
        iv = g.arg_value
        if n in PARAM:
            if iv is None or abs(iv - v) > 1e-12 * max(1.0, abs(v)):
                return False
        elif iv not in (None, 0, 0.0):
            return False
    return True


def basis_enc(b):
    return ("str:" + b[1]) if b[0] == "str" else ("list:" + ",".join(b[1]))


def allowed_names(b):
    names = [b[1]] if b[0] == "str" else list(b[1])
    b2 = [n for n in names if n in B2]
    b1 = [n for n in names if n in R1 + ["IDLE"]]
    if not b1:
        b1 = list(R1)
    return set(b2) | set(b1) | {"GLOBALPHASE", "IDLE"}


# ------------------------------------------------------------------------------------------
# every field of the emitted gate objects

def parse_model_f(ans, symvals):
    """answer of `resolvef` -> ("ok", [dict(name, t, c, val, lab, cond, src)]) | (verdict, None)"""
    if not ans.startswith("ok"):
        return ans, None
    body = ans[3:].strip()
    out = []
    nat = lambda x: [] if x == "-" else [int(v) for v in x.split(".")]
    if body and body != "-":
        for s in body.split(";"):
            n, t, c, a, l, k, src = s.split("/")
            sy, cn, cd, p8 = (int(v) for v in a.split(","))
            val = p8 * PI8 + ((cn / cd) * symvals[sy] if sy >= 0 and cn != 0 else 0.0)
            lab = None if l == "n" else (("u", int(l[1:])) if l[0] == "u" else ("f",) + tuple(int(v) for v in l[1:].split("_")))
            cond = None if k == "n" else (nat(k.split(":")[0]), int(k.split(":")[1]))
            out.append({"name": n, "t": nat(t), "c": nat(c), "val": val, "lab": lab, "cond": cond,
                        "src": None if src == "n" else int(src)})
    return "ok", out


def canon_val(v):
    """attribute values made comparable: numpy arrays / integers keep their kind"""
    if isinstance(v, np.ndarray):
        return ("ndarray", [canon_val(x) for x in v.tolist()])
    if isinstance(v, np.integer):
        return ("npint", int(v))
    if isinstance(v, tuple):
        return ("tuple", [canon_val(x) for x in v])
    if isinstance(v, list):
        return [canon_val(x) for x in v]
    if isinstance(v, dict):
        return {k: canon_val(x) for k, x in v.items()}
    if isinstance(v, type) or callable(v):
        return ("obj", getattr(v, "__name__", repr(v)))
    return v


def attrs(g):
    """every attribute of a gate object, canonical"""
    d = {k: canon_val(v) for k, v in vars(g).items()}
    d["__class__"] = type(g).__name__
    return d


def attrs_cmp(g):
    """attributes for comparing a result with the result of a freshly built circuit: `kwargs` of a ControlledGate is the
    record of its constructor call (a gate whose condition was assigned later and one built with it differ there only)"""
    d = attrs(g)
    d.pop("kwargs", None)
    return d


def field_mismatch(m, o, inputs):
    """model gate `m` (dict) against the emitted object `o`; `inputs` = gate objects of the input circuit.
    -> None | description of the first field that differs"""
    from qutip_qip.operations import Gate
    if m["src"] is not None:
        a, b = attrs(inputs[m["src"]]), attrs(o)
        if a != b:
            ks = sorted(k for k in set(a) | set(b) if a.get(k, "<absent>") != b.get(k, "<absent>"))
            return (f"{o.name}: passed-through input gate {m['src']} differs in {ks}: "
                    f"{[a.get(k, '<absent>') for k in ks]} -> {[b.get(k, '<absent>') for k in ks]}")
        return None
    if type(o) is not Gate:
        return f"{o.name}: a gate built by resolve_gates has class {type(o).__name__}"
    unknown = set(vars(o)) - decomp.KNOWN_ATTRS
    if unknown:
        return f"{o.name}: unknown attributes {sorted(unknown)}"
    if o.name != m["name"] or [int(q) for q in aslist(o.targets)] != m["t"] or [int(q) for q in aslist(o.controls)] != m["c"]:
        return f"{o.name}{aslist(o.targets)}{aslist(o.controls)}: expected {m['name']}{m['t']}{m['c']}"
    plain = all(isinstance(getattr(i, a), (list, type(None))) for i in inputs for a in ("targets", "controls")
                if hasattr(i, a))
    if plain and ((o.targets is not None and not isinstance(o.targets, list)) or
                  (o.controls is not None and not isinstance(o.controls, list))):
        return f"{o.name}: targets/controls not lists"
    iv = o.arg_value
    if m["name"] in PARAM:
        if not isinstance(iv, (int, float)) or abs(iv - m["val"]) > 1e-12 * max(1.0, abs(m["val"])):
            return f"{o.name}{aslist(o.targets)}: arg_value {iv!r}, expected {m['val']!r}"
    elif iv not in (None, 0, 0.0):
        return f"{o.name}: arg_value {iv!r}"
    if label_of_text(o.arg_label) != m["lab"]:
        return f"{o.name}{aslist(o.targets)}: arg_label {o.arg_label!r}, expected {label_text(m['lab'])!r}"
    cc = None if o.classical_controls is None else (list(o.classical_controls), o.classical_control_value)
    if o.classical_controls is None and o.classical_control_value is not None:
        return f"{o.name}: classical_control_value {o.classical_control_value!r} without classical_controls"
    if cc != m["cond"]:
        return (f"{o.name}{aslist(o.targets)}: classical condition {cc!r}, expected {m['cond']!r}")
    for k, v in decomp.PLAIN_FIELDS.items():
        if k in ("classical_controls", "classical_control_value"):
            continue
        if getattr(o, k) != v:
            return f"{o.name}{aslist(o.targets)}: {k}={getattr(o, k)!r}"
    return None


LABEL_TRUE_EXEMPT = "GLOBALPHASE"      # the marker of _gate_PHASEGATE carries the label of twice its angle (notes/C03.md)


def label_defect(g):
    """a label k\\pi/m must be the angle it labels -> None | description"""
    f = decomp.parse_label(g.arg_label) if isinstance(g.arg_label, str) else None
    if f is not None and isinstance(g.arg_value, (int, float)):
        if abs(f[0] * math.pi / f[1] - g.arg_value) > 1e-9:
            return f"{g.name}{aslist(g.targets)}: label {g.arg_label!r} on the angle {g.arg_value!r}"
    return None


def unlabelled_defect(qc_in, r):
    """every gate with an angle that resolve_gates BUILDS carries a label, unless it takes over the (missing) label
    of the gate it replaces or is one of the two gates substituted for a Pauli -> None | description"""
    ok = []
    for g in qc_in.gates:
        if g.name in ("X", "Y", "Z"):
            ok += [math.pi / 2, math.pi]
        elif g.arg_label is None and isinstance(g.arg_value, (int, float)):
            ok += [g.arg_value] + ([g.arg_value / 2] if g.name == "PHASEGATE" else [])
    ins = [attrs(g) for g in qc_in.gates]
    for o in r.gates:
        if o.name in PARAM and o.arg_label is None and isinstance(o.arg_value, (int, float)) and attrs(o) not in ins:
            if not any(abs(o.arg_value - a) < 1e-12 for a in ok):
                return f"{o.name}{aslist(o.targets)}: built with the angle {o.arg_value!r} and no arg_label"
    return None


def object_defect(g):
    """fields of an emitted object that must hold whatever the input: control_value None or all-ones, label a string"""
    cs = aslist(g.controls)
    if g.control_value is not None and (not cs or g.control_value != 2 ** len(cs) - 1):
        return f"{g.name}{aslist(g.targets)}: control_value={g.control_value!r}"
    if g.arg_label is not None and not isinstance(g.arg_label, str):
        return f"{g.name}{aslist(g.targets)}: arg_label={g.arg_label!r}"
    if (g.classical_controls is None) != (g.classical_control_value is None):
        return f"{g.name}{aslist(g.targets)}: classical condition {g.classical_controls!r}/{g.classical_control_value!r}"
    return None


# ------------------------------------------------------------------------------------------
# T: which variant of the source is in the tree (one probe per stage of resolve_gates)

def source_variant():
    """-> (keepCond, exactStr).  keepCond: every gate emitted for a classically controlled gate carries its
    condition (fixes/C03-2); all stages must agree, otherwise TranslatorError.  exactStr: a string basis is one
    name (fixes/C03-3)."""
    from qutip_qip.circuit import QubitCircuit
    stages = [("Pauli substitution", "X", {"targets": 0}, "CNOT"),
              ("_resolve_to_universal", "SNOT", {"targets": 0}, "CNOT"),
              ("_resolve_to_universal (3-qubit rule)", "TOFFOLI", {"targets": 2, "controls": [0, 1]}, "CNOT"),
              ("_resolve_2q_basis", "CNOT", {"targets": 0, "controls": 1}, "SQRTISWAP"),
              ("rotation elimination", "RZ", {"targets": 0, "arg_value": 0.25}, ["CNOT", "RX", "RY"])]
    kept = []
    for what, name, kw, basis in stages:
        qc = QubitCircuit(3, num_cbits=2)
        qc.add_gate(name, classical_controls=[1, 0], classical_control_value=2, **kw)
        try:
            r = qc.resolve_gates(basis)
        except Exception as e:
            raise TranslatorError(f"variant probe {what}: {type(e).__name__}: {e}")
        flags = [(g.classical_controls, g.classical_control_value) == ([1, 0], 2) for g in r.gates]
        none = [g.classical_controls is None and g.classical_control_value is None for g in r.gates]
        if flags and all(flags):
            kept.append((what, True))
        elif none and all(none):
            kept.append((what, False))
        else:
            raise TranslatorError(f"{what}: the classical condition is handed to {sum(flags)} of {len(flags)} emitted gates")
    if len({k for _, k in kept}) != 1:
        raise TranslatorError("the stages of resolve_gates treat the classical condition differently: "
                              + ", ".join(f"{w}: {'kept' if k else 'dropped'}" for w, k in kept))
    exact = decomp.string_basis_exact()
    return kept[0][1], exact


def keeps_user_gates():
    """fixes/C03-4: the resolved circuit carries the user_gates of the original"""
    from qutip_qip.circuit import QubitCircuit
    qc = QubitCircuit(1, user_gates={"MYG": _user_not})
    qc.add_gate("MYG", targets=[0])
    try:
        return "MYG" in qc.resolve_gates(["CNOT", "RX", "RY", "RZ", "MYG"]).user_gates
    except Exception:
        return False


def mixed_containers_ok():
    """fixes/C03-5: can the library evaluate the resolution of a TOFFOLI whose qubits were given as tuples (the rules
    hand gate.targets on and index gate.controls: the emitted CNOT has targets=(0,), controls=[1])"""
    from qutip_qip.circuit import QubitCircuit
    qc = QubitCircuit(3)
    qc.add_gate("TOFFOLI", controls=(1, 2), targets=(0,))
    try:
        qc.resolve_gates("CNOT").compute_unitary()
        return True
    except Exception:
        return False


_VAR = {"v": None}


def variant():
    """(keepCond, exactStr) in use; an unrecognised source is held to the repaired reading"""
    if _VAR["v"] is None:
        try:
            _VAR["v"] = source_variant()
        except TranslatorError:
            _VAR["v"] = (True, True)
    return _VAR["v"]


def gates_of_witness(w):
    gs = []
    for i, e in enumerate(w["gates"]):
        n, t, c, v = e[:4]
        x = e[4] if len(e) > 4 else {}
        if n == "M":
            gs.append(G("M", t, [], meas=True))
            continue
        g = G(n, t, c, sym=(i if v is not None else None), val=v)
        if x.get("label") is not None:
            g.lab = label_of_text(x["label"])
        if x.get("cond") is not None:
            g.cond = (list(x["cond"][0]), x["cond"][1])
        g.style = x.get("style")
        g.form, g.cont = x.get("form", "name"), x.get("cont", "list")
        gs.append(g)
    return gs


def num_cbits(gs):
    m = [b for g in gs if getattr(g, "cond", None) for b in g.cond[0]]
    return max(m) + 1 if m else 0


def unitary_under(qc, N, cbits):
    """the operator the SIMULATOR applies for the given classical bits: columns = images of the basis states"""
    import qutip
    cols = []
    for k in range(2 ** N):
        bits = [(k >> (N - 1 - j)) & 1 for j in range(N)]
        st = qutip.basis([2] * N, bits)
        out = qc.run(st, cbits=list(cbits))
        cols.append(out.full().reshape(-1))
    return np.array(cols).T


class C03(PropertyCheck):
    id = "C03"
    lean_modules = ["QipVerif.Props.C03"]
    drivers = ["drv_decomp"]
    theorems = []   # filled in regenerate() (table theorems) + the fixed ones below
    fixed_theorems = [
        "QipVerif.C03.resolve_names",
        "QipVerif.C03.resolve_refuses",
        "QipVerif.C03.dispatch_refuses",
        "QipVerif.C03.pauli_markers_lost_counterexample",
        "QipVerif.C03.pauli_markers_kept",
        "QipVerif.C03.rule_PHASEGATE_sound",
        "QipVerif.C03.elim_RX_sound",
        "QipVerif.C03.elim_RY_sound",
        "QipVerif.C03.elim_RZ_sound",
        "QipVerif.C03.pauli_X_sound",
        "QipVerif.C03.pauli_Y_sound",
        "QipVerif.C03.pauli_Z_sound",
        "QipVerif.C03.resolve_den_partial",
        "QipVerif.C03.resolve_den_unrestricted_counterexample",
        "QipVerif.C03.phasegate_odd_counterexample",
        "QipVerif.C03.resolve_den",
        "QipVerif.C03.resolve_refuses_iff",
        "QipVerif.C03.expressible_library",
        "QipVerif.C03.expressible_sqrt",
        "QipVerif.C03.expressible_norule",
        "QipVerif.C03.substring_passthrough_counterexample",
        "QipVerif.C03.string_basis_refuses_norule",
        "QipVerif.C03.resolveF_refines",
        "QipVerif.C03.resolve_keeps_condition",
        "QipVerif.C03.resolve_den_cond",
        "QipVerif.C03.condition_dropped_counterexample",
        "QipVerif.C03.resolve_refuses_measurement",
        "QipVerif.C03.basis_string_is_list",
        "QipVerif.C03.resolve_basis_perm",
        "QipVerif.C03.resolve_labels_true",
        "QipVerif.C03.rules_label_their_angles",
        "QipVerif.C03.alias_resolves_like_canonical",
        "QipVerif.C03.alias_same_class",
        "QipVerif.C03.resolve_reads_current_fields",
    ]
    technique = ("Lean 4: rule tables (gates, qubit selectors, angles, labels) regenerated from the source, each fixed-angle rule's "
                 "exact unitary identity decided by the kernel in Z[zeta16][1/2] (decide +kernel); parametric rules proved over C "
                 "for all angles; the model of resolve_gates with every field of the emitted gate objects refines the model on "
                 "(name, qubits, angle) (erasure), and list-level theorems are proved by induction over it; model/implementation "
                 "correspondence of the control flow on every attribute of every emitted object; source variants read from the tree")
    level_text = ("Every _gate_*/_basis_* rule of the current source is regenerated into Lean and its soundness (same unitary, "
                  "global phase included) is a kernel-checked theorem; the parametric rules (PHASEGATE, elimination of the third "
                  "rotation, Pauli substitution) are proved for all angles over C. For every register size, basis specification "
                  "and circuit of constructible library gates with arbitrary real angles the model of resolve_gates returns a circuit "
                  "with exactly the same complex unitary (resolve_den), also under every assignment of the classical bits when "
                  "gates are classically controlled (resolve_den_cond: resolution commutes with execution); the result stays in the "
                  "basis (resolve_names); it raises iff some gate is not expressible, and then NotImplementedError (resolve_refuses_iff), "
                  "iff a measurement is present (resolve_refuses_measurement); a string basis is the one-element list and a list is "
                  "read as a set (basis_string_is_list, resolve_basis_perm); every label k*pi/m written by a rule is the angle of its "
                  "gate and every angle a rule writes is labelled (resolve_labels_true, rules_label_their_angles). The model is compared "
                  "with the implementation on every attribute of every emitted gate object (exhaustively for every placed gate x every "
                  "basis spec on 3 qubits, plain and as a labelled classically controlled gate).")
    level_note = ("Trusted: Lean kernel (propext, Classical.choice, Quot.sound); the exact gate library gateE (validated exhaustively "
                  "against the gate functions by C09's correspondence); behavioural extraction of the rule templates "
                  "(py/translate/decomp.py: probes carry a value in every field; validated on random placements/angles each run); "
                  "the hand model of the control flow (Pauli substitution, dispatch, two-qubit pass, elimination, measurement and basis "
                  "checks) is tied to the code by the correspondence only. Side conditions: resolve_den asks that RX RY RZ X Y Z have "
                  "no controls - what their constructors enforce (compared with the constructors each run); resolve_den_partial keeps "
                  "phOK for FIXED PHASEGATE angles (odd multiples of pi/8 are covered by resolve_den through a symbolic angle). "
                  "Model variants read from the tree: fixes/C03-2 (classical condition handed on), fixes/C03-3 (string basis is one "
                  "name); on the unrepaired tree the sweeps leave out the two recorded classes and the counter-example theorems "
                  "(condition_dropped_counterexample, substring_passthrough_counterexample) state the violation. Observation kept as "
                  "is: the phase marker of _gate_PHASEGATE carries the gate's label at half its angle (named in resolve_labels_true).")
    trusted_base = [
        "Lean 4.33 kernel; axioms propext, Classical.choice, Quot.sound; decide +kernel for the finite rule tables",
        "py/translate/decomp.py (behavioural extraction of rule templates and labels: linear in the angle, qubits only by reference, every other field plain), validated every run",
        "Model/Circuit.lean:gateE exact gate matrices (tied to the code by C09)",
        "py/props/c03.py harness (incl. source_variant: one classically controlled probe per stage of resolve_gates, one string-basis probe)",
    ]
    assumptions = ["rules are uniform in placement and affine in the input angle (checked on random instances every run)",
                   "a circuit handed to resolve_gates has no measurement (it is refused otherwise), so the classical bits do not change during a run",
                   "the model of resolve_gates is stateless: a call depends on its arguments only (compared on call histories "
                   "with one basis list object, the default argument and one processor; the caller's list must stay unchanged)"]
    rule = ("case = (register size, gate list with placements, exact/symbolic angles, labels, classical conditions, styles, "
            "measurements, user gates; basis specification); distinct by canonical JSON; non-trivial = at least one gate is "
            "rewritten or refused; plus one case per (one-qubit gate name, controls) for the constructors; plus call histories: "
            "several such calls made in one process with ONE basis list object (each call one case); object forms of the input "
            "gates (class instance, generic Gate, moved, _OneControlledGate) x containers of their qubits; live-object histories "
            "on one circuit (fields re-assigned, gates appended/removed between calls)")

    # ---------------------------------------------------------------------------------
    def regenerate(self, ctx):
        gate_rules, basis_rules, mods, changed = decomp.regenerate(ctx.seed)
        self.rule_mods = mods
        names = []
        for m in mods:
            names.append("QipVerif.Gen.sound_" + m[len("Rule_"):])
        self.theorems = names + list(self.fixed_theorems)
        # Props/C03 imports every rule module through the generated aggregator
        agg = "".join(f"import QipVerif.Gen.{m}\n" for m in mods) + \
            "/-! GENERATED: imports every rule-soundness module. -/\n"
        import os
        from vlib.paths import LEAN
        decomp.write_if_changed(os.path.join(LEAN, "QipVerif", "Gen", "DecompRulesAll.lean"), agg)
        # alias_same_class is a theorem about C09's constructor table: keep it current for the tree under check
        from translate import gatector
        gatector.regenerate()
        _VAR["v"] = None
        try:
            _VAR["v"] = source_variant()
        except TranslatorError:
            _VAR["v"] = (True, True)             # held to the repaired reading; the comparison then shows where
            raise
        finally:
            kc, ex = _VAR["v"]
            ctx.log("source shape: a rebuilt gate %s the classical condition of the gate it replaces (fixes/C03-2 %s); "
                    "a string basis is %s (fixes/C03-3 %s)"
                    % ((("keeps", "applied") if kc else ("drops", "not applied"))
                       + (("one name", "applied") if ex else ("searched for substrings", "not applied"))))
        return ["DecompTables.lean", "DecompLabels.lean", "DecompAlias.lean", "DecompVariant.lean", "GateCtor.lean"] + mods

    # ---------------------------------------------------------------------------------
    def _compare_one(self, res, N, gs, b, o, ist, r, qc, stream, w, extra_tags=()):
        """one call: the model's answer `o` against what the implementation did (ist, r, qc); `w` = witness recorded
        with a disagreement"""
        symvals = {g.sym: g.val for g in gs if g.sym is not None}
        st, mg = parse_model_f(o, symvals)
        inp = {"N": N, "gates": [g.js() for g in gs], "basis": list(b)}
        if "history" in w:
            inp = {"call": inp, "history_of": len(w["history"]), "basis_object": "shared"}
        rewritten = st != "ok" or len(mg) != len(gs) or any(m["src"] is None for m in mg)
        res.case(inp, nontrivial=rewritten,
                 tags=[f"basis={b[0]}", f"verdict={st.split(':')[0]}", f"len={min(len(gs), 6)}", f"stream={stream}",
                       "cond=%d" % any(g.cond is not None for g in gs), "label=%d" % any(g.lab is not None for g in gs)]
                 + list(extra_tags))
        if st != ist:
            res.disagree(inp, st, ist, "verdict of resolve_gates", w)
            return
        if st != "ok":
            return
        shown = [[g.name, aslist(g.targets), aslist(g.controls), g.arg_value, g.arg_label, g.classical_controls,
                  g.classical_control_value, g.control_value] for g in r.gates]
        if len(mg) != len(r.gates):
            res.disagree(inp, mg, shown, "resolved gate list (length)", w)
            return
        bad = None
        for m, og in zip(mg, r.gates):
            bad = field_mismatch(m, og, qc.gates)
            if bad:
                break
        if bad is None and (r.N != N or r.num_cbits != qc.num_cbits or r.reverse_states != qc.reverse_states):
            bad = f"circuit fields N/num_cbits/reverse_states: {r.N}/{r.num_cbits}/{r.reverse_states}"
        if bad is None and any(a is b_ for a in r.gates for b_ in qc.gates):
            bad = "the result shares a gate object with the input circuit"
        if bad:
            res.disagree(inp, mg, shown, "resolved gate list: " + bad, w)

    def _line(self, gs, b):
        kc, ex = variant()
        return f"resolvef v=1{int(kc)}{int(ex)} basis={basis_enc(b)} items={';'.join(g.enc_item() for g in gs) if gs else '-'}"

    def _run_cases(self, ctx, res, cases, stream="main"):
        outs = ctx.driver("drv_decomp").run([self._line(gs, b) for (N, gs, b) in cases])
        for (N, gs, b), o in zip(cases, outs):
            ist, r, qc = impl_resolve(N, gs, b, num_cbits(gs))
            w = {"N": N, "gates": [g.wit() for g in gs], "basis": list(b)}
            self._compare_one(res, N, gs, b, o, ist, r, qc, stream, w)

    FORM_BASES = [("str", "CNOT"), ("list", ["CSIGN", "RX", "RY"]), ("list", ["ISWAP", "RY", "RZ"]), ("str", "SQRTSWAP"),
                  ("list", ["SQRTISWAP", "ISWAP", "RX", "RZ"]), ("list", ["RX", "RY", "CNOT"])]

    def _form_cases(self, rng):
        """every resolvable gate (+ the aliases) in every form x container the constructors accept"""
        cases, skipped = [], 0
        for name in RESOLVABLE + ALIASES:
            nc, nt = shape(name)
            qs = list(range(nc + nt))
            rng.shuffle(qs)
            for form in FORMS[1:]:
                if form == "ctrl" and name not in ("CNOT", "CSIGN"):
                    continue
                for cont in CONTS:
                    if cont == "scalar" and (nt != 1 or nc > 1):
                        continue
                    kw = dict(form=form, cont=cont)
                    if rng.random() < 0.5:
                        kw.update(lab=("u", 3), cond=([1, 0], 2))
                    g = (G(name, qs[:nt], qs[nt:], sym=0, val=0.7390851332151607, **kw) if name in PARAM_ALL
                         else G(name, qs[:nt], qs[nt:], **kw))
                    try:
                        ok = all(usable(x) for x in build_circuit(3, [g], num_cbits([g])).gates)
                    except Exception:
                        ok = False
                    if not ok:
                        skipped += 1
                        continue
                    for b in self.FORM_BASES:
                        cases.append((3, [g], b))
        return cases, skipped

    # ---- live-object histories ----------------------------------------------------------------
    def _live_histories(self, rng, n):
        """{"live": {N, gates, ops}}; ops: ["R", basis] | ["T", i, ts] | ["C", i, cs] | ["A", i, value] | ["K", i, cond|None]
        | ["P", gate entry] | ["D", i]; edits keep every gate a library gate on distinct in-range qubits"""
        names = [n_ for n_ in RESOLVABLE + ALIASES if n_ not in ("SQRTSWAP", "SQRTISWAP")]
        for k in range(n):
            N = rng.randint(2, 3)
            cur = []
            while not cur:
                cur = [g for g in (random_gate(rng, N, names, i) for i in range(rng.randint(1, 4))) if g is not None]
            for g in cur:
                g.form = rng.choice(["name", "name", "class", "generic", "moved"])
            w = {"N": N, "gates": [g.wit() for g in cur], "ops": []}
            shapes = [(len(g.c), len(g.t), g.name) for g in cur]
            bases = [rng.choice(valid_bases()) for _ in range(2)]
            ops = [["R", list(bases[0])]]
            for _ in range(rng.randint(1, 4)):
                kind = rng.choice("TTAKPD") if shapes else "P"
                if kind == "T":
                    i = rng.randrange(len(shapes))
                    nc, nt, _n = shapes[i]
                    if nc + nt == 0:
                        continue
                    qs = rng.sample(range(N), nc + nt)
                    if nc:
                        ops.append(["C", i, qs[nt:]])
                    ops.append(["T", i, qs[:nt]])
                elif kind == "A":
                    cand = [i for i, sh in enumerate(shapes) if sh[2] in PARAM]
                    if cand:
                        ops.append(["A", rng.choice(cand), rng.choice([rng.uniform(-7, 7), math.pi, 0.0])])
                elif kind == "K":
                    i = rng.randrange(len(shapes))
                    ops.append(["K", i, rng.choice([None, [[0], 1], [[1, 0], 2], [[1], 0]])])
                elif kind == "P":
                    g = None
                    while g is None:
                        g = random_gate(rng, N, names, 100 + len(ops))
                    g.form = rng.choice(["name", "class", "generic"])
                    ops.append(["P", g.wit()])
                    shapes.append((len(g.c), len(g.t), g.name))
                elif kind == "D" and len(shapes) > 1:
                    i = rng.randrange(len(shapes))
                    ops.append(["D", i])
                    shapes.pop(i)
                if rng.random() < 0.3:
                    ops.append(["R", list(rng.choice(bases))])
            ops.append(["R", list(bases[1])])
            w["ops"] = ops
            yield {"live": w}

    def _play_live(self, w, judge=False):
        """execute a live history on ONE QubitCircuit -> list of per-call records
        (cur gates copy, basis, ist, r, qc_snapshot_equal, fresh (ist, r), qc); judge: the property evaluated at call time"""
        L = w["live"]
        N = L["N"]
        cur = gates_of_witness({"gates": L["gates"]})
        qc = build_circuit(N, cur, 2)
        fresh_sym = [1000]
        out = []
        for op in L["ops"]:
            k = op[0]
            if k == "R":
                b = (op[1][0], op[1][1] if op[1][0] == "str" else list(op[1][1]))
                before = [attrs(g) for g in qc.gates]
                obj = b[1] if b[0] == "str" else list(b[1])
                ist, r, _ = impl_resolve_on(qc, obj)
                same = before == [attrs(g) for g in qc.gates]
                snap = [G(g.name, g.t, g.c, sym=g.sym, p8=g.p8, val=g.val, lab=g.lab, cond=g.cond, style=g.style,
                          form=g.form, cont=g.cont) for g in cur]
                ist2, r2, qc2 = impl_resolve(N, snap, b, 2)
                out.append({"gates": snap, "basis": b, "ist": ist, "r": r, "untouched": same, "fresh": (ist2, r2, qc2),
                            "qc": qc, "inputs": copy.deepcopy(qc.gates),
                            "judged": self._judge(N, snap, b, ist, r, qc) if judge else None})
            elif k == "T":
                qc.gates[op[1]].targets = list(op[2])
                cur[op[1]].t = list(op[2])
            elif k == "C":
                qc.gates[op[1]].controls = list(op[2])
                cur[op[1]].c = list(op[2])
            elif k == "A":
                qc.gates[op[1]].arg_value = op[2]
                fresh_sym[0] += 1
                cur[op[1]].sym, cur[op[1]].val = fresh_sym[0], op[2]
            elif k == "K":
                g = qc.gates[op[1]]
                if op[2] is None:
                    g.classical_controls, g.classical_control_value = None, None
                    cur[op[1]].cond = None
                else:
                    g.classical_controls, g.classical_control_value = list(op[2][0]), op[2][1]
                    cur[op[1]].cond = (list(op[2][0]), op[2][1])
            elif k == "P":
                g = gates_of_witness({"gates": [op[1]]})[0]
                if g.sym is not None:
                    fresh_sym[0] += 1
                    g.sym = fresh_sym[0]
                add_gate_in_form(qc, g) if (g.form, g.cont) != ("name", "list") else \
                    qc.add_gate(g.name, targets=(g.t or None), controls=(g.c or None), **gate_kwargs(g))
                cur.append(g)
            elif k == "D":
                qc.remove_gate_or_measurement(index=op[1])
                cur.pop(op[1])
        return out

    def _live_line(self, w):
        """the request for Decomp.runHistory: the same history on the model's circuit"""
        kc, ex = variant()
        L = w["live"]
        cur = gates_of_witness({"gates": L["gates"]})
        items = ";".join(g.enc_item() for g in cur)
        d = lambda l: ".".join(map(str, l)) if l else "-"
        sym = [1000]
        ops = []
        for op in L["ops"]:
            k = op[0]
            if k == "R":
                ops.append("R~" + basis_enc((op[1][0], op[1][1])))
            elif k in ("T", "C"):
                ops.append(f"{k}~{op[1]}~{d(op[2])}")
            elif k == "A":
                sym[0] += 1
                ops.append(f"A~{op[1]}~{sym[0]},1,1,0")
            elif k == "K":
                ops.append(f"K~{op[1]}~" + ("n" if op[2] is None else f"{d(op[2][0])}:{op[2][1]}"))
            elif k == "P":
                g = gates_of_witness({"gates": [op[1]]})[0]
                if g.sym is not None:
                    sym[0] += 1
                    g.sym = sym[0]
                ops.append("P~" + g.enc_item())
            elif k == "D":
                ops.append(f"D~{op[1]}")
        return f"history v=1{int(kc)}{int(ex)} items={items} ops={'|'.join(ops)}"

    def _run_live(self, ctx, res, lives):
        outs = ctx.driver("drv_decomp").run([self._live_line(w) for w in lives])
        for w, o in zip(lives, outs):
            answers = o.split("#")
            try:
                calls = self._play_live(w)
            except FormRefused:
                res.hist["live=form-refused"] = res.hist.get("live=form-refused", 0) + 1
                continue
            except Exception as e:
                res.disagree({"live": w["live"]["ops"]}, o[:200], "harness: " + repr(e), "live history could not be played", w)
                continue
            if len(answers) != len(calls):
                res.disagree({"live": w["live"]["ops"]}, o[:200], len(calls), "number of resolve calls", w)
                continue
            for k, (c, a) in enumerate(zip(calls, answers)):
                class _Q:          # the input objects as they were at that call
                    gates = c["inputs"]
                    num_cbits, reverse_states = c["qc"].num_cbits, c["qc"].reverse_states
                self._compare_one(res, w["live"]["N"], c["gates"], c["basis"], a, c["ist"], c["r"], _Q, "live",
                                  {"live": w["live"], "history": w["live"]["ops"]}, [f"livecall={min(k + 1, 3)}"])
                if not c["untouched"]:
                    res.disagree({"live": w["live"]["ops"], "call": k + 1}, "circuit unchanged", "circuit changed",
                                 "resolve_gates modified the circuit it was called on", w)

    def _run_histories(self, ctx, res, hists):
        """histories: ONE basis list object handed to several resolve_gates calls made in this order.  The model is
        stateless: each call is compared with the model's answer for the basis as written; afterwards the caller's
        list must be what it was (argument purity, cf. C16/C20)."""
        flat = [(h, k) for h in hists for k in range(len(h["history"]))]
        lines = []
        for h, k in flat:
            c = h["history"][k]
            lines.append(self._line(gates_of_witness(c), ("list", list(h["basis"][1]))))
        outs = ctx.driver("drv_decomp").run(lines)
        pos = 0
        for h in hists:
            b = ("list", list(h["basis"][1]))
            obj = list(b[1])
            for k, c in enumerate(h["history"]):
                gs = gates_of_witness(c)
                ist, r, qc = impl_resolve(c["N"], gs, b, num_cbits(gs), basis_obj=obj)
                self._compare_one(res, c["N"], gs, b, outs[pos], ist, r, qc, "history", h, [f"call={min(k + 1, 3)}"])
                pos += 1
            if obj != b[1]:
                res.disagree({"history_of": len(h["history"]), "basis": list(b)}, b[1], obj,
                             "resolve_gates changed the caller's basis list", h)

    def correspondence(self, ctx, res):
        rng = ctx.rng
        kc, ex = variant()
        bases = valid_bases() + other_bases()
        # exhaustive: every placed gate on 3 qubits x every basis specification, plain and with a label + a
        # classical condition + a style on the gate
        cases, cases2 = [], []
        N = 3
        for name in RESOLVABLE + OTHERS + ALIASES + ALIAS_OTHERS:
            nc, nt = shape(name)
            for j, qs in enumerate(itertools.permutations(range(N), nc + nt)):
                mk = lambda **kw: (G(name, qs[:nt], qs[nt:], sym=0, val=0.7390851332151607, **kw) if name in PARAM_ALL
                                   else G(name, qs[:nt], qs[nt:], **kw))
                cond = [([0], 1), ([1, 0], 2), ([0, 2], 0)][j % 3]
                for b in bases:
                    cases.append((N, [mk()], b))
                    cases2.append((N, [mk(lab=("u", 7), cond=cond, style=({"tag": 1} if j % 2 else None))], b))
        self._run_cases(ctx, res, cases, "exhaustive")
        self._run_cases(ctx, res, cases2, "exhaustive-fields")
        res.exhaustive = True
        res.notes.append(f"exhaustive: every placement of every library gate on 3 qubits x {len(bases)} basis specifications, "
                         f"plain and as a labelled, classically controlled gate ({len(cases) + len(cases2)} cases, every "
                         "attribute of every emitted object compared); then seeded random sequences, measurements, user gates")
        res.notes.append("source variant: classical condition %s, string basis %s"
                         % ("kept (fixes/C03-2 applied)" if kc else "dropped on rebuilt gates (fixes/C03-2 not applied)",
                            "one name (fixes/C03-3 applied)" if ex else "substring test (fixes/C03-3 not applied)"))
        # random sequences with labels, conditions, styles
        n_rand = 4000 if ctx.thorough else 500
        cases = []
        for _ in range(n_rand):
            N = rng.randint(1, 5)
            L = rng.randint(0, 8)
            ncb = rng.choice([0, 1, 2, 3])
            names = RESOLVABLE + ALIASES if rng.random() < 0.8 else RESOLVABLE + OTHERS + ALIASES + ALIAS_OTHERS
            gs = [decorate(rng, g, i, ncb) for i, g in enumerate(random_gate(rng, N, names, i) for i in range(L))
                  if g is not None]
            b = rng.choice(valid_bases()) if rng.random() < 0.85 else rng.choice(other_bases())
            cases.append((N, gs, b))
        self._run_cases(ctx, res, cases, "random")
        # measurements: refused before anything else, whatever the basis
        cases = []
        for _ in range(300 if ctx.thorough else 60):
            N = rng.randint(1, 4)
            gs = [g for g in (random_gate(rng, N, RESOLVABLE, i) for i in range(rng.randint(0, 4))) if g is not None]
            for _ in range(rng.randint(1, 2)):
                gs.insert(rng.randint(0, len(gs)), G("M", [rng.randrange(N)], [], meas=True))
            cases.append((N, gs, rng.choice(bases)))
        self._run_cases(ctx, res, cases, "measurement")
        # user-defined gates: passed through iff named in the basis
        ubases = [("list", ["CNOT", "RX", "RY", "RZ", "MYG"]), ("list", ["NOT", "CSIGN", "RX", "RZ"]), ("str", "CNOT"),
                  ("list", ["CNOT"]), ("str", "SQRTISWAP"), ("list", ["ISWAP", "RY", "RZ", "MYG", "NOT"])]
        cases = []
        for ub in ubases:
            for un in USER_GATES:
                for q in range(2):
                    cases.append((2, [G(un, [q], [])], ub))
                    cases.append((2, [G("SNOT", [1 - q], []), G(un, [q], [], lab=("u", 1), cond=([0], 1)),
                                      G("CNOT", [q], [1 - q])], ub))
        self._run_cases(ctx, res, cases, "user-gates")
        # OBJECT FORM of the input gates x container of their qubits: the model is form-independent
        fcases, skipped = self._form_cases(rng)
        self._run_cases(ctx, res, fcases, "forms")
        res.notes.append(f"object forms: every resolvable gate as class instance / generic Gate / moved from another circuit / "
                         f"_OneControlledGate, qubits as list / tuple / numpy array / numpy integers / scalar, x 6 bases "
                         f"({len(fcases)} cases; {skipped} combinations the constructors refuse or build unusable)")
        # LIVE-OBJECT histories: one circuit resolved, its gates' fields re-assigned / gates appended / removed, resolved again
        lives = list(self._live_histories(rng, 60 if not ctx.thorough else 500))
        self._run_live(ctx, res, lives)
        res.notes.append(f"{len(lives)} live-object histories on one QubitCircuit (fields re-assigned, gates appended/removed between "
                         "resolve_gates calls in changing bases): each call against Decomp.runHistory, against a freshly built "
                         "circuit with the current fields, and the circuit itself unchanged by the call")
        # histories: one basis list OBJECT for several calls (every list basis; the later circuits contain gates whose
        # decomposition yields every rotation axis)
        hists = list(self._histories(rng, 40 if not ctx.thorough else 400))
        self._run_histories(ctx, res, hists)
        res.notes.append(f"{len(hists)} call histories with one basis list object (every list-form basis specification, "
                         "two-rotation bases first): each call compared with the stateless model, the caller's list unchanged")
        # the constructors: the side condition `buildable` of resolve_den (RX RY RZ X Y Z have no controls) is what
        # the gate classes accept
        from qutip_qip.circuit import QubitCircuit
        probes = []
        for name in RESOLVABLE + OTHERS:
            nc, nt = decomp.SHAPE[name]
            if nt != 1 or name == "GLOBALPHASE":
                continue
            for c in ([], [1], [1, 2]):
                probes.append(G(name, [0], c, p8=4))
        outs = ctx.driver("drv_decomp").run(["buildable gates=" + ";".join(g.enc() for g in probes)])[0].split(",")
        for g, m in zip(probes, outs):
            try:
                QubitCircuit(3).add_gate(g.name, targets=g.t, controls=(g.c or None), arg_value=g.value())
                impl = "1"
            except ValueError:
                impl = "0"
            except Exception as e:
                impl = "exc:" + type(e).__name__
            one_qubit_class = g.name in ("RX", "RY", "RZ", "X", "Y", "Z")
            res.case({"ctor": g.js()}, nontrivial=bool(g.c), tags=["stream=ctor"])
            # the model's predicate speaks about the six classes resolve_gates rebuilds from `targets` alone
            if one_qubit_class and m != impl:
                res.disagree({"ctor": g.js()}, m, impl, "constructor accepts controls on a one-qubit rotation / Pauli", None)

    # ---------------------------------------------------------------------------------
    def oracle_replay(self, ctx, w):
        try:
            return self._oracle_replay(ctx, w)
        except FormRefused as e:
            return False, f"outside the property: the constructors refuse this form of the gate ({e})"

    def _oracle_replay(self, ctx, w):
        if "live" in w:
            return self._replay_live(ctx, w)
        if "history" in w:
            return self._replay_history(ctx, w)
        gs = gates_of_witness(w)
        b = tuple(w["basis"])
        b = (b[0], b[1] if b[0] == "str" else list(b[1]))
        N = w["N"]
        ist, r, qc = impl_resolve(N, gs, b, num_cbits(gs))
        return self._judge(N, gs, b, ist, r, qc)

    def _replay_live(self, ctx, w):
        """ONE QubitCircuit object: resolve_gates calls interleaved with re-assignments of the gates' public fields and
        appended / removed gates.  Per call: (c) the property for the circuit as it is at that time; (a) the result equals
        resolve_gates of a freshly built circuit with the current fields (no stale memo, no state); (b) the call leaves the
        circuit alone."""
        try:
            calls = self._play_live(w, judge=True)
        except FormRefused:
            raise
        except Exception as e:
            return False, f"history not executable: {type(e).__name__}: {e}"
        n = len(calls)
        found = {}
        for k, c in enumerate(calls):
            pre = f"resolve_gates call {k + 1} of {n} on one circuit object (basis {c['basis'][1]}): "
            f, d = c["judged"]
            if f:
                found.setdefault("c", pre + d)
            ist2, r2, _ = c["fresh"]
            if c["ist"] != ist2 or (ist2 == "ok" and [attrs_cmp(g) for g in c["r"].gates] != [attrs_cmp(g) for g in r2.gates]):
                a = [g.name for g in c["r"].gates] if c["ist"] == "ok" else c["ist"]
                a2 = [g.name for g in r2.gates] if ist2 == "ok" else ist2
                found.setdefault("a", pre + f"gives {a}; a freshly built circuit with the current fields gives {a2}")
            if not c["untouched"]:
                found.setdefault("b", pre + "the call modified the circuit it was called on")
        for key in ("c", "a", "b"):
            if key in found:
                return True, found[key]
        return False, f"all {n} calls meet the property and equal the calls on a freshly built circuit"

    def _replay_history(self, ctx, w):
        """calls made in this order in one process with ONE basis list object (or the default argument, or one
        processor).  (c) every call meets the property for the basis as written; (a) every call gives what the same call
        gives with a fresh copy of the original list; (b) the caller's list is afterwards what it was (argument purity;
        C16/C20 ask the same of the simulators and the circuit methods)."""
        if w.get("api") == "transpile":
            return self._replay_processor(ctx, w)
        default = w["basis"][0] == "default"
        b = ("list", list(DEFAULT_BASIS if default else w["basis"][1]))
        obj = DEFAULT_ARG if default else list(b[1])
        n = len(w["history"])
        found = {}
        for k, c in enumerate(w["history"]):
            gs = gates_of_witness(c)
            ncb = num_cbits(gs)
            pre = (f"call {k + 1} of {n} made with " + ("the default basis argument" if default else f"one basis list object {b[1]}")
                   + ": ")
            ist, r, qc = impl_resolve(c["N"], gs, b, ncb, basis_obj=obj)
            f, d = self._judge(c["N"], gs, b, ist, r, qc)
            if f:
                found.setdefault("c", pre + d)
            ist2, r2, _ = impl_resolve(c["N"], gs, b, ncb)
            if ist != ist2 or (ist == "ok" and [attrs(g) for g in r.gates] != [attrs(g) for g in r2.gates]):
                a = [g.name for g in r.gates] if ist == "ok" else ist
                a2 = [g.name for g in r2.gates] if ist2 == "ok" else ist2
                found.setdefault("a", pre + f"gives {a}, the same call with a fresh list {b[1]} gives {a2}")
            now = self._default_now() if default else obj
            if now != b[1]:
                found.setdefault("b", pre + f"resolve_gates changed the caller's basis list {b[1]} to {now}")
        for key in ("c", "a", "b"):
            if key in found:
                return True, found[key]
        return False, f"all {n} calls meet the property, equal the calls with a fresh list, and leave the list alone"

    @staticmethod
    def _default_now():
        from qutip_qip.circuit import QubitCircuit
        d = QubitCircuit.resolve_gates.__defaults__
        return list(d[0]) if d else None

    def _replay_processor(self, ctx, w):
        """several circuits transpiled by ONE processor object (transpile hands self.native_gates to resolve_gates)"""
        from qutip_qip import device
        cls = getattr(device, w["dev"])
        M = w["M"]
        proc = cls(M)
        native0 = list(proc.native_gates)
        n = len(w["history"])
        for k, c in enumerate(w["history"]):
            gs = gates_of_witness(c)
            pre = f"circuit {k + 1} of {n} transpiled by one {w['dev']}({M}): "
            qc = build_circuit(c["N"], gs, num_cbits(gs))
            try:
                r = proc.transpile(qc)
                r2 = cls(M).transpile(build_circuit(c["N"], gs, num_cbits(gs)))
            except Exception as e:
                return True, pre + f"{type(e).__name__}: {e}"
            bad = sorted({g.name for g in r.gates} - set(native0) - {"GLOBALPHASE", "IDLE"})
            if bad:
                return True, pre + f"result contains {bad}, not native to the device {native0}"
            if [attrs(g) for g in r.gates] != [attrs(g) for g in r2.gates]:
                return True, pre + "differs from what a fresh processor returns"
            if list(proc.native_gates) != native0:
                return True, pre + f"native_gates of the processor changed from {native0} to {list(proc.native_gates)}"
            d = np.abs(qc.compute_unitary().full() - r.compute_unitary().full()).max()
            if d > 1e-9:
                return True, pre + f"unitary differs by {d:.3g}"
        return False, f"all {n} circuits transpiled onto native gates with the same unitary"

    def _judge(self, N, gs, b, ist, r, qc):
        """the property for ONE call: (N, gs) resolved in basis `b` gave (ist, r); qc = the input circuit"""
        ncb = num_cbits(gs)
        from qutip_qip.operations import Gate as _Gate
        if not all(usable(g) for g in qc.gates if isinstance(g, _Gate)):
            return False, ("outside the property: the circuit contains a gate object whose qubits the library itself cannot "
                           "read (e.g. CNOT(controls=(1,)) stores [(1,)] - a matter of the constructors, C09)")
        names = [b[1]] if b[0] == "str" else list(b[1])
        # a user's gate named in the list form of the basis is passed through; the rest of the list is judged as usual
        users = [n for n in names if n in USER_GATES] if b[0] == "list" else []
        core = b if not users else ("list", [n for n in names if n not in USER_GATES])
        valid = (core in valid_bases())
        if not valid:
            return False, "basis specification outside the property's class"
        if any(g.meas for g in gs):
            if ist == "ok":
                return True, "a circuit with a measurement was resolved (resolve_gates documents a refusal)"
            return False, f"circuit with a measurement: {ist}"
        b2 = [n for n in names if n in B2]
        inexpressible = [g.name for g in gs if (g.name not in RESOLVABLE + ALIASES and g.name not in users) or
                         (g.name in ("SQRTSWAP", "SQRTISWAP") and g.name not in b2)]
        if inexpressible:
            if ist == "ok":
                bad = [g.name for g in r.gates if g.name not in allowed_names(b) | set(users)]
                if bad:
                    return True, f"gates {inexpressible} are not expressible but the result contains {bad}"
            return False, f"verdict {ist}"
        if ist != "ok":
            return True, f"resolvable circuit refused: {ist}"
        bad = [g.name for g in r.gates if g.name not in allowed_names(b) | set(users)]
        if bad:
            return True, f"result contains gates outside the basis: {sorted(set(bad))}"
        for g in r.gates:
            d = object_defect(g)
            if d:
                return True, "emitted gate object: " + d
        # labels: if every label of the input says its angle, so does every label of the result (the phase marker of a
        # PHASEGATE is listed in notes/C03.md: it carries the label of the gate, at half the angle)
        if all(label_defect(g) is None for g in qc.gates):
            for g in r.gates:
                d = label_defect(g)
                if d and not (g.name == LABEL_TRUE_EXEMPT and any(x.name == "PHASEGATE" and x.arg_label == g.arg_label
                                                                  for x in qc.gates)):
                    return True, "emitted gate object: " + d
        if N <= 6 and ncb == 0:
            try:
                U0 = qc.compute_unitary().full()
            except Exception as e:
                return False, f"outside the property: the library cannot evaluate the circuit itself ({type(e).__name__}: {e})"
            try:
                U1 = r.compute_unitary().full()
            except Exception as e:
                return True, f"the resolved circuit cannot be evaluated: {type(e).__name__}: {e}"
            d = np.abs(U0 - U1).max()
            if d > 1e-9:
                return True, f"unitary differs by {d:.3g} (global phase included)"
        elif N <= 3 and ncb <= 3:
            if r.num_cbits != qc.num_cbits:
                return True, f"num_cbits {qc.num_cbits} -> {r.num_cbits}"
            for cb in itertools.product((0, 1), repeat=ncb):
                U0 = unitary_under(qc, N, cb)
                U1 = unitary_under(r, N, cb)
                d = np.abs(U0 - U1).max()
                if d > 1e-9:
                    return True, (f"for the classical bits {list(cb)} the resolved circuit applies an operator differing by "
                                  f"{d:.3g} from the one the original applies (classically controlled gates)")
        d = unlabelled_defect(qc, r)
        if d:
            return True, "emitted gate object: " + d
        return False, "same unitary, basis respected"

    @staticmethod
    def _axes_circuit():
        """a circuit whose resolution yields rotations about every axis (so that a skipped elimination shows)"""
        gs = [G("SNOT", [0], []), G("RZ", [1], [], sym=1, val=0.37), G("CNOT", [1], [0]), G("RY", [0], [], sym=3, val=-1.1),
              G("PHASEGATE", [1], [], sym=4, val=0.8), G("RX", [1], [], sym=5, val=0.5), G("CSIGN", [0], [1])]
        return {"N": 2, "gates": [g.wit() for g in gs]}

    def _list_bases(self):
        two = lambda b: len([n for n in b[1] if n in R1]) == 2
        ls = [b for b in valid_bases() if b[0] == "list"]
        return sorted(ls, key=lambda b: not two(b))

    def _histories(self, rng, n_rand):
        """every list-form basis (two-rotation bases first) used as ONE object for three calls; the default argument;
        then random histories"""
        small = {"N": 1, "gates": [G("X", [0], []).wit()]}
        for b in self._list_bases() + [b for b in other_bases() if b[0] == "list"]:
            yield {"basis": ["list", list(b[1])], "history": [small, self._axes_circuit(), self._axes_circuit()]}
        for _ in range(n_rand):
            b = rng.choice(self._list_bases())
            hist = []
            for _ in range(rng.randint(2, 4)):
                N = rng.randint(1, 3)
                gs = [g for g in (random_gate(rng, N, RESOLVABLE + ALIASES, i) for i in range(rng.randint(1, 5))) if g is not None]
                hist.append({"N": N, "gates": [g.wit() for g in gs]})
            yield {"basis": ["list", list(b[1])], "history": hist}

    def _form_witnesses(self):
        """every resolvable gate in every object form x container, a few bases (judged by the property only)"""
        mixed = mixed_containers_ok()
        for name in RESOLVABLE + ALIASES:
            nc, nt = shape(name)
            for form in FORMS:
                if form == "ctrl" and name not in ("CNOT", "CSIGN"):
                    continue
                for cont in CONTS:
                    if (form, cont) == ("name", "list") or (cont == "scalar" and (nt != 1 or nc > 1)):
                        continue
                    if not mixed and nc and cont in ("tuple", "array"):
                        continue                    # recorded class C03-5 (the emitted gates mix tuple and list)
                    g = G(name, list(range(nt)), list(range(nt, nt + nc)), sym=0 if name in PARAM_ALL else None, val=0.739,
                          form=form, cont=cont)
                    for b in self.FORM_BASES:
                        yield {"N": max(1, nc + nt), "gates": [g.wit()], "basis": list(b)}

    def _oracle_histories(self):
        small = {"N": 1, "gates": [G("X", [0], []).wit()]}
        for b in self._list_bases():
            yield {"basis": ["list", list(b[1])], "history": [small, self._axes_circuit(), self._axes_circuit()]}
        yield {"basis": ["default", None], "history": [small, self._axes_circuit()]}
        for dev in ("LinearSpinChain", "CircularSpinChain", "SCQubits", "DispersiveCavityQED"):
            yield {"api": "transpile", "dev": dev, "M": 3 if dev == "CircularSpinChain" else 2,
                   "history": [small, self._axes_circuit(), self._axes_circuit()]}

    def _rand_witness(self, rng):
        kc, ex = variant()
        N = rng.randint(1, 4)
        L = rng.randint(1, 5)
        gs = [g for g in (random_gate(rng, N, RESOLVABLE + ALIASES, i) for i in range(L)) if g is not None]
        if rng.random() < 0.35 and N <= 3:
            # labels always; classical conditions while the source hands them on (otherwise: recorded class C03-2)
            ncb = rng.choice([1, 2]) if kc else 0
            gs = [decorate(rng, g, i, ncb, p_cond=0.6) for i, g in enumerate(gs)]
        b = rng.choice(valid_bases())
        return {"N": N, "gates": [g.wit() for g in gs], "basis": list(b)}

    def _systematic(self):
        """single gates of every name x every valid basis: plain, classically controlled (if the source hands
        conditions on), and the gates without a rule in string bases (if a string basis is one name)"""
        kc, ex = variant()
        for name in RESOLVABLE + ALIASES:
            nc, nt = shape(name)
            N = max(1, nc + nt)
            for b in valid_bases():
                g = G(name, list(range(nt)), list(range(nt, nt + nc)), sym=0 if name in PARAM_ALL else None, val=0.739)
                yield {"N": N, "gates": [g.wit()], "basis": list(b)}
                if kc:
                    g.cond = ([0], 1)
                    yield {"N": N, "gates": [g.wit()], "basis": list(b)}
        if keeps_user_gates():                  # otherwise: recorded class C03-4
            for un in USER_GATES:
                for b in valid_bases():
                    if b[0] == "list":
                        yield {"N": 2, "gates": [G("SNOT", [1], []).wit(), G(un, [0], []).wit(), G("CNOT", [0], [1]).wit()],
                               "basis": ["list", list(b[1]) + [un]]}
        for name in OTHERS + ALIAS_OTHERS:
            nc, nt = shape(name)
            for b in valid_bases():
                if b[0] == "str" and not ex:
                    continue                    # recorded class C03-3
                g = G(name, list(range(nt)), list(range(nt, nt + nc)), sym=0 if name in PARAM_ALL else None, val=0.739)
                yield {"N": max(1, nc + nt), "gates": [g.wit()], "basis": list(b)}

    def oracle_search(self, ctx, budget_s):
        t0 = time.time()
        for w in itertools.chain(self._oracle_histories(), self._form_witnesses(), self._live_histories(ctx.rng, 150)):
            f, d = self.oracle_replay(ctx, w)
            if f:
                yield w, d
        for w in self._systematic():
            f, d = self.oracle_replay(ctx, w)
            if f:
                yield w, d
            if time.time() - t0 > budget_s:
                return
        while time.time() - t0 < budget_s:
            w = self._rand_witness(ctx.rng)
            f, d = self.oracle_replay(ctx, w)
            if f:
                yield w, d

    def oracle_always(self, ctx):
        fw = list(self._form_witnesses())
        if not ctx.thorough:
            fw = ctx.rng.sample(fw, min(len(fw), 250))
        refused = 0
        for w in itertools.chain(self._oracle_histories(), fw, self._live_histories(ctx.rng, 40 if not ctx.thorough else 300)):
            f, d = self.oracle_replay(ctx, w)
            if f:
                yield w, d
            elif "the constructors refuse this form" in d:
                refused += 1
        ctx.log(f"oracle sweep: {len(fw)} object-form witnesses, {refused} skipped (form refused by the constructors)")
        if ctx.thorough:
            for w in self._histories(ctx.rng, 200):
                f, d = self.oracle_replay(ctx, w)
                if f:
                    yield w, d
        ws = list(self._systematic())
        if not ctx.thorough:
            ws = ctx.rng.sample(ws, min(len(ws), 150))
        for w in ws:
            f, d = self.oracle_replay(ctx, w)
            if f:
                yield w, d
        for _ in range(120 if not ctx.thorough else 1500):
            w = self._rand_witness(ctx.rng)
            f, d = self.oracle_replay(ctx, w)
            if f:
                yield w, d


CHECK = C03()
