"""C07 — nearest-neighbour routing.  Correspondence of lean/QipVerif/Model/Route.lean with
qutip_qip.transpiler.chain.to_chain_structure and QubitCircuit.adjacent_gates (gate lists are
compared exactly), plus the direct statement of the property on the real code (indices in
range, adjacency, pass-through, and equality of the unitary: dense matrices up to 7 qubits and
an exact permutation-tracking normal form for every size)."""
import itertools, re, time
import numpy as np

from vlib.core import PropertyCheck

CTL = ("CNOT", "CSIGN")
SWP = ("SWAP", "ISWAP", "SQRTISWAP", "SQRTSWAP", "BERKELEY", "SWAPalpha")
HANDLED = CTL + SWP
SYMMETRIC = SWP + ("CSIGN",)
ALPHA = 0.3125          # arg_value used for SWAPalpha (dyadic)


def _impl():
    from qutip_qip.circuit import QubitCircuit
    from qutip_qip.operations import Gate, Measurement
    from qutip_qip.transpiler.chain import to_chain_structure
    return QubitCircuit, Measurement, Gate, to_chain_structure


# ----------------------------------------------------------------------------------------
# witness format: {"N", "setup", "api": "chain"|"adjacent", "gates": [gate dict, ...]}
# gate dict: {"name", "controls", "targets", "arg", "cc", "ccv", "raw"}   (raw: built with the base
# class Gate, which validates nothing) or {"meas": name, "targets", "cs"}

def gd(name, controls=None, targets=None, arg=None, cc=None, ccv=None, raw=False):
    return {"name": name, "controls": controls, "targets": targets, "arg": arg, "cc": cc, "ccv": ccv,
            "raw": raw}


def build(w):
    """Circuit of a witness -> (qc, None) or (None, exception class name at construction)."""
    QubitCircuit, Measurement, Gate, _ = _impl()
    qc = QubitCircuit(w["N"], num_cbits=3)
    try:
        for g in w["gates"]:
            if "meas" in g:
                qc.add_measurement(g["meas"], targets=g["targets"], classical_store=g["cs"])
            elif g.get("raw"):
                qc.add_gate(Gate(g["name"], targets=g["targets"], controls=g["controls"], arg_value=g["arg"]))
            else:
                kw = {}
                if g["cc"] is not None:
                    kw = {"classical_controls": g["cc"], "classical_control_value": g["ccv"]}
                qc.add_gate(g["name"], targets=g["targets"], controls=g["controls"], arg_value=g["arg"], **kw)
    except Exception as e:
        return None, type(e).__name__
    return qc, None


class Tags:
    """Opaque integer labels for the parts of a gate the router never inspects."""

    def __init__(self):
        self.names, self.args, self.extras, self.meas = {}, {None: 0}, {}, {}

    @staticmethod
    def _t(table, key, start):
        if key not in table:
            table[key] = len(table) + start
        return table[key]

    def gate(self, g):
        _QubitCircuit, Measurement, _Gate, _ = _impl()
        if isinstance(g, Measurement):
            k = self._t(self.meas, (g.name, tuple(g.targets), g.classical_store), 0)
            return f"m{k}//{','.join(map(str, g.targets))}/0/0"
        if isinstance(g.name, Measurement):
            # a Gate whose *name* is a Measurement object (what the unrepaired router makes of a measurement)
            m = g.name
            k = self._t(self.meas, (m.name, tuple(m.targets), m.classical_store), 0)
            return "m%d/%s/%s/0/0" % (k, ",".join(map(str, g.controls or [])), ",".join(map(str, g.targets or [])))
        name = g.name if g.name in HANDLED else "o%d" % self._t(self.names, g.name, 0)
        av = g.arg_value
        akey = None if av is None else repr(tuple(av) if isinstance(av, (list, tuple, np.ndarray)) else av)
        a = self._t(self.args, akey, 0)
        cc = None if g.classical_controls is None else tuple(g.classical_controls)
        ekey = (cc, g.classical_control_value)
        if g.name not in HANDLED:
            ekey = ekey + (g.control_value,)
        if ekey in ((None, None), (None, None, None)):
            x = 0
        else:
            x = self._t(self.extras, ekey, 1)
        cs = "" if g.controls is None else ",".join(map(str, g.controls))
        ts = "" if g.targets is None else ",".join(map(str, g.targets))
        return f"{name}/{cs}/{ts}/{a}/{x}"


def run_impl(qc, api, setup):
    _, _, _, to_chain_structure = _impl()
    try:
        r = to_chain_structure(qc, setup) if api == "chain" else qc.adjacent_gates()
        return "ok", r
    except (IndexError, TypeError):
        return "err shape", None
    except NotImplementedError:
        return "err notimpl", None
    except ValueError:
        return "err value", None
    except Exception as e:
        return "other:" + type(e).__name__, None


def request(tags, w, variant=None):
    gs = ";".join(tags.gate(g) for g in w["_qc"].gates)
    v = "" if variant is None else f" variant={variant}"
    if w["api"] == "chain":
        return f"route n={w['N']} setup={w['setup']}{v} gates={gs}"
    return f"adjacent{v} gates={gs}"


# ----------------------------------------------------------------------------------------
# the property on the real code

def qubits_of(g):
    return list(getattr(g, "controls", None) or []) + list(g.targets or [])


def adjacent(setup, N, a, b):
    if abs(a - b) == 1:
        return True
    return setup == "circular" and {a, b} == {0, N - 1}


def normal_form(N, gates):
    """Exact permutation-tracking evaluation: SWAPs move logical qubits, every other operation is
    recorded on the logical qubits it acts on.  Equal normal forms => equal unitaries."""
    _QubitCircuit, Measurement, _Gate, _ = _impl()
    at = list(range(N))          # at[physical] = logical qubit sitting there
    rec = []
    for g in gates:
        if isinstance(g, Measurement):
            rec.append(("meas", g.name, tuple(at[q] for q in g.targets), g.classical_store))
            continue
        if g.name == "SWAP" and not g.controls and g.classical_controls is None:
            i, j = g.targets
            at[i], at[j] = at[j], at[i]
            continue
        cs = tuple(at[q] for q in (g.controls or []))
        ts = tuple(at[q] for q in (g.targets or []))
        if g.name in SYMMETRIC:
            cs, ts = (), tuple(sorted(cs + ts))
        av = g.arg_value
        rec.append((g.name, cs, ts, None if av is None else repr(av),
                    None if g.classical_controls is None else tuple(g.classical_controls),
                    g.classical_control_value))
    return rec, at


def check_property(w):
    """(fails, detail) for one witness: a circuit of well-formed in-range gates."""
    _QubitCircuit, Measurement, _Gate, _ = _impl()
    N, setup, api = w["N"], w["setup"], w["api"]
    qc, exc = build(w)
    if qc is None:
        return False, f"not constructible ({exc})"
    for g in qc.gates:
        qs = qubits_of(g)
        if any(not (0 <= q < N) for q in qs) or len(set(qs)) != len(qs):
            return False, "outside the property's domain (qubit out of range or repeated)"
        if not isinstance(g, Measurement) and g.name in HANDLED and (
                len(qs) != 2 or len(g.targets) != (1 if g.name in CTL else 2)):
            return False, "outside the property's domain (malformed handled gate)"
    if setup not in ("linear", "circular"):
        return False, "outside the property's domain (setup)"
    st, r = run_impl(qc, api, setup if api == "chain" else None)
    unhandled = [g for g in qc.gates if isinstance(g, Measurement) or g.name not in HANDLED]
    if api == "adjacent":
        setup = "linear"
        if unhandled:
            return (st != "err notimpl"), f"adjacent_gates on an unhandled gate: {st}"
    if st != "ok":
        return True, f"routing raised ({st})"
    out = r.gates
    # (i) indices, (ii) adjacency of every gate the router emitted
    passed = []
    for g in out:
        if isinstance(g, Measurement) or isinstance(g.name, Measurement) or g.name not in HANDLED:
            passed.append(g)
            continue
        qs = qubits_of(g)
        if any(not (0 <= q < N) for q in qs):
            return True, f"qubit index out of range in {g.name}{qs} (N={N})"
        if len(qs) != 2 or not adjacent(setup, N, qs[0], qs[1]):
            return True, f"{g.name}{qs} does not act on neighbours of the {setup} chain (N={N})"
    # (iv) pass-through unchanged and in order
    if len(passed) != len(unhandled) or any(a is not b and vars(a) != vars(b) for a, b in zip(passed, unhandled)):
        return True, "unhandled gates are not passed through unchanged and in order"
    # (v) same operation: exact normal form for every N
    nf0, nf1 = normal_form(N, qc.gates), normal_form(N, out)
    if nf0 != nf1:
        what = "final permutation %s instead of %s" % (nf1[1], nf0[1])
        for k, (a, b) in enumerate(itertools.zip_longest(nf0[0], nf1[0])):
            if a != b:
                what = f"operation {k} on logical qubits is {b} instead of {a}"
                break
        return True, "routed circuit is not the input circuit (exact permutation tracking): " + what
    # dense unitaries up to 7 qubits
    unitary = all(not isinstance(g, Measurement) and g.classical_controls is None for g in qc.gates)
    if unitary and N <= 7:
        try:
            U0 = qc.compute_unitary().full()
        except Exception as e:
            return False, f"input circuit has no unitary ({type(e).__name__})"
        try:
            U1 = r.compute_unitary().full()
        except Exception as e:
            return True, f"routed circuit has no unitary ({type(e).__name__}: {e})"
        d = float(np.abs(U0 - U1).max())
        if d > 1e-9:
            return True, f"unitary of the routed circuit differs by {d:.3g}"
    return False, "routed circuit meets the property"


def single(N, setup, name, a, b, api="chain"):
    if name in CTL:
        g = gd(name, controls=[a], targets=[b])
    else:
        g = gd(name, targets=[a, b], arg=ALPHA if name == "SWAPalpha" else None)
    return {"N": N, "setup": setup, "api": api, "gates": [g]}


def random_gate(rng, N, allow_meas=True, handled_only=False):
    r = rng.random()
    if N >= 2 and (handled_only or r < 0.6):
        name = rng.choice(HANDLED)
        a, b = rng.sample(range(N), 2)
        return single(N, "", name, a, b)["gates"][0]
    kind = rng.choice(["RX", "SNOT", "CPHASE", "TOFFOLI", "FREDKIN", "GLOBALPHASE", "CX", "CZ", "cc", "meas", "RZ"])
    if kind in ("RX", "RZ"):
        return gd(kind, targets=[rng.randrange(N)], arg=rng.choice([0.25, 0.5, 1.5]))
    if kind == "SNOT":
        return gd("SNOT", targets=[rng.randrange(N)])
    if kind in ("CPHASE", "CX", "CZ") and N >= 2:
        a, b = rng.sample(range(N), 2)
        return gd(kind, controls=[a], targets=[b], arg=0.75 if kind == "CPHASE" else None)
    if kind == "TOFFOLI" and N >= 3:
        a, b, c = rng.sample(range(N), 3)
        return gd("TOFFOLI", controls=[a, b], targets=[c])
    if kind == "FREDKIN" and N >= 3:
        a, b, c = rng.sample(range(N), 3)
        return gd("FREDKIN", controls=[a], targets=[b, c])
    if kind == "GLOBALPHASE":
        return gd("GLOBALPHASE", arg=0.5)
    if kind == "cc":
        return gd("X", targets=[rng.randrange(N)], cc=[rng.randrange(3)], ccv=1)
    if kind == "meas" and allow_meas:
        return {"meas": "M%d" % rng.randrange(3), "targets": [rng.randrange(N)], "cs": rng.randrange(3)}
    return gd("SNOT", targets=[rng.randrange(N)])


def random_circuit(rng, maxN=12, maxlen=10):
    N = rng.randint(2, maxN)
    api = "adjacent" if rng.random() < 0.3 else "chain"
    setup = rng.choice(["linear", "circular", "circular"])
    n = rng.randint(1, maxlen)
    pure = api == "adjacent" and rng.random() < 0.8
    gates = [random_gate(rng, N, allow_meas=(rng.random() < 0.5), handled_only=pure) for _ in range(n)]
    return {"N": N, "setup": setup, "api": api, "gates": gates}


def malformed_circuit(rng):
    """Shapes and indices outside the property's domain; the model must still agree with the code."""
    N = rng.randint(1, 8)
    api = "adjacent" if rng.random() < 0.25 else "chain"
    setup = rng.choice(["linear", "circular", "circular", "ring", ""])
    if setup == "":
        setup = "none"
    gates = []
    for _ in range(rng.randint(1, 3)):
        mode = rng.choice(["same", "big", "raw-noctl", "raw-long", "raw-short", "swap-ctl", "valid", "cnot-cc",
                           "ctl-arg"])
        hi = N + 3
        if mode == "same":
            a = rng.randrange(hi)
            gates.append(single(N, "", rng.choice(HANDLED), a, a)["gates"][0])
        elif mode == "big":
            a, b = rng.sample(range(hi + 4), 2)
            gates.append(single(N, "", rng.choice(HANDLED), a, b)["gates"][0])
        elif mode == "raw-noctl":
            gates.append(gd(rng.choice(CTL), targets=rng.sample(range(hi), 2), raw=True))
        elif mode == "raw-long":
            qs = rng.sample(range(hi + 2), 4)
            gates.append(gd(rng.choice(HANDLED), controls=qs[:rng.randint(1, 2)], targets=qs[2:2 + rng.randint(1, 2)],
                            raw=True))
        elif mode == "raw-short":
            gates.append(gd(rng.choice(SWP), targets=[rng.randrange(hi)], raw=True))
        elif mode == "swap-ctl":
            a, b = rng.sample(range(hi), 2)
            gates.append(gd(rng.choice(SWP[:5]), controls=[a], targets=[b]))
        elif mode == "cnot-cc" and N >= 2:
            a, b = rng.sample(range(N), 2)
            gates.append(gd(rng.choice(CTL), controls=[a], targets=[b], cc=[0], ccv=1))
        elif mode == "ctl-arg" and N >= 2:
            a, b = rng.sample(range(N), 2)
            gates.append(gd(rng.choice(CTL), controls=[a], targets=[b], arg=0.5, raw=True))
        else:
            gates.append(random_gate(rng, max(N, 2)))
    return {"N": N, "setup": setup, "api": api, "gates": gates}


class C07(PropertyCheck):
    id = "C07"
    lean_modules = ["QipVerif.Props.C07"]
    drivers = ["drv_route"]
    theorems = ["QipVerif.C07." + t for t in (
        "route_in_range", "route_adjacent", "route_shape_ctl", "route_shape_swp", "route_passthrough",
        "route_concat", "route_append", "route_total", "circuit_passthrough_order", "circuit_in_range",
        "circuit_adjacent", "route_den_gate", "route_den", "adjacent_gates_eq_linear",
        "adjacent_gates_refuses_measurement", "swapLaws_C", "swapLaws_C_full", "route_den_gate_C", "route_den_C",
        "C07_counterexample_range_old", "C07_counterexample_roles_old",
        "C07_counterexample_arg_old", "C07_counterexample_meas_old")]
    technique = ("Lean 4 proof (closed form of the routing loop by induction, permutation tracking, monoid-level "
                 "conjugation argument) + exhaustive model/implementation correspondence on gate lists")
    level_text = ("Lean 4 theorems about the model of to_chain_structure / adjacent_gates with the repairs "
                  "fixes/C07-1..4 applied, for every register size N, both topologies, every ordered pair of distinct "
                  "in-range qubits and every handled gate name (no bound): all emitted indices < N; every emitted gate is "
                  "a two-qubit gate on neighbours (or the wrap pair of a ring); the output is S ++ [G] ++ reverse(S) with S "
                  "SWAPs that move control to G's control and target to G's target; unhandled gates pass through "
                  "unchanged and in order, circuits are routed gate by gate; and over any monoid with the single "
                  "hypothesis SwapLaws the routed circuit has the same product. The code as found violates the property "
                  "(four counter-example theorems, each confirmed on the real code). The model is tied to the code by an "
                  "exhaustive comparison of gate lists for N <= 14 (quick) / 40 (thorough).")
    level_note = ("Trusted: Lean kernel (axioms propext, Classical.choice, Quot.sound); the harness py/props/c07.py; the "
                  "instantiation of SwapLaws for the complex gate matrices is Lemmas/RouteC.lean (route_den_C: no hypothesis about "
                  "matrices left).")
    trusted_base = [
        "Lean 4.33 kernel; axioms propext, Classical.choice, Quot.sound",
        "py/props/c07.py (harness: gate objects -> (name, controls, targets, arg label, extra label))",
    ]
    assumptions = [
        "SwapLaws (Lemmas/RouteDen.lean): SWAP(i,j)^2 = 1, SWAP(i,j) G SWAP(i,j) = G relabelled by (i j) for two-qubit "
        "gates on distinct in-range qubits, exchange-type gates are symmetric in their two targets",
        "handled input gates are well-formed (one control + one target, resp. two targets, distinct, in range) and carry "
        "no classical controls (the router does not copy them); other inputs are covered by the correspondence only",
    ]
    rule = ("case = (N, setup, api, gate list); exhaustive stream: one handled gate on every ordered pair of distinct "
            "qubits; non-trivial = at least one handled gate on non-neighbouring qubits; malformed stream counted "
            "separately")

    # ---------------------------------------------------------------------------------
    def _compare(self, ctx, res, ws, tags_of):
        """Run model and implementation on the witnesses `ws` (those that can be constructed)."""
        tags = Tags()
        live, lines = [], []
        for w in ws:
            qc, exc = build(w)
            pub = {k: v for k, v in w.items() if not k.startswith("_")}
            if qc is None:
                # the constructor refused: nothing reaches the router
                res.case(pub, nontrivial=False, tags=["constructor-refuses=" + exc])
                continue
            w["_qc"] = qc
            live.append(w)
            lines.append(request(tags, w))
        outs = ctx.driver("drv_route").run(lines)
        for w, line, o in zip(live, lines, outs):
            qc = w.pop("_qc")
            pub = dict(w)
            st, r = run_impl(qc, w["api"], w["setup"])
            impl = st if r is None else "ok " + ";".join(tags.gate(g) for g in r.gates)
            res.case(pub, nontrivial=tags_of(w)[0], tags=tags_of(w)[1] + ["verdict=" + impl.split(" ")[0] + (
                " " + impl.split(" ")[1] if impl.startswith("err") else "")])
            if impl != o:
                what = "routed gate lists differ"
                if len(res.disagreements) < 3:
                    w["_qc"] = qc
                    for v in ["0000"] + ["".join(b) for b in itertools.product("01", repeat=4)][1:-1]:
                        if ctx.driver("drv_route").run([request(tags, w, v)])[0] == impl:
                            what += (f"; the implementation behaves like model variant {v} "
                                     "(bits: C07-1 mod-N fix, C07-2 role fix, C07-3 arg_value fix, C07-4 measurement fix)")
                            break
                    w.pop("_qc")
                res.disagree(pub, o, impl, what, pub)

    @staticmethod
    def _tags_single(w):
        g = w["gates"][0]
        a, b = (g["controls"][0], g["targets"][0]) if g["name"] in CTL else g["targets"]
        d = abs(a - b)
        N = w["N"]
        path = "fwd" if (w["setup"] == "linear" or d <= N // 2) else ("wrap" if d == N - 1 else "bwd")
        par = "odd" if (d if path == "fwd" else N - d) % 2 else "even"
        return d > 1, [f"N={N}", f"setup={w['setup']}", f"gate={g['name']}", f"path={path}-{par}"]

    @staticmethod
    def _tags_multi(w):
        far = False
        kinds = set()
        for g in w["gates"]:
            if "meas" in g:
                kinds.add("meas")
                continue
            if g["name"] in HANDLED and not g.get("raw"):
                qs = (g["controls"] or []) + (g["targets"] or [])
                if len(qs) == 2 and abs(qs[0] - qs[1]) > 1:
                    far = True
                kinds.add("handled")
            else:
                kinds.add("unhandled")
        return far, [f"api={w['api']}", f"len={len(w['gates'])}", "kinds=" + "+".join(sorted(kinds)),
                     f"setup={w['setup']}"]

    def correspondence(self, ctx, res):
        rng = ctx.rng
        maxN = 40 if ctx.thorough else 14
        for N in range(2, maxN + 1):
            ws = [single(N, setup, name, a, b)
                  for setup in ("linear", "circular") for name in HANDLED
                  for a, b in itertools.permutations(range(N), 2)]
            if N <= 10:
                ws += [single(N, "linear", name, a, b, api="adjacent") for name in HANDLED
                       for a, b in itertools.permutations(range(N), 2)]
            self._compare(ctx, res, ws, self._tags_single)
        res.exhaustive = True
        res.notes.append(f"exhaustive over all (N <= {maxN}, setup in linear/circular, gate in {'/'.join(HANDLED)}, "
                         "ordered pair of distinct qubits) for to_chain_structure, and N <= 10 for adjacent_gates; "
                         "gate lists compared exactly")
        n_multi = 6000 if ctx.thorough else 1200
        ws = [random_circuit(rng, maxN=24 if ctx.thorough else 12) for _ in range(n_multi)]
        self._compare(ctx, res, ws, self._tags_multi)
        n_mal = 4000 if ctx.thorough else 800
        ws = [malformed_circuit(rng) for _ in range(n_mal)]
        self._compare(ctx, res, ws, lambda w: (True, ["malformed", f"api={w['api']}"]))

    # ---------------------------------------------------------------------------------
    def oracle_replay(self, ctx, w):
        return check_property(w)

    def _sweep(self, maxN, names):
        for N in range(2, maxN + 1):
            for setup in ("linear", "circular"):
                for name in names:
                    for a, b in itertools.permutations(range(N), 2):
                        yield single(N, setup, name, a, b)

    def oracle_search(self, ctx, budget_s):
        t0 = time.time()
        for w in self._sweep(16, HANDLED):
            f, d = check_property(w)
            if f:
                yield w, d
            if time.time() - t0 > budget_s:
                return
        while time.time() - t0 < budget_s:
            w = random_circuit(ctx.rng, maxN=20)
            f, d = check_property(w)
            if f:
                yield w, d

    def oracle_always(self, ctx):
        """Sweep of the property on the real code; one witness (the first = smallest) per kind of failure."""
        seen = set()

        def stream():
            yield {"N": 2, "setup": "linear", "api": "chain", "gates": [{"meas": "M0", "targets": [1], "cs": 0}]}
            yield from self._sweep(11, ("CNOT",))
            yield from self._sweep(5, HANDLED)
            yield from self._sweep(9, ("SWAPalpha",))
            for _ in range(150):
                yield random_circuit(ctx.rng, maxN=9)

        for w in stream():
            f, d = check_property(w)
            if f:
                kind = re.sub(r"\d+", "#", d)[:70]
                if kind not in seen:
                    seen.add(kind)
                    yield w, d


CHECK = C07()
