"""C07 — nearest-neighbour routing.  Correspondence of lean/QipVerif/Model/Route.lean with
qutip_qip.transpiler.chain.to_chain_structure and QubitCircuit.adjacent_gates (gate lists are
compared exactly), plus the direct statement of the property on the real code (indices in
range, adjacency, pass-through, and equality of the unitary: dense matrices up to 7 qubits and
an exact permutation-tracking normal form for every size).

Streams of the correspondence: every single handled gate on every ordered pair (exhaustive);
SYSTEMATIC multi-gate circuits for every pair of every register (both orientations of the pair,
repeated gates, the same pair under different names / arguments, exchange gates before and after
controlled gates); HISTORIES of several calls in one process (orientations, setups, register sizes
and the two APIs alternating; the same circuit object routed twice); conditioned gates; random
circuits; a malformed stream.  A witness is one circuit or {"history": [circuit, ...]} (all calls in
one process, in order); a failing witness is re-run in a FRESH interpreter and, if it only fails
after earlier calls of this process, the shortest failing suffix of the call log becomes the
witness (so that `./check C07 --replay` reproduces)."""
import ast, itertools, json, os, re, subprocess, sys, time
import numpy as np

from vlib.core import PropertyCheck, TranslatorError
from vlib import paths
from props import _fresh
from translate import devices as T_dev

CTL = ("CNOT", "CSIGN")
SWP = ("SWAP", "ISWAP", "SQRTISWAP", "SQRTSWAP", "BERKELEY", "SWAPalpha")
HANDLED = CTL + SWP
ORD = ("RZX",)          # ordered two-target gates: routed once fixes/C13-3.patch is in place (source_rz)
MODEL_NAMES = HANDLED + ORD
SYMMETRIC = SWP + ("CSIGN", "SWAPALPHA")
ALPHA = 0.3125          # arg_value used for SWAPalpha (dyadic)


def _impl():
    from qutip_qip.circuit import QubitCircuit
    from qutip_qip.operations import Gate, Measurement
    from qutip_qip.transpiler.chain import to_chain_structure
    return QubitCircuit, Measurement, Gate, to_chain_structure


# ----------------------------------------------------------------------------------------
# witness format: {"N", "setup", "api": "chain"|"adjacent", "gates": [gate dict, ...]}
# gate dict: {"name", "controls", "targets", "arg", "cc", "ccv", "raw"}   (raw: built with the base
# class Gate, which validates nothing) or {"meas": name, "targets", "cs"}

def gd(name, controls=None, targets=None, arg=None, cc=None, ccv=None, raw=False):
    return {"name": name, "controls": controls, "targets": targets, "arg": arg, "cc": cc, "ccv": ccv,
            "raw": raw}


# ----------------------------------------------------------------------------------------
# T: which variant of the code is in the tree (fixes/C07-5.patch: the re-emitted gate keeps the
# classical condition).  Read with `ast`; anything else is "not recognised".

def source_variant(repo=None):
    """-> True / False: do to_chain_structure and adjacent_gates hand the classical condition of the
    routed gate to the gate they emit for it (`**_condition(gate)` at EVERY such call)?"""
    repo = repo or paths.REPO
    found = []
    for rel, fname, is_site in (
            ("src/qutip_qip/transpiler/chain.py", "to_chain_structure",
             lambda n: isinstance(n.func, ast.Attribute) and n.func.attr == "add_gate"),
            ("src/qutip_qip/circuit/circuit.py", "adjacent_gates",
             lambda n: isinstance(n.func, ast.Name) and n.func.id == "Gate")):
        path = os.path.join(repo, rel)
        try:
            tree = ast.parse(open(path).read())
        except Exception as e:
            raise TranslatorError(f"{rel}: {type(e).__name__}: {e}")
        fns = [n for n in ast.walk(tree) if isinstance(n, ast.FunctionDef) and n.name == fname]
        if len(fns) != 1:
            raise TranslatorError(f"{rel}: function {fname} not found")
        sites = []
        for n in ast.walk(fns[0]):
            if isinstance(n, ast.Call) and is_site(n) and n.args and isinstance(n.args[0], ast.Attribute) \
                    and n.args[0].attr == "name" and isinstance(n.args[0].value, ast.Name):
                var = n.args[0].value.id
                named = {k.arg for k in n.keywords if k.arg}
                star = [k.value for k in n.keywords if k.arg is None]
                keeps = any(isinstance(v, ast.Call) and isinstance(v.func, ast.Name) and v.func.id == "_condition"
                            and len(v.args) == 1 and isinstance(v.args[0], ast.Name) and v.args[0].id == var
                            for v in star)
                if {"classical_controls", "classical_control_value"} & named or (star and not keeps):
                    raise TranslatorError(f"{rel}:{n.lineno}: unrecognised way of passing a classical condition")
                sites.append(keeps)
        if not sites:
            raise TranslatorError(f"{rel}: no call re-emitting the routed gate found in {fname}")
        if any(sites) and not all(sites):
            raise TranslatorError(f"{rel}: {fname} keeps the classical condition at {sum(sites)} of {len(sites)} "
                                  "calls that re-emit the routed gate")
        found.append(all(sites))
    if found[0] != found[1]:
        raise TranslatorError("to_chain_structure and adjacent_gates treat the classical condition differently")
    return found[0]


_CC = {"v": None, "rz": None, "alias": None}


def source_rz():
    """does to_chain_structure route RZX (fixes/C13-3.patch)?  An unrecognised source is held to the repaired
    reading."""
    if _CC["rz"] is None:
        try:
            _CC["rz"] = bool(T_dev.route_rzx())
        except TranslatorError:
            _CC["rz"] = True
    return _CC["rz"]


def source_alias():
    """do the router's lists also have "SWAPALPHA", the name an instance of the class SWAPALPHA carries
    (fixes/C07-6.patch)?  An unrecognised source is held to the repaired reading."""
    if _CC.get("alias") is None:
        try:
            _CC["alias"] = bool(T_dev.route_class_name())
        except TranslatorError:
            _CC["alias"] = True
    return _CC["alias"]


def handled_names():
    """the gate names the router of the tree rewrites"""
    return (HANDLED + ORD if source_rz() else HANDLED) + (("SWAPALPHA",) if source_alias() else ())


def known_class_name_gap(d):
    """the recorded finding (proposed repair fixes/C07-6): an instance of the exported class SWAPALPHA carries the name
    "SWAPALPHA", which the router's lists ("SWAPalpha") do not have - the gate is passed through unrouted"""
    return ("meas" not in d and d.get("form") == "class" and d["name"] == "SWAPalpha" and not source_alias())


def variant_cc():
    """model variant / oracle class in use.  A source that is not recognised is held to the strict reading (the
    condition is kept everywhere), so that the sweeps look at conditioned gates as well."""
    if _CC["v"] is None:
        try:
            _CC["v"] = bool(source_variant())
        except TranslatorError:
            _CC["v"] = True
    return _CC["v"]


def build(w):
    """Circuit of a witness -> (qc, None) or (None, exception class name at construction)."""
    QubitCircuit, Measurement, Gate, _ = _impl()
    qc = QubitCircuit(w["N"], num_cbits=3)
    try:
        for g in w["gates"]:
            if "meas" in g:
                qc.add_measurement(g["meas"], targets=g["targets"], classical_store=g["cs"])
            elif g.get("raw"):
                qc.add_gate(Gate(g["name"], targets=g["targets"], controls=g["controls"], arg_value=g["arg"]))
            elif g.get("form") == "class":
                # an instance of the library class of that name, handed to add_gate as an object
                # ... as a user writes it: CSIGN(controls=0, targets=3) from the public exports, no name argument
                import qutip_qip.operations as OPS
                kw = {k: v for k, v in (("targets", g["targets"]), ("controls", g["controls"]), ("arg_value", g["arg"]))
                      if v is not None}
                cls = getattr(OPS, g["name"], None) or getattr(OPS, g["name"].upper(), None) or OPS.GATE_CLASS_MAP[g["name"]]
                qc.add_gate(cls(**kw))
            elif g.get("form") == "moved":
                # the gate object of another circuit
                other = QubitCircuit(w["N"], num_cbits=3)
                other.add_gate(g["name"], targets=g["targets"], controls=g["controls"], arg_value=g["arg"])
                qc.add_gate(other.gates[0])
            else:
                kw = {}
                if g["cc"] is not None:
                    kw = {"classical_controls": g["cc"], "classical_control_value": g["ccv"]}
                qc.add_gate(g["name"], targets=g["targets"], controls=g["controls"], arg_value=g["arg"], **kw)
    except Exception as e:
        return None, type(e).__name__
    return qc, None


class Tags:
    """Opaque integer labels for the parts of a gate the router never inspects."""

    def __init__(self):
        self.names, self.args, self.extras, self.meas = {}, {None: 0}, {}, {}

    @staticmethod
    def _t(table, key, start):
        if key not in table:
            table[key] = len(table) + start
        return table[key]

    def gate(self, g):
        _QubitCircuit, Measurement, _Gate, _ = _impl()
        if isinstance(g, Measurement):
            k = self._t(self.meas, (g.name, tuple(g.targets), g.classical_store), 0)
            return f"m{k}//{','.join(map(str, g.targets))}/0/0"
        if isinstance(g.name, Measurement):
            # a Gate whose *name* is a Measurement object (what the unrepaired router makes of a measurement)
            m = g.name
            k = self._t(self.meas, (m.name, tuple(m.targets), m.classical_store), 0)
            return "m%d/%s/%s/0/0" % (k, ",".join(map(str, g.controls or [])), ",".join(map(str, g.targets or [])))
        gname = "SWAPalpha" if (g.name == "SWAPALPHA" and source_alias()) else g.name
        name = gname if gname in MODEL_NAMES else "o%d" % self._t(self.names, g.name, 0)
        av = g.arg_value
        akey = None if av is None else repr(tuple(av) if isinstance(av, (list, tuple, np.ndarray)) else av)
        a = self._t(self.args, akey, 0)
        cc = None if g.classical_controls is None else tuple(g.classical_controls)
        ekey = (cc, g.classical_control_value)
        if gname not in MODEL_NAMES:
            ekey = ekey + (g.control_value,)
        if ekey in ((None, None), (None, None, None)):
            x = 0
        else:
            x = self._t(self.extras, ekey, 1)
        cs = "" if g.controls is None else ",".join(map(str, g.controls))
        ts = "" if g.targets is None else ",".join(map(str, g.targets))
        return f"{name}/{cs}/{ts}/{a}/{x}"


CALLS = []      # every call of the router made by this process, in order (circuit witnesses)


def run_impl(qc, api, setup, w=None):
    _, _, _, to_chain_structure = _impl()
    if w is not None:
        CALLS.append({k: v for k, v in w.items() if not k.startswith("_")})
    try:
        r = to_chain_structure(qc, setup) if api == "chain" else qc.adjacent_gates()
        return "ok", r
    except (IndexError, TypeError):
        return "err shape", None
    except NotImplementedError:
        return "err notimpl", None
    except ValueError:
        return "err value", None
    except Exception as e:
        return "other:" + type(e).__name__, None


def request(tags, w, variant=None):
    gs = ";".join(tags.gate(g) for g in w["_qc"].gates)
    if variant is None:
        variant = "1111" + ("1" if variant_cc() else "0") + ("1" if source_rz() else "0")
    v = "" if variant is None else f" variant={variant}"
    if w["api"] == "chain":
        return f"route n={w['N']} setup={w['setup']}{v} gates={gs}"
    return f"adjacent{v} gates={gs}"


# ----------------------------------------------------------------------------------------
# the property on the real code

def qubits_of(g):
    return list(getattr(g, "controls", None) or []) + list(g.targets or [])


def adjacent(setup, N, a, b):
    if abs(a - b) == 1:
        return True
    return setup == "circular" and {a, b} == {0, N - 1}


def normal_form(N, gates):
    """Exact permutation-tracking evaluation: SWAPs move logical qubits, every other operation is
    recorded on the logical qubits it acts on.  Equal normal forms => equal unitaries."""
    _QubitCircuit, Measurement, _Gate, _ = _impl()
    at = list(range(N))          # at[physical] = logical qubit sitting there
    rec = []
    for g in gates:
        if isinstance(g, Measurement):
            rec.append(("meas", g.name, tuple(at[q] for q in g.targets), g.classical_store))
            continue
        if g.name == "SWAP" and not g.controls and g.classical_controls is None:
            i, j = g.targets
            at[i], at[j] = at[j], at[i]
            continue
        cs = tuple(at[q] for q in (g.controls or []))
        ts = tuple(at[q] for q in (g.targets or []))
        if g.name in SYMMETRIC:
            cs, ts = (), tuple(sorted(cs + ts))
        av = g.arg_value
        rec.append((g.name, cs, ts, None if av is None else repr(av),
                    None if g.classical_controls is None else tuple(g.classical_controls),
                    g.classical_control_value))
    return rec, at


def conditioned_handled(w):
    """does the circuit contain a gate the router rewrites that carries a classical condition"""
    return any("meas" not in g and g["name"] in handled_names() and g.get("cc") is not None for g in w["gates"])


def propagators(qc, cbit_values):
    """the operator of a measurement-free circuit for each given classical state"""
    from qutip import qeye
    from qutip_qip.circuit import CircuitSimulator
    out = []
    for cb in cbit_values:
        sim = CircuitSimulator(qc)
        out.append(sim.run(qeye(qc.dims), cbits=list(cb)).get_final_states()[0].full())
    return out


# ----------------------------------------------------------------------------------------
# the RETURNED circuit is edited through its public gate list and routed again

def dict_of(g):
    """gate object -> gate dict of a witness (content of a circuit at some moment)"""
    _QubitCircuit, Measurement, Gate, _ = _impl()
    if isinstance(g, Measurement):
        return {"meas": g.name, "targets": list(g.targets), "cs": g.classical_store}
    av = g.arg_value
    return gd(g.name, controls=None if g.controls is None else list(g.controls),
              targets=None if g.targets is None else list(g.targets),
              arg=None if av is None else (float(av) if isinstance(av, (int, float, np.floating)) else list(av)),
              cc=None if g.classical_controls is None else list(g.classical_controls),
              ccv=g.classical_control_value, raw=type(g) is Gate)


def gate_key(g):
    d = dict_of(g)
    return json.dumps(d, sort_keys=True)


def apply_list_edit(cur, e, N):
    """edits of a circuit through its public attribute `gates` (add_gate is not involved) -> the circuit to go on with:
    ["extend", gates] | ["insert", i, gate] | ["replace", i, gate] | ["slice", i, j, gates] | ["assign", gates]
    (a new list object) | ["copy_extend", gates] (deepcopy of the circuit, then extend)"""
    from copy import deepcopy
    kind = e[0]
    objs = lambda gds: build({"N": N, "gates": gds})[0].gates
    if kind == "extend":
        cur.gates.extend(objs(e[1]))
    elif kind == "insert":
        cur.gates.insert(e[1], objs([e[2]])[0])
    elif kind == "replace":
        cur.gates[e[1]] = objs([e[2]])[0]
    elif kind == "slice":
        cur.gates[e[1]:e[2]] = objs(e[3])
    elif kind == "assign":
        cur.gates = list(cur.gates) + objs(e[1])
    elif kind == "copy_extend":
        cur = deepcopy(cur)
        cur.gates.extend(objs(e[1]))
    else:
        raise ValueError("unknown edit " + repr(e))
    return cur


def check_chain_history(w):
    """{"chain_history": {"N", "gates": initial content, "steps": [{"route": setup[, "api"]} | {"edit": [...]} ...]}}:
    every `route` step routes the CURRENT circuit object (at first a circuit built from `gates`, afterwards the
    circuit the previous route step returned, possibly edited through its gate list); its result must meet the
    property for the content the circuit has at that moment and be what routing a freshly built circuit of that
    content gives."""
    o = w["chain_history"]
    N = o["N"]
    cur, exc = build({"N": N, "gates": o["gates"]})
    if cur is None:
        return False, f"not constructible ({exc})"
    done = []
    for k, stp in enumerate(o["steps"]):
        if "edit" in stp:
            try:
                cur = apply_list_edit(cur, stp["edit"], N)
            except Exception as e:
                return False, f"edit not applicable ({type(e).__name__})"
            done.append(stp["edit"][0])
            continue
        setup, api = stp["route"], stp.get("api", "chain")
        content = {"N": N, "setup": setup, "api": api, "gates": [dict_of(g) for g in cur.gates]}
        where = (f"step {k + 1} of {len(o['steps'])} (routing for '{setup}' the circuit "
                 + ("returned by the previous routing" if "route" in done else "as built")
                 + (", after " + ", ".join(x for x in done if x != "route") + " on its gate list" if
                    any(x != "route" for x in done) else "") + f"; N={N}): ")
        sink = []
        f, d, _ = check_single(content, cur, sink)
        if f:
            return True, where + d
        if sink and sink[0] is not None:
            fresh, _ = build(content)
            if fresh is not None:
                st2, r2 = run_impl(fresh, api, setup if api == "chain" else None)
                if r2 is None or [gate_key(g) for g in r2.gates] != [gate_key(g) for g in sink[0].gates]:
                    return True, where + "the result differs from routing a freshly built circuit of the same content"
            cur = sink[0]
            done.append("route")
    return False, "every routing step meets the property for the circuit as it is at that moment"


def shrink_chain_history(w):
    f, d = check_chain_history(w)
    if not f:
        return w
    cur = json.loads(json.dumps(w))
    m = re.match(r"step (\d+) of", d)
    if m:
        cur["chain_history"]["steps"] = cur["chain_history"]["steps"][:int(m.group(1))]
    i = 0
    while i < len(cur["chain_history"]["steps"]) - 1:
        trial = json.loads(json.dumps(cur))
        del trial["chain_history"]["steps"][i]
        try:
            ok = check_chain_history(trial)[0]
        except Exception:
            ok = False
        if ok:
            cur = trial
        else:
            i += 1
    return cur


def check_property(w):
    """(fails, detail) for a witness: one circuit, or a history of calls made in one process, in order
    (`"reuse": true` = the circuit OBJECT of the previous call is routed again), or a chain history (the returned
    circuit is edited through its gate list and routed again)."""
    if "chain_history" in w:
        return check_chain_history(w)
    if "history" not in w:
        return check_single(w)[:2]
    prev = None
    n = len(w["history"])
    for k, c in enumerate(w["history"]):
        f, d, prev = check_single(c, prev if c.get("reuse") else None)
        if f:
            return True, (f"call {k + 1} of {n} made in one process "
                          f"({c['api']}, N={c['N']}, setup={c['setup']}): " + d)
    return False, f"all {n} calls meet the property"


def check_single(w, qc=None, sink=None):
    """(fails, detail, circuit object) for one circuit of well-formed in-range gates; the routed circuit is appended
    to `sink` if given."""
    _QubitCircuit, Measurement, _Gate, _ = _impl()
    N, setup, api = w["N"], w["setup"], w["api"]
    exc = None
    if qc is None:
        qc, exc = build(w)
    if qc is None:
        return False, f"not constructible ({exc})", None
    handled = handled_names() if api == "chain" else HANDLED
    # which gate the user asked for: for a gate built from a library class (`form: class`) that is the class the
    # witness names - an instance of the exported class CSIGN is a CSIGN gate, whatever name attribute it carries
    asked = [None if isinstance(g, Measurement) else g.name for g in qc.gates]
    if len(w["gates"]) == len(qc.gates):
        for k, d in enumerate(w["gates"]):
            if "meas" not in d and d.get("form") == "class":
                asked[k] = d["name"]
    for g, nm in zip(qc.gates, asked):
        qs = qubits_of(g)
        if any(not (0 <= q < N) for q in qs) or len(set(qs)) != len(qs):
            return False, "outside the property's domain (qubit out of range or repeated)", qc
        if nm is not None and nm in handled and (
                len(qs) != 2 or len(g.targets) != (1 if nm in CTL else 2)):
            return False, "outside the property's domain (malformed handled gate)", qc
    if setup not in ("linear", "circular"):
        return False, "outside the property's domain (setup)", qc
    st, r = run_impl(qc, api, setup if api == "chain" else None, w)
    if sink is not None:
        sink.append(r)
    unhandled = [g for g, nm in zip(qc.gates, asked) if nm is None or nm not in handled]
    if api == "adjacent":
        setup = "linear"
        if unhandled:
            return (st != "err notimpl"), f"adjacent_gates on an unhandled gate: {st}", qc
    if st != "ok":
        return True, f"routing raised ({st})", qc
    out = r.gates
    # (iv) the gates the router does not handle come out unchanged and in order; (i), (ii) EVERY other gate of the
    # output - whatever its name - is what the router made of a handled gate: in range, on two neighbouring qubits
    k = 0
    for g in out:
        if k < len(unhandled) and (g is unhandled[k] or (type(g) is type(unhandled[k]) and vars(g) == vars(unhandled[k]))):
            k += 1
            continue
        nm = g.name if isinstance(getattr(g, "name", None), str) else type(g).__name__
        qs = qubits_of(g)
        if any(not (0 <= q < N) for q in qs):
            return True, f"qubit index out of range in {nm}{qs} (N={N})", qc
        if len(qs) != 2 or not adjacent(setup, N, qs[0], qs[1]):
            extra = "" if nm in handled else " (an unrouted gate the router was asked to handle, or a gate it does not pass through unchanged)"
            return True, f"{nm}{qs} does not act on neighbours of the {setup} chain (N={N})" + extra, qc
    if k != len(unhandled):
        return True, "unhandled gates are not passed through unchanged and in order", qc
    # (v) same operation: exact normal form for every N
    nf0, nf1 = normal_form(N, qc.gates), normal_form(N, out)
    if nf0 != nf1:
        what = "final permutation %s instead of %s" % (nf1[1], nf0[1])
        for k, (a, b) in enumerate(itertools.zip_longest(nf0[0], nf1[0])):
            if a != b:
                what = f"operation {k} on logical qubits is {b} instead of {a}"
                break
        return True, "routed circuit is not the input circuit (exact permutation tracking): " + what, qc
    # dense unitaries up to 7 qubits
    nomeas = all(not isinstance(g, Measurement) for g in qc.gates)
    unitary = nomeas and all(g.classical_controls is None for g in qc.gates)
    if unitary and N <= 7:
        try:
            U0 = qc.compute_unitary().full()
        except Exception as e:
            return False, f"input circuit has no unitary ({type(e).__name__})", qc
        try:
            U1 = r.compute_unitary().full()
        except Exception as e:
            return True, f"routed circuit has no unitary ({type(e).__name__}: {e})", qc
        d = float(np.abs(U0 - U1).max())
        if d > 1e-9:
            return True, f"unitary of the routed circuit differs by {d:.3g}", qc
    elif nomeas and N <= 5:
        # conditioned gates: the operator for every state of the (three) classical bits
        cbs = list(itertools.product((0, 1), repeat=3))
        try:
            Us0 = propagators(qc, cbs)
        except Exception as e:
            return False, f"input circuit cannot be evaluated ({type(e).__name__})", qc
        try:
            Us1 = propagators(r, cbs)
        except Exception as e:
            return True, f"routed circuit cannot be evaluated ({type(e).__name__}: {e})", qc
        for cb, U0, U1 in zip(cbs, Us0, Us1):
            d = float(np.abs(U0 - U1).max())
            if d > 1e-9:
                return True, f"with classical bits {list(cb)} the operator of the routed circuit differs by {d:.3g}", qc
    return False, "routed circuit meets the property", qc


def single(N, setup, name, a, b, api="chain"):
    if name in CTL:
        g = gd(name, controls=[a], targets=[b])
    else:
        g = gd(name, targets=[a, b], arg=ALPHA if name in ("SWAPalpha", "RZX") else None)
    return {"N": N, "setup": setup, "api": api, "gates": [g]}


def random_gate(rng, N, allow_meas=True, handled_only=False):
    r = rng.random()
    if N >= 2 and (handled_only or r < 0.6):
        name = rng.choice(HANDLED if handled_only else MODEL_NAMES)
        a, b = rng.sample(range(N), 2)
        return single(N, "", name, a, b)["gates"][0]
    kind = rng.choice(["RX", "SNOT", "CPHASE", "TOFFOLI", "FREDKIN", "GLOBALPHASE", "CX", "CZ", "cc", "meas", "RZ"])
    if kind in ("RX", "RZ"):
        return gd(kind, targets=[rng.randrange(N)], arg=rng.choice([0.25, 0.5, 1.5]))
    if kind == "SNOT":
        return gd("SNOT", targets=[rng.randrange(N)])
    if kind in ("CPHASE", "CX", "CZ") and N >= 2:
        a, b = rng.sample(range(N), 2)
        return gd(kind, controls=[a], targets=[b], arg=0.75 if kind == "CPHASE" else None)
    if kind == "TOFFOLI" and N >= 3:
        a, b, c = rng.sample(range(N), 3)
        return gd("TOFFOLI", controls=[a, b], targets=[c])
    if kind == "FREDKIN" and N >= 3:
        a, b, c = rng.sample(range(N), 3)
        return gd("FREDKIN", controls=[a], targets=[b, c])
    if kind == "GLOBALPHASE":
        return gd("GLOBALPHASE", arg=0.5)
    if kind == "cc":
        return gd("X", targets=[rng.randrange(N)], cc=[rng.randrange(3)], ccv=1)
    if kind == "meas" and allow_meas:
        return {"meas": "M%d" % rng.randrange(3), "targets": [rng.randrange(N)], "cs": rng.randrange(3)}
    return gd("SNOT", targets=[rng.randrange(N)])


def random_circuit(rng, maxN=12, maxlen=10):
    N = rng.randint(2, maxN)
    api = "adjacent" if rng.random() < 0.3 else "chain"
    setup = rng.choice(["linear", "circular", "circular"])
    n = rng.randint(1, maxlen)
    pure = api == "adjacent" and rng.random() < 0.8
    gates = [random_gate(rng, N, allow_meas=(rng.random() < 0.5), handled_only=pure) for _ in range(n)]
    return {"N": N, "setup": setup, "api": api, "gates": gates}


def malformed_circuit(rng):
    """Shapes and indices outside the property's domain; the model must still agree with the code."""
    N = rng.randint(1, 8)
    api = "adjacent" if rng.random() < 0.25 else "chain"
    setup = rng.choice(["linear", "circular", "circular", "ring", ""])
    if setup == "":
        setup = "none"
    gates = []
    for _ in range(rng.randint(1, 3)):
        mode = rng.choice(["same", "big", "raw-noctl", "raw-long", "raw-short", "swap-ctl", "valid", "cnot-cc",
                           "ctl-arg"])
        hi = N + 3
        if mode == "same":
            a = rng.randrange(hi)
            gates.append(single(N, "", rng.choice(HANDLED), a, a)["gates"][0])
        elif mode == "big":
            a, b = rng.sample(range(hi + 4), 2)
            gates.append(single(N, "", rng.choice(HANDLED), a, b)["gates"][0])
        elif mode == "raw-noctl":
            gates.append(gd(rng.choice(CTL), targets=rng.sample(range(hi), 2), raw=True))
        elif mode == "raw-long":
            qs = rng.sample(range(hi + 2), 4)
            gates.append(gd(rng.choice(HANDLED), controls=qs[:rng.randint(1, 2)], targets=qs[2:2 + rng.randint(1, 2)],
                            raw=True))
        elif mode == "raw-short":
            gates.append(gd(rng.choice(SWP), targets=[rng.randrange(hi)], raw=True))
        elif mode == "swap-ctl":
            a, b = rng.sample(range(hi), 2)
            gates.append(gd(rng.choice(SWP[:5]), controls=[a], targets=[b]))
        elif mode == "cnot-cc" and N >= 2:
            a, b = rng.sample(range(N), 2)
            gates.append(gd(rng.choice(CTL), controls=[a], targets=[b], cc=[0], ccv=1))
        elif mode == "ctl-arg" and N >= 2:
            a, b = rng.sample(range(N), 2)
            gates.append(gd(rng.choice(CTL), controls=[a], targets=[b], arg=0.5, raw=True))
        else:
            gates.append(random_gate(rng, max(N, 2)))
    return {"N": N, "setup": setup, "api": api, "gates": gates}


# ----------------------------------------------------------------------------------------
# systematic multi-gate circuits and histories

ALPHA2 = 0.4375         # a second SWAPalpha argument (dyadic)
RX = gd("RX", targets=[0], arg=0.25)


def h2(name, a, b, alt=False):
    """the handled gate `name` on the ordered pair (a, b): control a / target b, resp. targets [a, b]"""
    if name in CTL:
        return gd(name, controls=[a], targets=[b])
    return gd(name, targets=[a, b], arg=(ALPHA2 if alt else ALPHA) if name in ("SWAPalpha", "RZX") else None)


def systematic_multi(N, full=False):
    """(kind, gate list) for every unordered pair a < b of an N-qubit register: circuits that contain the same
    pair more than once."""
    swp3 = SWP if full else ("SWAP", "ISWAP", "SWAPalpha")
    for a, b in itertools.combinations(range(N), 2):
        ors = ((a, b), (b, a))
        # both orientations / repeats / both controlled names
        for n1 in CTL:
            for n2 in CTL:
                for o1 in ors:
                    for o2 in ors:
                        kind = ("both-orientations" if o1 != o2 else "repeat") + ("" if n1 == n2 else "+names")
                        yield kind, [h2(n1, *o1), h2(n2, *o2)]
        for o1 in ors:
            o2 = (o1[1], o1[0])
            yield "both-orientations+between", [h2("CNOT", *o1), dict(RX, targets=[a]), h2("CNOT", *o2)]
            yield "both-orientations+thrice", [h2("CNOT", *o1), h2("CNOT", *o2), h2("CNOT", *o1)]
        # exchange gates: repeated, targets listed the other way round, another argument, another name
        for k, n in enumerate(SWP):
            yield "repeat", [h2(n, a, b), h2(n, a, b)]
            yield "repeat+reversed-targets", [h2(n, a, b), h2(n, b, a)]
            others = [m for m in SWP if m != n] if full else [SWP[(k + 1) % len(SWP)]]
            for m in others:
                yield "same-pair+names", [h2(n, a, b), h2(m, b, a)]
        yield "same-pair+args", [h2("SWAPalpha", a, b), h2("SWAPalpha", a, b, alt=True)]
        yield "same-pair+args", [h2("SWAPalpha", b, a, alt=True), h2("SWAPalpha", a, b)]
        # exchange gates before / after controlled gates on the same pair
        for c in CTL:
            for o in ors:
                for n in swp3:
                    yield "exchange-before-controlled", [h2(n, a, b), h2(c, *o)]
                    yield "controlled-before-exchange", [h2(c, *o), h2(n, b, a)]
        # the ordered two-target gate: both target orders, repeated, another angle, next to other gates of the pair
        for o1 in ors:
            o2 = (o1[1], o1[0])
            yield "ordered-both-orders", [h2("RZX", *o1), h2("RZX", *o2)]
            yield "ordered-repeat", [h2("RZX", *o1), h2("RZX", *o1, alt=True)]
            yield "ordered+controlled", [h2("CNOT", *o1), h2("RZX", *o2), h2("CNOT", *o2)]
            yield "ordered+exchange", [h2("ISWAP", a, b), h2("RZX", *o1), h2("SWAP", b, a)]


def circ(N, setup, gates, api="chain", reuse=False):
    w = {"N": N, "setup": setup, "api": api, "gates": gates}
    if reuse:
        w["reuse"] = True
    return w


def systematic_histories(N):
    """(kind, [circuit, ...]) — several calls made one after the other in ONE process, for every pair a < b"""
    for a, b in itertools.combinations(range(N), 2):
        ab, ba = [h2("CNOT", a, b)], [h2("CNOT", b, a)]
        for setup in ("circular", "linear"):
            yield "orientations", [circ(N, setup, ab), circ(N, setup, ba), circ(N, setup, ab)]
            yield "orientations", [circ(N, setup, ba), circ(N, setup, ab)]
        yield "setups", [circ(N, "linear", ab), circ(N, "circular", ab), circ(N, "linear", ab)]
        yield "setups", [circ(N, "circular", ba), circ(N, "linear", ba), circ(N, "ring", ba), circ(N, "circular", ba)]
        yield "setups", [circ(N, "circular", [h2("ISWAP", a, b)]), circ(N, "linear", [h2("ISWAP", a, b)]),
                         circ(N, "circular", [h2("SWAP", b, a)])]
        yield "sizes", [circ(N, "circular", ab), circ(N + 1, "circular", ab), circ(N + 2, "circular", ba),
                        circ(N, "circular", ab)]
        yield "apis", [circ(N, "linear", ab, api="adjacent"), circ(N, "linear", ba), circ(N, "linear", ba, api="adjacent"),
                       circ(N, "circular", ab)]
        two = [h2("CNOT", a, b), h2("ISWAP", b, a)]
        yield "same-object-twice", [circ(N, "circular", two), circ(N, "circular", two, reuse=True),
                                    circ(N, "linear", two)]
        yield "ordered", [circ(N, "circular", [h2("RZX", a, b)]), circ(N, "circular", [h2("RZX", b, a)]),
                          circ(N, "linear", [h2("RZX", b, a)]), circ(N, "ring", [h2("RZX", a, b)])]
        yield "names", [circ(N, "circular", [h2("CSIGN", a, b)]), circ(N, "circular", ab),
                        circ(N, "circular", [h2("SWAPalpha", a, b)]), circ(N, "circular", [h2("SWAPalpha", a, b, alt=True)])]


def chain_histories(N, full=True):
    """(kind, witness): route, edit the RETURNED circuit through its public gate list, route again (same and other
    setup)"""
    rt = lambda s, api="chain": {"route": s, "api": api}
    ed = lambda *e: {"edit": list(e)}
    for a, b in itertools.combinations(range(N), 2):
        if b - a < 2:
            continue
        c = a + 1
        first = [h2("CNOT", a, b), h2("ISWAP", c, b)]
        block = [h2("CNOT", b, a), h2("SQRTSWAP", a, b)]
        far = h2("CSIGN", b, a)
        for s, t in (("linear", "circular"), ("circular", "linear")):
            yield "extend", {"chain_history": {"N": N, "gates": first, "steps": [rt(s), ed("extend", block), rt(s), rt(t)]}}
            yield "insert", {"chain_history": {"N": N, "gates": first, "steps": [rt(s), ed("insert", 0, far), rt(s)]}}
            yield "replace", {"chain_history": {"N": N, "gates": first, "steps": [rt(s), ed("replace", 0, far), rt(s), rt(t)]}}
            if not full:
                continue
            yield "slice", {"chain_history": {"N": N, "gates": first, "steps": [rt(s), ed("slice", 0, 1, block), rt(s)]}}
            yield "assign", {"chain_history": {"N": N, "gates": first, "steps": [rt(s), ed("assign", block), rt(s)]}}
            yield "copy-extend", {"chain_history": {"N": N, "gates": first,
                                                    "steps": [rt(s), ed("copy_extend", [far]), rt(s), rt(t), rt(s)]}}
            yield "twice", {"chain_history": {"N": N, "gates": first, "steps": [rt(s), rt(s), ed("extend", [far]), rt(t), rt(s)]}}
            yield "other-setup", {"chain_history": {"N": N, "gates": first,
                                                    "steps": [rt(s), ed("extend", block), rt("ring"), ed("insert", 1, far), rt(s)]}}
        if full:
            yield "adjacent-api", {"chain_history": {"N": N, "gates": first, "steps": [rt("linear", "adjacent"), ed("extend", block),
                                                                                    rt("linear", "adjacent"), rt("linear")]}}


def form_circuits(N):
    """(form, setup, gate list): the OBJECT FORM of a well-formed handled gate - a generic Gate object carrying the name
    (`raw`), an instance of the library class, the gate object of another circuit - on every ordered pair"""
    for name in MODEL_NAMES:
        for a, b in itertools.permutations(range(N), 2):
            g = single(N, "", name, a, b)["gates"][0]
            for setup in ("linear", "circular"):
                yield "generic", setup, [dict(g, raw=True)]
                yield "class", setup, [dict(g, form="class")]
                yield "moved", setup, [dict(g, form="moved")]
    if N >= 3:
        a, b = 0, N - 1
        for setup in ("linear", "circular"):
            yield "mixed", setup, [dict(h2("CNOT", a, b), raw=True), h2("CNOT", b, a), dict(h2("ISWAP", a, b), form="class"),
                                   dict(h2("CSIGN", b, a), form="moved")]


def conditioned_circuits(N):
    """(kind, gate list): handled gates carrying a classical condition, alone and fed by a measurement"""
    for a, b in itertools.permutations(range(N), 2):
        for name in ("CNOT", "CSIGN", "SWAP", "ISWAP", "SWAPalpha", "RZX"):
            g = dict(h2(name, a, b), cc=[1], ccv=1)
            yield "conditioned", [g]
        g2 = dict(h2("CNOT", a, b), cc=[0, 2], ccv=2)
        yield "conditioned-2bits", [g2, h2("CNOT", a, b)]
        if a < b:
            yield "feed-forward", [{"meas": "M0", "targets": [a], "cs": 1}, dict(h2("CNOT", b, a), cc=[1], ccv=1),
                                   dict(h2("ISWAP", a, b), cc=[1], ccv=0)]


def conditioned_next_to_ladder(N, setups=("linear", "circular")):
    """(kind, setup, gate list): a CONDITIONED gate on neighbouring qubits directly before / after a far gate whose swap
    ladder starts or ends on the same pair (a pass that merges or cancels neighbouring SWAPs must respect the
    condition); both condition values, to be judged for every classical state"""
    ring = lambda q: q % N
    for a, b in itertools.combinations(range(N), 2):
        if b - a < 2:
            continue
        pairs = {(a, a + 1), (b - 1, b)}
        for setup in setups:
            near = set(pairs)
            if setup == "circular":
                near |= {(b, ring(b + 1)), (ring(a - 1), a)}        # the way round the ring starts there
            for far in ([h2("CNOT", a, b)], [h2("CNOT", b, a)], [h2("ISWAP", b, a)]):
                for (x, y) in sorted(near):
                    if x == y:
                        continue
                    for name in ("SWAP", "CNOT"):
                        for ccv in (0, 1):
                            g = dict(h2(name, x, y), cc=[0], ccv=ccv)
                            yield "conditioned-before-ladder", setup, [g] + far
                            yield "conditioned-after-ladder", setup, far + [g]
        # between two far gates on the same pair: swap-out, conditioned SWAP, swap-in
        for setup in setups:
            g = dict(h2("SWAP", a, a + 1), cc=[0], ccv=1)
            yield "conditioned-between-ladders", setup, [h2("CNOT", a, b), g, h2("CNOT", b, a)]


def fresh_fails(w, timeout=300):
    """check_property(w) in a FRESH interpreter (same tree, nothing routed before) -> (fails | None, detail)"""
    return _fresh.fresh_fails("c07", w, timeout)


def reproducible(w, ncalls, budget=26):
    """A witness that failed in this process: make it fail when replayed from scratch (see props/_fresh.py)."""
    if "chain_history" in w:
        return shrink_chain_history(w)         # self-contained: its own circuit objects
    own = w["history"] if "history" in w else [w]
    strip = lambda c: {k: v for k, v in c.items() if not k.startswith("_") and k != "reuse"}
    log = CALLS[:ncalls]
    if [strip(c) for c in log[len(log) - len(own):]] == [strip(c) for c in own]:
        log = log[:len(log) - len(own)]
    sizes = {c["N"] for c in own}
    return _fresh.reproducible("c07", w, log, lambda c: c["N"] in sizes, budget)


class C07(PropertyCheck):
    id = "C07"
    lean_modules = ["QipVerif.Props.C07"]
    drivers = ["drv_route"]
    theorems = ["QipVerif.C07." + t for t in (
        "route_in_range", "route_adjacent", "route_shape_ctl", "route_shape_swp", "route_shape_ord", "route_other_setup", "route_passthrough",
        "route_concat", "route_append", "route_total", "circuit_passthrough_order", "circuit_in_range",
        "circuit_adjacent", "route_den_gate", "route_den", "route_den_cond", "condition_irrelevant_plain",
        "adjacent_gates_eq_linear",
        "adjacent_gates_refuses_measurement", "swapLaws_C", "swapLaws_C_full", "route_den_gate_C", "route_den_C",
        "route_den_cond_C", "C07_counterexample_condition_dropped",
        "C07_counterexample_range_old", "C07_counterexample_roles_old",
        "C07_counterexample_arg_old", "C07_counterexample_meas_old")]
    technique = ("Lean 4 proof (closed form of the routing loop by induction, permutation tracking, monoid-level "
                 "conjugation argument, classical conditions as a valuation) + exhaustive and systematic "
                 "model/implementation correspondence on gate lists, incl. histories of calls in one process")
    level_text = ("Lean 4 theorems about the model of to_chain_structure / adjacent_gates with the repairs "
                  "fixes/C07-1..4 applied, for every register size N, EVERY setup string (linear: open chain; circular: "
                  "ring; any other string: ring, always through the wrap-around pair - route_other_setup), every ordered "
                  "pair of distinct in-range qubits and every handled gate name (no bound), and for both shapes of the "
                  "source with respect to fixes/C07-5 (classical condition of the routed gate dropped / kept; the harness "
                  "reads the shape from the source): all emitted indices < N; every emitted gate is a two-qubit gate on "
                  "neighbours (or the wrap pair of a ring); the output is S ++ [G] ++ reverse(S) with S SWAPs that move "
                  "control to G's control and target to G's target; unhandled gates pass through unchanged and in order; "
                  "circuits are routed gate by gate with no state between gates or calls (route_concat, for every "
                  "variant); the routed circuit is the same operator over C (route_den_C: exact library matrices, no "
                  "matrix hypothesis). With fixes/C07-5 this holds for every classical state, conditioned gates included "
                  "(route_den_cond_C); without it a conditioned handled gate is re-emitted unconditionally "
                  "(C07_counterexample_condition_dropped, confirmed on the real code) and route_den_C excludes such "
                  "gates. RZX (native to SCQubits) is routed once fixes/C13-3 is in place - the shape of the source is read "
                  "too - with its two targets keeping their order (route_shape_ord; route_den_C with the matrix of the "
                  "gate class cls_RZX; no symmetry hypothesis needed); before, it is passed through like any gate the router "
                  "does not know. The code as found at the pinned commit violates the property in four more ways (counter-example "
                  "theorems, repaired by fixes/C07-1..4). The model is tied to the code by an exhaustive comparison of "
                  "gate lists for N <= 14 (quick) / 40 (thorough), systematic multi-gate circuits for every pair of every "
                  "register up to 9 (12) qubits, and histories of calls in one process.")
    level_note = ("Trusted: Lean kernel (axioms propext, Classical.choice, Quot.sound); the harness py/props/c07.py incl. "
                  "its ast reader of the source shape (source_variant); the instantiation of SwapLaws for the complex gate "
                  "matrices is Lemmas/RouteC.lean (route_den_C: no hypothesis about matrices left).")
    trusted_base = [
        "Lean 4.33 kernel; axioms propext, Classical.choice, Quot.sound",
        "py/props/c07.py (harness: gate objects -> (name, controls, targets, arg label, condition label); "
        "source_variant: ast reader deciding whether the routed gate keeps its classical condition)",
    ]
    assumptions = [
        "handled input gates are well-formed (one control + one target, resp. two targets, distinct, in range); CNOT/CSIGN "
        "carry no arg_value; other inputs are covered by the correspondence only",
        "while the source drops classical conditions (fixes/C07-5 not applied): handled gates carry no classical condition "
        "(C07_counterexample_condition_dropped shows the clause fails otherwise; recorded as a finding)",
        "a classical condition is modelled as a label that holds or does not hold (condInterp): the theorem is per "
        "classical state; measurements are passed through and have no operator",
    ]
    rule = ("case = (N, setup, api, gate list) or a history of such calls in one process; exhaustive stream: one handled "
            "gate on every ordered pair of distinct qubits; systematic streams: for every pair of every register the "
            "circuits / histories that repeat the pair (orientations, names, arguments, setups, sizes, APIs); non-trivial = "
            "at least one handled gate on non-neighbouring qubits; malformed stream counted separately")

    # ---------------------------------------------------------------------------------
    def regenerate(self, ctx):
        _CC["v"] = _CC["rz"] = _CC["alias"] = None
        try:
            _CC["v"] = bool(source_variant())
            _CC["rz"] = bool(T_dev.route_rzx())
        except TranslatorError:
            _CC["v"] = True if _CC["v"] is None else _CC["v"]      # strict reading, see variant_cc / source_rz
            _CC["rz"] = True
            raise
        try:
            _CC["alias"] = bool(T_dev.route_class_name())
        except TranslatorError:
            _CC["alias"] = True
            raise
        ctx.log("source shape: a gate named SWAPALPHA (instance of the class) is %s (fixes/C07-6 %s)" % (
            ("routed", "applied") if _CC["alias"] else ("passed through", "not applied")))
        ctx.log("source shape: RZX is %s (fixes/C13-3 %s)" % (("routed", "applied") if _CC["rz"] else
                                                               ("passed through", "not applied")))
        ctx.log("source shape: the routed gate %s its classical condition (fixes/C07-5 %s)"
                % (("keeps", "applied") if _CC["v"] else ("drops", "not applied")))
        return []

    # ---------------------------------------------------------------------------------
    def _diagnose(self, ctx, tags, w, impl):
        for v in ["".join(b) for b in itertools.product("01", repeat=6)]:
            if v.startswith("1111"):
                continue
            if ctx.driver("drv_route").run([request(tags, w, v)])[0] == impl:
                return (f"; the implementation behaves like model variant {v} (bits: C07-1 mod-N fix, C07-2 role fix, "
                        "C07-3 arg_value fix, C07-4 measurement fix, C07-5 condition kept, C13-3 RZX routed)")
        return ""

    def _compare(self, ctx, res, ws, tags_of, minimise=True):
        """Run model and implementation on the witnesses `ws` (those that can be constructed).  A witness is a
        circuit or a history {"history": [circuit, ...]}: the calls are made in this order, in this process."""
        tags = Tags()
        units = []                       # (witness, [call, ...]) ; call = circuit dict with _qc
        lines = []
        for w in ws:
            calls = w["history"] if "history" in w else [w]
            live, prev, exc = [], None, None
            for c in calls:
                if c.get("reuse") and prev is not None:
                    qc = prev
                else:
                    qc, exc = build(c)
                if qc is None:
                    break
                c["_qc"] = prev = qc
                live.append(c)
            pub = json.loads(json.dumps(w, default=lambda o: None)) if "history" in w else \
                {k: v for k, v in w.items() if not k.startswith("_")}
            if "history" in w:
                pub = {"history": [{k: v for k, v in c.items() if not k.startswith("_")} for c in calls]}
            if len(live) < len(calls):
                # the constructor refused: nothing reaches the router
                res.case(pub, nontrivial=False, tags=["constructor-refuses=" + str(exc)])
                for c in calls:
                    c.pop("_qc", None)
                continue
            units.append((w, pub, live))
            for c in live:
                lines.append(request(tags, c))
        outs = ctx.driver("drv_route").run(lines)
        pos = 0
        for w, pub, live in units:
            nt, tg = tags_of(w)
            first_bad = None
            verdicts = []
            for k, c in enumerate(live):
                o, line = outs[pos], lines[pos]
                pos += 1
                qc = c["_qc"]
                st, r = run_impl(qc, c["api"], c["setup"], c)
                ncalls = len(CALLS)
                impl = st if r is None else "ok " + ";".join(tags.gate(g) for g in r.gates)
                verdicts.append(impl.split(" ")[0] + (" " + impl.split(" ")[1] if impl.startswith("err") else ""))
                what = None
                named = [(d["name"], g.name) for d, g in zip(c.get("gates", []), qc.gates)
                         if "meas" not in d and d.get("form") == "class" and g.name != d["name"]
                         and not (d["name"] == "SWAPalpha" and g.name == "SWAPALPHA")] \
                    if len(c.get("gates", [])) == len(qc.gates) else []
                if named:
                    what = (f"an instance of the library class {named[0][0]} carries the name {named[0][1]!r}: the router "
                            "(which dispatches on gate.name) and the model are not looking at the gate the user asked for")
                    o, impl = "gate named " + named[0][0], "gate named " + str(named[0][1])
                elif impl != o:
                    what = "routed gate lists differ"
                elif request(tags, c) != line:
                    what, impl = "the router changed its input circuit", "input afterwards: " + request(tags, c)
                if what is not None and first_bad is None:
                    cpub = {kk: v for kk, v in c.items() if not kk.startswith("_")}
                    wit = cpub if "history" not in w else {"history": pub["history"][:k + 1]}
                    if len(res.disagreements) < 3:
                        if impl != o and r is not None or st.startswith("err"):
                            what += self._diagnose(ctx, tags, c, impl)
                        if minimise:
                            try:
                                f0, _ = check_property(wit) if "history" in wit else (None, None)
                                wit2 = reproducible(wit, ncalls)
                                if wit2 is not wit:
                                    what += ("; fails only after earlier calls of the same process: witness = the "
                                             f"shortest failing call sequence ({len(wit2['history'])} calls)")
                                wit = wit2
                            except Exception as e:
                                what += f"; (fresh-interpreter minimisation failed: {type(e).__name__})"
                    first_bad = (o, impl, what, wit, cpub)
            res.case(pub, nontrivial=nt, tags=tg + ["verdict=" + verdicts[-1]])
            if first_bad is not None:
                o, impl, what, wit, cpub = first_bad
                res.disagree(pub if "history" not in w else {"history_call": cpub, "calls": len(live)}, o, impl, what, wit)
            for c in live:
                c.pop("_qc", None)

    def _compare_chain_histories(self, ctx, res, hists):
        """(kind, witness) - the model is a function of the content: every routing step is compared with the model's
        answer for the gate list the circuit has at that moment (and, through the oracle, with a fresh circuit)"""
        drv = ctx.driver("drv_route")
        for kind, w in hists:
            o = w["chain_history"]
            N = o["N"]
            cur, exc = build({"N": N, "gates": o["gates"]})
            if cur is None:
                continue
            tags = Tags()
            bad = None
            for k, stp in enumerate(o["steps"]):
                if "edit" in stp:
                    cur = apply_list_edit(cur, stp["edit"], N)
                    continue
                c = {"N": N, "setup": stp["route"], "api": stp.get("api", "chain"), "_qc": cur}
                line = request(tags, c)
                ans = drv.run([line])[0]
                st, r = run_impl(cur, c["api"], c["setup"])
                impl = st if r is None else "ok " + ";".join(tags.gate(g) for g in r.gates)
                if impl != ans:
                    wk = json.loads(json.dumps(w))
                    wk["chain_history"]["steps"] = o["steps"][:k + 1]
                    bad = (ans, impl, f"routed gate lists differ at step {k + 1} of {len(o['steps'])} (the circuit returned by "
                           "the router, edited through its gate list, routed again)", wk)
                    break
                if r is not None:
                    cur = r
            res.case(w, nontrivial=True, tags=["chain-history", "chain-history=" + kind, f"N={N}"])
            if bad is not None:
                if len(res.disagreements) < 3:
                    try:
                        bad = bad[:3] + (shrink_chain_history(bad[3]),)
                    except Exception:
                        pass
                res.disagree(w, bad[0], bad[1], bad[2], bad[3])

    @staticmethod
    def _tags_single(w):
        g = w["gates"][0]
        a, b = (g["controls"][0], g["targets"][0]) if g["name"] in CTL else g["targets"]
        d = abs(a - b)
        N = w["N"]
        path = "fwd" if (w["setup"] == "linear" or d <= N // 2) else ("wrap" if d == N - 1 else "bwd")
        par = "odd" if (d if path == "fwd" else N - d) % 2 else "even"
        return d > 1, [f"N={N}", f"setup={w['setup']}", f"gate={g['name']}", f"path={path}-{par}"]

    @staticmethod
    def _far(w):
        for g in w["gates"]:
            if "meas" not in g and g["name"] in MODEL_NAMES and not g.get("raw"):
                qs = (g["controls"] or []) + (g["targets"] or [])
                if len(qs) == 2 and abs(qs[0] - qs[1]) > 1:
                    return True
        return False

    @staticmethod
    def _tags_multi(w):
        kinds = set()
        for g in w["gates"]:
            if "meas" in g:
                kinds.add("meas")
            elif g["name"] in HANDLED and not g.get("raw"):
                kinds.add("handled")
            else:
                kinds.add("unhandled")
        return C07._far(w), [f"api={w['api']}", f"len={len(w['gates'])}", "kinds=" + "+".join(sorted(kinds)),
                             f"setup={w['setup']}"]

    def correspondence(self, ctx, res):
        rng = ctx.rng
        maxN = 40 if ctx.thorough else 14
        for N in range(2, maxN + 1):
            ws = [single(N, setup, name, a, b)
                  for setup in ("linear", "circular") for name in MODEL_NAMES
                  for a, b in itertools.permutations(range(N), 2)]
            if N <= 10:
                ws += [single(N, "linear", name, a, b, api="adjacent") for name in (MODEL_NAMES if N <= 5 else HANDLED)
                       for a, b in itertools.permutations(range(N), 2)]
            if N <= 8:
                # any other setup string
                ws += [single(N, "ring", name, a, b) for name in ("CNOT", "CSIGN", "ISWAP", "SWAPalpha", "RZX")
                       for a, b in itertools.permutations(range(N), 2)]
            self._compare(ctx, res, ws, self._tags_single)
        res.exhaustive = True
        res.notes.append(f"exhaustive over all (N <= {maxN}, setup in linear/circular, gate in {'/'.join(MODEL_NAMES)}, "
                         "ordered pair of distinct qubits) for to_chain_structure, N <= 10 for adjacent_gates, N <= 8 for "
                         "another setup string; gate lists compared exactly")
        # systematic multi-gate circuits: every pair of every register, both topologies
        maxM = 12 if ctx.thorough else 9
        n_sys = 0
        for N in range(2, maxM + 1):
            ws = []
            for kind, gates in systematic_multi(N, full=ctx.thorough):
                for setup in ("linear", "circular"):
                    ws.append(dict(circ(N, setup, gates), _kind=kind))
                if N <= 6:
                    ws.append(dict(circ(N, "linear", gates, api="adjacent"), _kind=kind))
            n_sys += len(ws)
            self._compare(ctx, res, ws, lambda w: (self._far(w), ["multi", "multi=" + w["_kind"], f"api={w['api']}",
                                                                  f"setup={w['setup']}"]))
        # histories: several calls in one process
        n_hist = 0
        for N in range(2, maxM + 1):
            ws = [{"history": h, "_kind": kind} for kind, h in systematic_histories(N)]
            n_hist += len(ws)
            self._compare(ctx, res, ws, lambda w: (any(self._far(c) for c in w["history"]),
                                                   ["history", "history=" + w["_kind"], f"calls={len(w['history'])}"]))
        # the object form of the gates (the router dispatches on gate.name)
        n_form = 0
        for N in range(2, (8 if ctx.thorough else 6) + 1):
            ws = [dict(circ(N, setup, gates), _kind=form) for form, setup, gates in form_circuits(N)]
            n_form += len(ws)
            self._compare(ctx, res, ws, lambda w: (self._far(w), ["forms", "form=" + w["_kind"], f"setup={w['setup']}"]))
        res.notes.append(f"object forms: {n_form} circuits whose handled gates are generic Gate objects carrying the name, "
                         "library class instances or gate objects of another circuit (every ordered pair, every handled name)")
        # the returned circuit edited through its gate list and routed again
        ch = [x for N in range(3, (7 if ctx.thorough else 5) + 1) for x in chain_histories(N)]
        self._compare_chain_histories(ctx, res, ch)
        res.notes.append(f"chain histories: {len(ch)} sequences route / edit the RETURNED circuit through its public gate list "
                         "(extend, insert, replace, slice assignment, new list, deepcopy + extend) / route again for the same "
                         "and another setup; every routing step against the model on the current content")
        # conditioned gates
        n_cond = 0
        for N in range(2, (8 if ctx.thorough else 6) + 1):
            ws = []
            for kind, gates in conditioned_circuits(N):
                for setup in ("linear", "circular"):
                    ws.append(dict(circ(N, setup, gates), _kind=kind))
                if N <= 4 and kind != "feed-forward":
                    ws.append(dict(circ(N, "linear", gates, api="adjacent"), _kind=kind))
            n_cond += len(ws)
            self._compare(ctx, res, ws, lambda w: (True, ["conditioned", "conditioned=" + w["_kind"], f"api={w['api']}"]))
        for N in range(3, (9 if ctx.thorough else 7) + 1):
            ws = [dict(circ(N, setup, gates), _kind=kind) for kind, setup, gates in conditioned_next_to_ladder(N)]
            n_cond += len(ws)
            self._compare(ctx, res, ws, lambda w: (True, ["conditioned", "conditioned=" + w["_kind"], f"api={w['api']}"]))
        res.notes.append(f"systematic: {n_sys} multi-gate circuits (every pair a<b of every register N <= {maxM}, both "
                         "topologies, adjacent_gates for N <= 6: both orientations, repeats, same pair under other names / "
                         f"arguments, exchange gates before/after controlled gates), {n_hist} histories of 2-4 calls in one "
                         f"process (orientations, setups, sizes, APIs, same object twice), {n_cond} circuits with "
                         "conditioned handled gates (incl. conditioned SWAP / CNOT on neighbours directly before / after a far gate whose "
                         "ladder starts or ends on the same pair, both condition values, N <= 7); model variant for the classical condition read from the source: "
                         + ("kept (fixes/C07-5 applied)" if variant_cc() else "dropped (fixes/C07-5 not applied)"))
        n_multi = 6000 if ctx.thorough else 1200
        ws = [random_circuit(rng, maxN=24 if ctx.thorough else 12) for _ in range(n_multi)]
        self._compare(ctx, res, ws, self._tags_multi)
        n_mal = 4000 if ctx.thorough else 800
        ws = [malformed_circuit(rng) for _ in range(n_mal)]
        self._compare(ctx, res, ws, lambda w: (True, ["malformed", f"api={w['api']}"]))

    # ---------------------------------------------------------------------------------
    def oracle_replay(self, ctx, w):
        """the property for the witness run FROM SCRATCH (what `./check C07 --replay` does): a failure seen after
        other calls of this process is confirmed in a fresh interpreter"""
        before = len(CALLS)
        f, d = check_property(w)
        if f and before > 0:
            ff, _ = fresh_fails(w)
            if ff is False:
                return False, "passes from scratch (failed only after earlier calls of this process: " + d + ")"
        return f, d

    def finding_matches(self, witness, finding):
        if finding.get("class") == "class-instance-name":
            if "chain_history" in witness:
                return False
            cs = witness["history"] if "history" in witness else [witness]
            return any("meas" not in d and d.get("form") == "class" and d["name"] == "SWAPalpha" for c in cs for d in c["gates"])
        if finding.get("class") == "conditioned-handled-gate":
            if "chain_history" in witness:
                return False
            cs = witness["history"] if "history" in witness else [witness]
            return any(conditioned_handled(c) for c in cs)
        return witness == finding.get("witness")

    @staticmethod
    def _in_theorem_class(w):
        """While the source drops classical conditions the theorems exclude conditioned handled gates
        (route_den_C: hx); the finding is recorded and replayed on its own."""
        if "chain_history" in w:
            return True
        if any(known_class_name_gap(d) for c in (w["history"] if "history" in w else [w]) for d in c["gates"]):
            return False
        if variant_cc():
            return True
        cs = w["history"] if "history" in w else [w]
        return not any(conditioned_handled(c) for c in cs)

    def _sweep(self, maxN, names):
        for N in range(2, maxN + 1):
            for setup in ("linear", "circular"):
                for name in names:
                    for a, b in itertools.permutations(range(N), 2):
                        yield single(N, setup, name, a, b)

    def _sweep_multi(self, maxN, hist_maxN):
        for N in range(2, maxN + 1):
            for a, b in itertools.combinations(range(N), 2):
                if b - a < 2:
                    continue
                for setup in ("circular", "linear"):
                    yield circ(N, setup, [h2("CNOT", a, b), h2("CNOT", b, a)])
                    yield circ(N, setup, [h2("CNOT", b, a), dict(RX, targets=[a]), h2("CNOT", a, b)])
                    yield circ(N, setup, [h2("ISWAP", a, b), h2("CNOT", b, a), h2("SWAPalpha", b, a), h2("CNOT", a, b)])
                    yield circ(N, setup, [h2("RZX", b, a), h2("CNOT", a, b), h2("RZX", a, b)])
        for N in range(3, hist_maxN + 1):
            for kind, h in systematic_histories(N):
                if kind in ("orientations", "setups", "sizes", "names"):
                    yield {"history": [c for c in h if c["setup"] in ("linear", "circular")]}
        for N in range(2, 5):
            for kind, gates in conditioned_circuits(N):
                for setup in ("linear", "circular"):
                    yield circ(N, setup, gates)
        for N in range(3, hist_maxN + 1):
            for kind, setup, gates in conditioned_next_to_ladder(N):
                yield circ(N, setup, gates)
        for N in range(3, min(hist_maxN, 6) + 1):
            for kind, w in chain_histories(N, full=hist_maxN > 5):
                yield w
        for N in range(2, 5):
            for form, setup, gates in form_circuits(N):
                yield circ(N, setup, gates)

    def oracle_search(self, ctx, budget_s):
        t0 = time.time()

        def hit(w):
            n0 = len(CALLS)
            f, d = check_property(w)
            if f:
                w = reproducible(w, len(CALLS))
                return w, (check_property(w)[1] if "chain_history" in w else d)
            return None

        for w in itertools.chain(self._sweep_multi(8, 7), self._sweep(16, MODEL_NAMES)):
            if not self._in_theorem_class(w):
                continue
            r = hit(w)
            if r:
                yield r
            if time.time() - t0 > budget_s:
                return
        while time.time() - t0 < budget_s:
            w = random_circuit(ctx.rng, maxN=20)
            r = hit(w)
            if r:
                yield r

    def oracle_always(self, ctx):
        """Sweep of the property on the real code; one witness (the first = smallest) per kind of failure."""
        seen = set()

        def stream():
            yield {"N": 2, "setup": "linear", "api": "chain", "gates": [{"meas": "M0", "targets": [1], "cs": 0}]}
            yield from self._sweep(11, ("CNOT",))
            yield from self._sweep(5, HANDLED)
            yield from self._sweep(9, ("SWAPalpha",))
            yield from self._sweep(7, ORD)
            yield from self._sweep_multi(7, 5)
            for _ in range(150):
                yield random_circuit(ctx.rng, maxN=9)

        for w in stream():
            if not self._in_theorem_class(w):
                continue
            f, d = check_property(w)
            if f:
                kind = re.sub(r"\d+", "#", re.sub(r"^call \d+ of \d+ [^:]*: ", "", d))[:70]
                if kind not in seen:
                    seen.add(kind)
                    w = reproducible(w, len(CALLS))
                    yield w, (check_property(w)[1] if "chain_history" in w else d)


CHECK = C07()
