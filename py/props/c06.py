"""C06 — noise-free spin-chain pulse compilation reproduces the circuit exactly
(LinearSpinChain / CircularSpinChain .load_circuit + Processor.run_analytically).

T: py/translate/spinchain.py regenerates lean/QipVerif/Gen/SpinChainTables.lean with `ast`: the gate -> compiler
   map, the area formula of the rotations, the exchange areas, the rectangular pulse (coefficient, duration), the
   coupling-label rule, the control Hamiltonians of SpinChainModel (prefactor, operator, qubits), the reset and
   hand-back of the global phase.  The calibration / label / phase theorems are ABOUT these generated definitions.
   The extraction is cross-checked against the live objects every run (`tables`).
H: lean/QipVerif/Model/SpinChain.lean (compiler stage) composed in the driver with the transpile model of C13 and the
   scheduler model of C05/C11, run side by side with the code: transpiled gate list, every compiled instruction
   (channel label, coefficient, duration, scheduled start) and the reported global phase, on dyadic hardware
   parameters and angles that are multiples of pi/8; and end to end the exact unitary of the circuit (drv_gates `den`)
   against the product of processor.run_analytically() within 1e-9 (partial: expm is runtime numerics).
Oracle (independent of the model): load_circuit + run_analytically product (the reported global phase included)
   against qc.compute_unitary() to 1e-9; every exchange pulse must sit on a coupling that connects the gate's qubits."""
import ast, itertools, math, os, time, cmath
from fractions import Fraction
import numpy as np

from vlib.core import PropertyCheck, TranslatorError
from vlib import paths
from translate import spinchain as T_sc
from translate import devices as T_dev
from props import sched_common as SC

PI = math.pi
PI8 = math.pi / 8
# name -> (controls, targets, parametric)
SHAPE = {"X": (0, 1, 0), "Y": (0, 1, 0), "Z": (0, 1, 0), "SNOT": (0, 1, 0), "SQRTNOT": (0, 1, 0), "PHASEGATE": (0, 1, 1),
         "RX": (0, 1, 1), "RY": (0, 1, 1), "RZ": (0, 1, 1), "CNOT": (1, 1, 0), "CSIGN": (1, 1, 0), "SWAP": (0, 2, 0),
         "ISWAP": (0, 2, 0), "SQRTISWAP": (0, 2, 0), "TOFFOLI": (2, 1, 0), "FREDKIN": (1, 2, 0), "GLOBALPHASE": (0, 0, 1)}
# the gates the spin-chain processors accept (resolvable into their native set); SQRTSWAP and the others are refused
ACCEPTED = list(SHAPE)
# every other gate name of the library (operations.GATE_CLASS_MAP and the legacy names of circuit/_decompose.py) that the model's
# gate alphabet (py/translate/decomp.py: GNAMES) knows: refused by the tree as found (model verdict: an error); should a change
# make one of them accepted, the load must still meet the property (routed onto coupled qubits, same unitary)
SHAPE_REFUSED = {"SQRTSWAP": (0, 2, 0), "BERKELEY": (0, 2, 0), "CPHASE": (1, 1, 1), "S": (0, 1, 0), "T": (0, 1, 0),
                 "CZ": (1, 1, 0), "CY": (1, 1, 0), "CS": (1, 1, 0), "CT": (1, 1, 0), "CRX": (1, 1, 1), "CRY": (1, 1, 1),
                 "CRZ": (1, 1, 1), "SWAPalpha": (0, 2, 1), "MS": (0, 2, 1), "RZX": (0, 2, 1), "R": (0, 1, 1), "QASMU": (0, 1, 1)}
REFUSED = list(SHAPE_REFUSED)
# names and aliases outside the model's gate alphabet: judged by the oracle only (refusal, or a load that meets the property)
SHAPE_ALIAS = {"H": (0, 1, 0), "CX": (1, 1, 0), "iSWAP": (0, 2, 0), "SWAPALPHA": (0, 2, 1), "IDLE": (0, 1, 1)}
XSHAPE = dict(SHAPE)
XSHAPE.update(SHAPE_REFUSED)
XSHAPE.update(SHAPE_ALIAS)
# proper arguments of the gate classes that take more than one (oracle witnesses; None = the scalar of the witness)
XARGS = {"MS": [0.3, 0.4], "R": [0.3, 0.4], "QASMU": [0.3, 0.4, 0.5]}
MODES = ["ASAP", "ALAP", None]


# ------------------------------------------------------------------------------------------
# inputs

def fr(x):
    return x if isinstance(x, Fraction) else Fraction(x)


def rs(x):
    x = fr(x)
    return str(x.numerator) if x.denominator == 1 else f"{x.numerator}/{x.denominator}"


def enc_gate(g):
    """g = [name, targets, controls, p8 | None] -> text of Util/GateIO.lean"""
    d = lambda l: ".".join(map(str, l)) if l else "-"
    n, t, c, p8 = g
    return f"{n}/{d(t)}/{d(c)}/-1,0,1,{p8 if p8 is not None else 0}"


def n_coupling(setup, N):
    return N if setup == "circular" else N - 1


def make_processor(setup, N, params):
    """params: None (defaults) or dict key -> Fraction | list of Fractions"""
    import qutip_qip.device as D
    kw = {}
    for k, v in (params or {}).items():
        kw[k] = [float(x) for x in v] if isinstance(v, (list, tuple)) else float(v)
    cls = D.CircularSpinChain if setup == "circular" else D.LinearSpinChain
    return cls(N, **kw)


def param_lists(setup, N, params, defaults):
    """exact per-qubit / per-coupling lists as _compute_params builds them"""
    out = {}
    for k, n in (("sx", N), ("sz", N), ("sxsy", n_coupling(setup, N))):
        v = (params or {}).get(k, defaults[k])
        out[k] = [fr(x) for x in v] if isinstance(v, (list, tuple)) else [fr(v)] * n
    return out


FORMS = ["name", "class", "generic", "moved", "mixed"]
CONTS = ["list", "tuple", "array", "npint"]


def _container(qs, cont):
    """targets / controls in the container the caller might use"""
    qs = list(qs)
    if not qs:
        return None
    if cont == "tuple":
        return tuple(qs)
    if cont == "array":
        return np.array(qs)
    if cont == "npint":
        return [np.int64(q) for q in qs]
    return qs


def make_gate(n, t, c, a, form, cont=None):
    """one gate in the given OBJECT FORM: 'class' = instance of the library class of that name (generic Gate when the library
    has no class for it), 'generic' = Gate(name, ...) object"""
    import qutip_qip.operations as O
    kw = {"targets": _container(t, cont)}
    if c:
        kw["controls"] = _container(c, cont)
    if a is not None:
        kw["arg_value"] = a
    cls = O.GATE_CLASS_MAP.get(n) if form == "class" else None
    if cls is not None:
        return cls(**kw)
    return O.Gate(n, **kw)


def build_circuit(N, gates, p8=True, form=None, cont=None):
    """gates: [name, targets, controls, angle]; angle = multiple of pi/8 (p8=True) or a float.
    form: how the gates reach the circuit - 'name' (add_gate(name, targets=...)), 'class' (instance of the library class),
    'generic' (Gate(name, ...) object), 'moved' (the gate objects of ANOTHER circuit are added to this one), 'mixed' (gate k
    in form k mod 4); cont: container of targets / controls (list, tuple, numpy array, list of numpy integers)."""
    from qutip_qip.circuit import QubitCircuit
    qc = QubitCircuit(N)
    src = QubitCircuit(N) if form in ("moved", "mixed") else None
    for k, (n, t, c, a) in enumerate(gates):
        av = None if a is None else ((a * PI8) if p8 else a)
        f = form if form != "mixed" else ["name", "class", "generic", "moved"][k % 4]
        if f in ("class", "generic"):
            qc.add_gate(make_gate(n, t, c, av, f, cont))
        elif f == "moved":
            kw = {} if av is None else {"arg_value": av}
            src.add_gate(n, targets=_container(t, cont), controls=_container(c, cont), **kw)
            qc.add_gate(src.gates[-1])
        else:
            kw = {} if av is None else {"arg_value": av}
            qc.add_gate(n, targets=_container(t, cont), controls=_container(c, cont), **kw)
    return qc


def wit(setup, N, mode, params, gates, p8=True, form=None, cont=None):
    return {"kind": "load", "setup": setup, "N": N, "mode": mode, **({"form": form} if form else {}), **({"cont": cont} if cont else {}),
            "params": None if params is None else {k: ([float(x) for x in v] if isinstance(v, (list, tuple)) else float(v))
                                                   for k, v in params.items()},
            "gates": [[n, list(t), list(c), (None if a is None else (a * PI8 if p8 else a))] for n, t, c, a in gates]}


# ------------------------------------------------------------------------------------------
# implementation side

def recording_compiler(N, params, setup):
    from qutip_qip.compiler import SpinChainCompiler

    class Rec(SpinChainCompiler):
        def _schedule(self, instruction_list, schedule_mode):
            self.rec_in = list(instruction_list)
            out, st = super()._schedule(instruction_list, schedule_mode)
            self.rec_out = (list(out), [float(x) for x in st])
            return out, st

    c = Rec(N, params, setup=setup)
    c.rec_in, c.rec_out = None, None
    return c


def classify(e):
    if isinstance(e, ValueError):
        m = str(e)
        if "Unsupported gate" in m:
            return "err unsupported"
        if "Wrong type" in m:
            return "err noPulse"
        return "err value:" + m[:40]
    if isinstance(e, KeyError):
        return "err key"
    if isinstance(e, IndexError):
        return "err index"
    return "err other:" + type(e).__name__ + ":" + str(e)[:60]


T_ERR = {"err transpile:route:shape": "err index", "err transpile:route:value": "err value",
         "err transpile:route:notimpl": "err notimpl", "err transpile:decomp:index": "err index",
         "err transpile:decomp:cannotResolve": "err cannotResolve", "err transpile:decomp:notSufficient1q": "err notSufficient1q",
         "err transpile:decomp:invalid2q": "err invalid2q"}


def impl_transpile(proc, qc):
    try:
        return "ok", proc.transpile(qc)
    except ValueError as e:
        m = str(e)
        if "Not sufficient" in m:
            return "err notSufficient1q", None
        if "not a valid two-qubit basis" in m:
            return "err invalid2q", None
        return "err value", None
    except NotImplementedError:
        return "err cannotResolve", None
    except (IndexError, TypeError):
        return "err index", None
    except Exception as e:
        return "err other:" + type(e).__name__, None


def aslist(x):
    return [] if x is None else list(x)


def instr_records(comp):
    """[(name, sorted targets, label | '-', coeff, duration, start)] in compile order"""
    ins_in = comp.rec_in
    out, st = comp.rec_out
    start = {id(i): s for i, s in zip(out, st)}
    recs = []
    for i in ins_in:
        if len(i.pulse_info) == 0:
            lab, co = "-", 0.0
        else:
            lab, co = i.pulse_info[0]
        recs.append((i.name, sorted(aslist(i.targets)), lab, float(co), float(i.duration), start[id(i)]))
    return recs


def close(x, q, scale=1.0):
    """float x of the implementation against the exact rational q of the model"""
    q = fr(q)
    if Fraction(x) == q:
        return True
    return abs(x - float(q)) <= 1e-12 * max(1.0, abs(float(q)), scale)


def same_coeff(x, q):
    """coefficient: exact when the model's value is dyadic (then the float arithmetic of the code is exact), else 1e-12"""
    q = fr(q)
    d = q.denominator
    if d & (d - 1) == 0:
        return Fraction(x) == q
    return close(x, q)


def parse_load(ans):
    """model answer -> (status, phase (Fraction, units of pi), native text, [(name, targets, label, coeff, dur, start)])"""
    if not ans.startswith("ok "):
        return ans.strip(), None, None, None
    f = dict(x.split("=", 1) for x in ans[3:].split(" "))
    ins = []
    if f["instrs"] != "-":
        for s in f["instrs"].split(";"):
            k, g, lab, co, du, st = s.split(":")
            n, t = g.split("/")
            ins.append((n, sorted(int(v) for v in t.split(".")) if t != "-" else [], lab, Fraction(co), Fraction(du), Fraction(st)))
    return "ok", Fraction(f["phase"]), f["native"], ins


def parse_native(txt):
    out = []
    if txt and txt != "-":
        for s in txt.split(";"):
            n, t, c, a = s.split("/")
            nat = lambda x: [] if x == "-" else [int(v) for v in x.split(".")]
            p8 = int(a.split(",")[3])
            out.append((n, nat(t), nat(c), p8))
    return out


PARAMETRIC = {"RX", "RY", "RZ", "PHASEGATE", "GLOBALPHASE", "CRX", "CRY", "CRZ", "CPHASE"}


def same_native(model, impl_gates):
    if len(model) != len(impl_gates):
        return False
    for (n, t, c, p8), g in zip(model, impl_gates):
        if n != g.name or t != aslist(g.targets) or c != aslist(g.controls):
            return False
        if n in PARAMETRIC:
            if g.arg_value is None or abs(g.arg_value - p8 * PI8) > 1e-12 * max(1.0, abs(p8 * PI8)):
                return False
    return True


# exact complex numbers of drv_gates
_Z = [cmath.exp(1j * PI * k / 8) for k in range(8)]


def parse_den(ans):
    if not ans.startswith("ok "):
        return None
    e, rows = ans[3:].split("|")
    sc = 2.0 ** int(e)
    M = []
    for r in rows.split(";"):
        M.append([sum(int(c) * _Z[k] for k, c in enumerate(x.split("_"))) / sc for x in r.split(",")])
    return np.array(M, dtype=complex)


def run_product(proc):
    Us = proc.run_analytically()
    U = np.eye(2 ** proc.num_qubits, dtype=complex)
    for u in Us:
        U = u.full() @ U
    return U


# ------------------------------------------------------------------------------------------
# the property itself on the real code (independent of the model)

def hw_coupling(setup, N, k):
    """the qubits coupling `g<k>` connects on the hardware as the property describes it (not read from the code)"""
    if setup == "circular":
        return {k, (k + 1) % N} if 0 <= k < N else None
    return {k, k + 1} if 0 <= k < N - 1 else None


def in_class(w):
    N = w["N"]
    if w["setup"] not in ("linear", "circular") or not (1 <= N <= 5) or (w["setup"] == "circular" and N < 2):
        return False
    if w["mode"] not in MODES:
        return False
    for g in w["gates"]:
        if g[0] not in XSHAPE:
            return False
        nc, nt, par = XSHAPE[g[0]]
        qs = list(g[1]) + list(g[2])
        if len(g[1]) != nt or len(g[2]) != nc or len(set(qs)) != len(qs) or not all(0 <= q < N for q in qs):
            return False
        if bool(par) != (g[3] is not None):
            return False
    for k, v in (w.get("params") or {}).items():
        vs = v if isinstance(v, list) else [v]
        if not all(x > 0 for x in vs):
            return False
    return True


def check_label(w):
    """witness kind 'label': the coupling the compiler picks for an exchange gate on NEIGHBOURING qubits connects them"""
    setup, N, a, b = w["setup"], w["N"], w["a"], w["b"]
    from qutip_qip.operations import Gate
    from qutip_qip.compiler import SpinChainCompiler
    proc = make_processor(setup, N, None)
    adjacent = abs(a - b) == 1 or (setup == "circular" and {a, b} == {0, N - 1})
    if not adjacent or a == b or not (0 <= a < N and 0 <= b < N):
        return False, "outside the property's class (the two qubits are not coupled by the hardware)"
    for name in ("ISWAP", "SQRTISWAP"):
        comp = SpinChainCompiler(N, proc.params, setup=setup)
        try:
            tl, co = comp.compile([Gate(name, targets=[a, b])])
        except Exception as e:
            return True, f"{name}[{a},{b}] on {setup}({N}): compile raises {type(e).__name__}: {e}"
        lab = list(co)[0]
        k = int(lab[1:]) if lab.startswith("g") and lab[1:].isdigit() else None
        if k is None or hw_coupling(setup, N, k) != {a, b}:
            return True, f"{name}[{a},{b}] on {setup}({N}) is compiled onto {lab}, which does not connect qubits {a} and {b}"
    return False, "coupling connects the gate's qubits"


def step_witness(w, s):
    """the single-load witness of one step of a history"""
    return {"kind": "load", "setup": w["setup"], "N": w["N"], "mode": s.get("mode"), "params": w.get("params"),
            "gates": s["gates"]}


def proc_state(proc):
    """what a processor holds: label, time grid and coefficients of every pulse, and the reported global phase"""
    return ([(p.label, None if p.tlist is None else np.array(p.tlist, dtype=float).copy(),
              None if p.coeff is None else np.array(p.coeff, dtype=float).copy()) for p in proc.pulses],
            float(getattr(proc, "global_phase", 0.0)))


def same_state(a, b):
    (pa, fa), (pb, fb) = a, b
    if fa != fb or len(pa) != len(pb):
        return False
    for (la, ta, ca), (lb, tb, cb) in zip(pa, pb):
        if la != lb or (ta is None) != (tb is None) or (ca is None) != (cb is None):
            return False
        if (ta is not None and not np.array_equal(ta, tb)) or (ca is not None and not np.array_equal(ca, cb)):
            return False
    return True


REFUSALS = ("too_large", "measure")


def refused_circuit(N, gates, kind):
    """a circuit the processor must refuse: one qubit more than the processor has, or a measurement in it"""
    from qutip_qip.circuit import QubitCircuit
    if kind == "too_large":
        qc = build_circuit(N + 1, gates, p8=False)
        qc.add_gate("CNOT", controls=[0], targets=[N])
        return qc
    qc = build_circuit(N, gates, p8=False)
    qc.add_measurement("M0", targets=[0], classical_store=0)
    return qc


def refusable(s):
    """the load of this step may be refused: a gate name outside the accepted set, or an explicit refusal kind"""
    return s.get("refuse") in REFUSALS or any(g[0] not in SHAPE for g in s["gates"])


def after_refusal(proc, before, Vprev, what):
    """CONTRACT of a refused load: load_circuit raised - the processor holds exactly what it held before the call (pulses and
    reported global phase), so its propagator x phase is still the unitary of the circuit loaded last (identity if none)"""
    if not same_state(before, proc_state(proc)):
        try:
            d = float(np.abs(run_product(proc) - Vprev).max())
            extra = f"; its propagator x reported phase now differs from the unitary of the circuit loaded last by {d:.3g}"
        except Exception as e:
            extra = f"; run_analytically now raises {type(e).__name__}"
        now = proc_state(proc)
        return True, (f"{what}: the REFUSED load changed the processor - before: {len(before[0])} pulse(s), reported phase "
                      f"{before[1]:.6g}; after: {len(now[0])} pulse(s), reported phase {now[1]:.6g}" + extra)
    try:
        d = float(np.abs(run_product(proc) - Vprev).max())
    except Exception as e:
        return True, f"{what}: after the refused load run_analytically raises {type(e).__name__}: {str(e)[:80]}"
    if d > 1e-9:
        return True, (f"{what}: after the refused load the propagator x reported phase differs from the unitary of the circuit "
                      f"loaded last by {d:.3g}")
    return False, ""


def check_history(w):
    """witness kind 'history': several circuits loaded one after the other on ONE processor instance (the same circuit again,
    different circuits alternately, optionally through run_state(qc=...) or with one compiler object handed to every load).
    After EVERY load the property must hold exactly as for a first load: propagated pulses x reported global phase = unitary
    of the circuit loaded last."""
    setup, N, steps = w["setup"], w["N"], w["steps"]
    if not steps or not all(in_class(step_witness(w, s)) for s in steps):
        return False, "outside the property's class"
    import qutip
    from qutip_qip.compiler import SpinChainCompiler
    try:
        Vs = [None if s.get("refuse") in REFUSALS else build_circuit(N, s["gates"], p8=False).compute_unitary().full() for s in steps]
        qcs = [refused_circuit(N, s["gates"], s["refuse"]) if s.get("refuse") in REFUSALS else
               build_circuit(N, s["gates"], p8=False, form=w.get("form"), cont=w.get("cont")) for s in steps]
    except Exception as e:
        return False, f"circuit not constructible / no unitary ({type(e).__name__})"
    proc = make_processor(setup, N, w.get("params"))
    shared = SpinChainCompiler(N, proc.params, setup=setup) if w.get("compiler") == "shared" else None
    Vprev = np.eye(2 ** N, dtype=complex)
    for k, (s, qc, V) in enumerate(zip(steps, qcs, Vs)):
        how = "run_state(init_state, qc=qc, analytical=True)" if s.get("via") == "run_state" else \
              f"load_circuit(qc, schedule_mode={s.get('mode')!r}" + (", compiler=<the same compiler object>)" if shared else ")")
        if refusable(s):
            before = proc_state(proc)
            try:
                with SC.patched(None):
                    proc.load_circuit(qc, schedule_mode=s.get("mode"), **({"compiler": shared} if shared is not None else {}))
            except Exception as e:
                f, d = after_refusal(proc, before, Vprev, f"step {k + 1} of {len(steps)} on ONE {setup}({N}) processor, {how} "
                                     f"raises {type(e).__name__} ({s.get('refuse') or 'gate outside the accepted set'})")
                if f:
                    return True, d
                continue
            if V is None:
                return False, f"the circuit of step {k + 1} ({s.get('refuse')}) is not refused: outside the class of this witness"
        try:
            with SC.patched(None):
                if s.get("via") == "run_state":
                    proc.run_state(qutip.basis([2] * N, [0] * N), qc=qc, analytical=True)
                elif shared is not None:
                    proc.load_circuit(qc, schedule_mode=s.get("mode"), compiler=shared)
                else:
                    proc.load_circuit(qc, schedule_mode=s.get("mode"))
            U = run_product(proc)
        except Exception as e:
            return True, f"step {k + 1} of {len(steps)} on one {setup}({N}) processor: {how} raises {type(e).__name__}: {str(e)[:80]}"
        d = float(np.abs(U - V).max())
        if d > 1e-9 + tiny_slack(step_witness(w, s)):
            same = [j + 1 for j in range(k) if steps[j]["gates"] == s["gates"]]
            f1, d1 = check_property(step_witness(w, s))
            return True, (f"step {k + 1} of {len(steps)} on ONE {setup}({N}) processor, {how}: propagator of the loaded pulses "
                          f"(reported global phase {proc.global_phase:.6g} included) differs from the unitary of the circuit "
                          f"loaded in this step by {d:.3g}" +
                          (f"; the same circuit was loaded before in step(s) {same}" if same else "") +
                          ("; on a fresh processor the same load is exact" if not f1 else "; a fresh processor fails as well"))
        Vprev = V
    return False, f"every one of the {len(steps)} loads on one processor reproduces the unitary of its circuit"


def apply_op(cur, op):
    """the gate list after one edit (pure)"""
    cur = [list(g) for g in cur]
    o = op["op"]
    if o == "set_arg":
        cur[op["k"]][3] = op["value"]
    elif o == "set_qubits":
        cur[op["k"]][1], cur[op["k"]][2] = list(op["targets"]), list(op["controls"])
    elif o == "replace":
        cur[op["k"]] = list(op["gate"])
    elif o == "append":
        cur.append(list(op["gate"]))
    elif o == "insert":
        cur.insert(op["k"], list(op["gate"]))
    elif o == "remove":
        del cur[op["k"]]
    return cur


def apply_op_live(qc, op, p8=False, form=None):
    """the same edit on the LIVE circuit object: fields of a gate object are assigned in place, gates are replaced / appended /
    removed in qc.gates"""
    o = op["op"]
    sc = (lambda a: None if a is None else (a * PI8 if p8 else a))
    if o == "set_arg":
        qc.gates[op["k"]].arg_value = sc(op["value"])
    elif o == "set_qubits":
        g = qc.gates[op["k"]]
        g.targets = list(op["targets"]) or None
        g.controls = list(op["controls"]) or None
    elif o in ("replace", "append", "insert"):
        n, t, c, a = op["gate"]
        f = form if form in ("class", "generic") else "class"
        g = make_gate(n, t, c, sc(a), f)
        if o == "replace":
            qc.gates[op["k"]] = g
        elif o == "append":
            qc.add_gate(g)
        else:
            qc.gates.insert(op["k"], g)
    elif o == "remove":
        del qc.gates[op["k"]]


def live_loads(w):
    """the single-load witnesses a live history goes through (gate list at the moment of every load)"""
    cur, out = [list(g) for g in w["gates"]], []
    for op in w["ops"]:
        if op["op"] == "load":
            out.append({"kind": "load", "setup": w["setup"], "N": w["N"], "mode": op.get("mode"), "params": w.get("params"),
                        "gates": [list(g) for g in cur]})
        else:
            try:
                cur = apply_op(cur, op)
            except Exception:
                return None
    return out


def check_live(w):
    """witness kind 'live': ONE processor, ONE circuit object (and, with compiler = 'shared', ONE compiler object passed as
    `compiler=`); between the loads the circuit object is edited in place (angle / qubits of a gate assigned, a gate replaced,
    appended, inserted, removed).  After EVERY load: propagator of the stored pulses x reported global phase = unitary of the
    circuit AS IT IS NOW (reference: a fresh circuit built from the current gate list by names)."""
    setup, N = w["setup"], w["N"]
    loads = live_loads(w)
    if not loads or not all(in_class(x) for x in loads):
        return False, "outside the property's class"
    import qutip
    from qutip_qip.compiler import SpinChainCompiler
    try:
        Vs = [build_circuit(N, x["gates"], p8=False).compute_unitary().full() for x in loads]
        qc = build_circuit(N, w["gates"], p8=False, form=w.get("form"))
    except Exception as e:
        return False, f"circuit not constructible / no unitary ({type(e).__name__})"
    proc = make_processor(setup, N, w.get("params"))
    shared = SpinChainCompiler(N, proc.params, setup=setup) if w.get("compiler") == "shared" else None
    k, told = 0, []
    Vprev = np.eye(2 ** N, dtype=complex)
    for op in w["ops"]:
        if op["op"] != "load":
            try:
                apply_op_live(qc, op, form=w.get("form"))
            except Exception as e:
                return False, f"the edit {op} is not possible on the live circuit object ({type(e).__name__})"
            told.append(op["op"])
            continue
        x, V = loads[k], Vs[k]
        k += 1
        how = (f"load_circuit(qc, schedule_mode={op.get('mode')!r}" + (", compiler=<the same compiler object>)" if shared else ")")
               if op.get("via") != "run_state" else "run_state(init_state, qc=qc, analytical=True)")
        if refusable(x) or op.get("refuse") in REFUSALS:
            before = proc_state(proc)
            try:
                qr = refused_circuit(N, x["gates"], op["refuse"]) if op.get("refuse") in REFUSALS else qc
                with SC.patched(None):
                    proc.load_circuit(qr, schedule_mode=op.get("mode"), **({"compiler": shared} if shared is not None else {}))
                refused = False
            except Exception as e:
                refused = True
                f, d = after_refusal(proc, before, Vprev, f"load {k} of {len(loads)} of ONE circuit object on ONE {setup}({N}) processor "
                                     f"(edits so far: {told or 'none'}), {how} raises {type(e).__name__} "
                                     f"({op.get('refuse') or 'gate outside the accepted set'})")
                if f:
                    return True, d
            if refused:
                continue
            if op.get("refuse") in REFUSALS:
                return False, f"load {k} ({op.get('refuse')}) is not refused: outside the class of this witness"
        try:
            with SC.patched(None):
                if op.get("via") == "run_state":
                    proc.run_state(qutip.basis([2] * N, [0] * N), qc=qc, analytical=True)
                elif shared is not None:
                    proc.load_circuit(qc, schedule_mode=op.get("mode"), compiler=shared)
                else:
                    proc.load_circuit(qc, schedule_mode=op.get("mode"))
            U = run_product(proc)
        except Exception as e:
            f1 = check_property(x)[0]
            return True, (f"load {k} of {len(loads)} of ONE circuit object on ONE {setup}({N}) processor (edits so far: {told or 'none'}): "
                          f"{how} raises {type(e).__name__}: {str(e)[:80]}" +
                          ("; a fresh circuit with the same gates on a fresh processor loads exactly" if not f1 else ""))
        d = float(np.abs(U - V).max())
        if d > 1e-9 + tiny_slack(x):
            f1 = check_property(x)[0]
            return True, (f"load {k} of {len(loads)} of ONE circuit object on ONE {setup}({N}) processor after the in-place edits "
                          f"{told or 'none'}, {how}: propagator of the loaded pulses (reported global phase {proc.global_phase:.6g} "
                          f"included) differs from the unitary of the circuit as it is now by {d:.3g}" +
                          ("; a fresh circuit with the same gates on a fresh processor is exact" if not f1
                           else "; a fresh circuit / processor fails as well"))
        Vprev = V
    return False, f"every one of the {len(loads)} loads of the edited circuit object reproduces its current unitary"


def check_property(w):
    """The property on the real code for one witness -> (fails, detail)."""
    if w.get("kind") == "label":
        return check_label(w)
    if w.get("kind") == "history":
        return check_history(w)
    if w.get("kind") == "live":
        return check_live(w)
    if not in_class(w):
        return False, "outside the property's class"
    setup, N = w["setup"], w["N"]
    objform = (w.get("form") or "name") != "name" or (w.get("cont") or "list") != "list"
    try:
        ref = build_circuit(N, w["gates"], p8=False)
        qc = build_circuit(N, w["gates"], p8=False, form=w.get("form"), cont=w.get("cont")) if objform else ref
    except Exception as e:
        return False, f"circuit not constructible ({type(e).__name__})"
    proc = make_processor(setup, N, w.get("params"))
    try:
        # the reference is the circuit built by gate NAMES with plain lists (independent of the object form under test)
        V = ref.compute_unitary().full()
    except Exception as e:
        return False, f"circuit has no unitary ({type(e).__name__})"
    try:
        with SC.patched(None):
            tl, co = proc.load_circuit(qc, schedule_mode=w["mode"])
    except Exception as e:
        other = sorted({g[0] for g in w["gates"] if g[0] not in SHAPE})
        if other:
            # a name outside the set the spin-chain processors accept: refusing is allowed, compiling it wrongly is not
            return False, f"refused ({type(e).__name__}): {other} not among the gates the processors accept"
        if (w.get("cont") or "list") != "list":
            try:
                qc.compute_unitary()
            except Exception:
                return False, f"the circuit object itself has no unitary with {w.get('cont')} targets (outside the class)"
        return True, (f"load_circuit raises {type(e).__name__}: {str(e)[:80]}" +
                      (f" (gates given as {w.get('form') or 'name'} objects, {w.get('cont') or 'list'} targets; the same circuit "
                       "built from gate names is " + ("refused as well" if check_property(dict(w, form=None, cont=None))[0]
                                                       else "loaded exactly") + ")" if objform else ""))
    # second sentence of the property: every exchange gate of the transpiled circuit sits on a coupling of its qubits
    try:
        from qutip_qip.compiler import SpinChainCompiler
        tq = proc.transpile(qc)
        comp = SpinChainCompiler(N, proc.params, setup=setup)
        for g in tq.gates:
            if len(aslist(g.targets)) + len(aslist(g.controls)) == 2 and g.name in comp.gate_compiler:
                ins = comp.gate_compiler[g.name](g, comp.args)
                for i in ins or []:
                    for lab, _ in i.pulse_info:
                        k = int(lab[1:]) if lab.startswith("g") and lab[1:].isdigit() else None
                        qs = set(aslist(g.targets)) | set(aslist(g.controls))
                        if k is None or hw_coupling(setup, N, k) != qs:
                            return True, (f"{g.name}{sorted(qs)} of the transpiled circuit is silently compiled onto {lab}, "
                                          f"which does not connect qubits {sorted(qs)} on {setup}({N})")
    except Exception as e:
        return True, f"compiling the transpiled gates one by one raises {type(e).__name__}: {str(e)[:80]}"
    try:
        U = run_product(proc)
    except Exception as e:
        return True, f"run_analytically raises {type(e).__name__}: {str(e)[:80]}"
    d = float(np.abs(U - V).max())
    slack = tiny_slack(w)
    if d > 1e-9 + slack:
        return True, (f"propagator of the compiled pulses (reported global phase {proc.global_phase:.6g} included) differs from "
                      f"the circuit unitary by {d:.3g}" +
                      (f" [gates given as {w.get('form') or 'name'} objects, {w.get('cont') or 'list'} targets]" if objform else "") +
                      (f" (rotations by {slack:.2g} in total have pulses below the grid resolution 1e-10)" if slack else ""))
    return False, f"same unitary (max entry difference {d:.2g})"


# classes the theorems exclude explicitly (see end_to_end_partial): described independently of the code under test
def has_three_qubit_gate(w):
    return any(len(g[1]) + len(g[2]) > 2 for g in w["gates"])


def zero_rotation_possible(w):
    """a rotation by the angle 0 (exactly) somewhere in the transpiled circuit: the compiled instruction has duration 0.
    Decided on the INPUT: an input rotation / phase gate with angle exactly 0 (every fixed rule angle is non-zero)."""
    return any(g[0] in ("RX", "RY", "RZ", "PHASEGATE") and g[3] == 0 for g in w["gates"])


GRID_TOL = 1e-10          # resolution of Processor.get_full_tlist: grid points at most this far apart are merged


def tiny_rotation(w):
    """class `grid-step-below-tol` (known finding): some rotation of the input has an angle so small that its pulse - duration
    |theta| / (4 pi * strength) - is not longer than the resolution 1e-10 of the merged time grid.  The theorems exclude it by
    hypothesis (SepAll / GapsResolved: grid points more than tol apart); the code merges the end point of that pulse away and
    then reads the coefficients of the channel one slot off.  Decided on the INPUT (angles and strengths), not on the code."""
    if w.get("kind") == "history":
        return any(tiny_rotation(step_witness(w, s)) for s in w["steps"])
    if w.get("kind") == "live":
        return any(tiny_rotation(x) for x in (live_loads(w) or []))
    if w.get("kind") != "load":
        return False
    par = w.get("params") or {}
    for g in w["gates"]:
        if g[0] in ("RX", "RY", "RZ", "PHASEGATE") and isinstance(g[3], (int, float)) and g[3] != 0 and g[1]:
            q = g[1][0]
            top = 0.0
            for k, dflt in (("sx", 0.25), ("sz", 1.0)):
                v = par.get(k, dflt)
                top = max(top, float(v[q] if isinstance(v, list) and q < len(v) else (v if not isinstance(v, list) else dflt)))
            if abs(g[3]) / (4 * math.pi * top) <= 1.05 * GRID_TOL:
                return True
    return False


def tiny_slack(w):
    """what a load may lose on a tree whose resampling only drops the slice of a pulse shorter than the grid resolution
    (fixes/C14-7): the sum of the angles of the rotations of class `grid-step-below-tol` (each dropped rotation R(theta)
    differs from the identity by about |theta|/2)"""
    if w.get("kind") != "load" or not tiny_rotation(w):
        return 0.0
    tot = 0.0
    par = w.get("params") or {}
    top = 0.0
    for k, dflt in (("sx", 0.25), ("sz", 1.0), ("sxsy", 0.1)):
        v = par.get(k, dflt)
        top = max([top] + [float(x) for x in (v if isinstance(v, list) else [v])])
    for g in w["gates"]:
        if g[0] in ("RX", "RY", "RZ", "PHASEGATE") and isinstance(g[3], (int, float)) and g[3] != 0:
            if tiny_rotation({"kind": "load", "params": w.get("params"), "gates": [g]}):
                # the dropped rotation itself, plus the neighbouring pulses being mis-assigned for at most 2 tol
                # (||H|| <= 2 pi x 2 x strongest strength)
                tot += abs(g[3]) + 2 * 2e-10 * 4 * math.pi * top
    return tot


def chained_tiny(w):
    """class `chained-near-duplicates` as it arises from circuits: two or more rotations whose pulses are below the grid
    resolution (their end points chain: each within 1e-10 of the previous one, the last more than 1e-10 after the first) -
    get_full_tlist as found drops points that are more than tol from every kept point (fixes/C14-8).  Conservative, decided
    on the input: at least two rotations of the class grid-step-below-tol."""
    if w.get("kind") == "history":
        return any(chained_tiny(step_witness(w, s)) for s in w["steps"])
    if w.get("kind") != "load":
        return False
    n = 0
    for g in w["gates"]:
        if g[0] in ("RX", "RY", "RZ", "PHASEGATE") and isinstance(g[3], (int, float)) and g[3] != 0:
            if tiny_rotation({"kind": "load", "params": w.get("params"), "gates": [g]}):
                n += 1
    return n >= 2


def kept_flag():
    """does get_full_tlist compare with the last KEPT point (fixes/C14-8.patch applied)?  read by C14's translator"""
    from props import c14
    try:
        return bool(c14.detect_flags()["kk"])
    except TranslatorError:
        return False


CHAIN_WITNESS = {"kind": "load", "setup": "linear", "N": 1, "mode": None, "params": None,
                 "gates": [["RX", [0], [], 1.0], ["RZ", [0], [], 8.8e-10], ["RZ", [0], [], 8.8e-10], ["RX", [0], [], 1.0]]}


def catchup_flag():
    """does _fill_coeff catch up over several slots (fixes/C14-7.patch applied)?  read from the source by C14's translator"""
    from props import c14
    try:
        return bool(c14.detect_flags()["cu"])
    except TranslatorError:
        return False


TINY_WITNESS = {"kind": "load", "setup": "linear", "N": 1, "mode": "ASAP", "params": None,
                "gates": [["RX", [0], [], 1.0], ["RZ", [0], [], 1e-9], ["RX", [0], [], 1.0]]}


def class_recorded(cls="grid-step-below-tol"):
    from vlib.core import load_findings
    return any(f.get("status") == "known" and f.get("class") == cls for f in load_findings("C06"))


def no_pulse(w, drops=False):
    """the circuit needs no pulse at all: empty, or only GLOBALPHASE gates (and, when the compiler drops instructions of
    duration 0, rotations by exactly 0)"""
    return all(g[0] == "GLOBALPHASE" or (drops and g[0] in ("RX", "RZ", "PHASEGATE") and g[3] == 0) for g in w["gates"])


def live_hist(setup, N, params, ck, form, base, script):
    """a live history in the terms of the correspondence: base gate list and script (p8 angles; script entries are
    {"op": "load", "mode": m} or edit ops) -> history tuple whose steps carry the gate list at the moment of every load, plus
    the edits to apply to the ONE circuit object before each load"""
    cur, steps, edits, pend = [list(g) for g in base], [], [], []
    for op in script:
        if op["op"] == "load":
            steps.append((op.get("mode"), [list(g) for g in cur], None))
            edits.append(pend)
            pend = []
        else:
            cur = apply_op(cur, op)
            pend.append(op)
    return (setup, N, params, ck, steps, {"form": form, "base": [list(g) for g in base], "script": script, "edits": edits})


def _p8f(a):
    return None if a is None else a * PI8


def live_witness(setup, N, fparams, ck, live):
    """the oracle witness (float angles) of a live history of the correspondence"""
    ops = []
    for op in live["script"]:
        op = dict(op)
        if "value" in op:
            op["value"] = _p8f(op["value"])
        if "gate" in op:
            n, t, c, a = op["gate"]
            op["gate"] = [n, list(t), list(c), _p8f(a)]
        ops.append(op)
    return {"kind": "live", "setup": setup, "N": N, "params": fparams, "compiler": ck, "form": live.get("form"),
            "gates": [[n, list(t), list(c), _p8f(a)] for n, t, c, a in live["base"]], "ops": ops}


_TUP = {}
SEQ_CONTS = ("tuple", "array")


def seq_targets_ok():
    """does Gate keep its qubits as lists whatever sequence they are given in (fixes/C06-3.patch)?  observed on the live
    objects"""
    key = paths.REPO
    if key not in _TUP:
        try:
            from qutip_qip.operations import Gate
            _TUP[key] = (isinstance(Gate("RX", targets=(0,), arg_value=1.0).targets, list) and
                         isinstance(Gate("ISWAP", targets=np.array([0, 1])).targets, list))
        except Exception:
            _TUP[key] = False
    return _TUP[key]


# ------------------------------------------------------------------------------------------

def detect_pre():
    """does ModelProcessor.transpile decompose gates on more than two qubits before routing (fixes/C13-1.patch)?"""
    _, pre = T_dev.extract()
    return pre


_FLAGS = {}


def behavioural_flags():
    """(pre, drops, empty_ok) observed on the live objects - used only when the source is no longer recognised by the
    translators (the check is red then anyway; the failing-input search must still know which recorded classes to skip)"""
    from qutip_qip.operations import Gate
    from qutip_qip.circuit import QubitCircuit
    try:
        pre = detect_pre()
    except Exception:
        try:
            qc = QubitCircuit(3)
            qc.add_gate("TOFFOLI", controls=[0, 1], targets=[2])
            tq = make_processor("linear", 3, None).transpile(qc)
            pre = all(len(aslist(g.targets)) + len(aslist(g.controls)) <= 2 for g in tq.gates)
        except Exception:
            pre = False
    try:
        proc = make_processor("linear", 1, None)
        comp = recording_compiler(1, proc.params, "linear")
        comp.compile([Gate("RX", targets=[0], arg_value=0.0), Gate("RX", targets=[0], arg_value=1.0)], schedule_mode=None)
        drops = len(comp.rec_in) == 1
    except Exception:
        drops = False
    try:
        make_processor("linear", 1, None).load_circuit(QubitCircuit(1))
        empty_ok = True
    except Exception:
        empty_ok = False
    return pre, drops, empty_ok


def source_flags():
    """(pre, drops, empty_ok): which of the recognised shapes the working tree has (ast, nothing is written)"""
    key = paths.REPO
    if key not in _FLAGS:
        try:
            _, info = T_sc.render()
            _FLAGS[key] = (detect_pre(), info["drops"], info["empty_ok"])
        except TranslatorError:
            _FLAGS[key] = behavioural_flags()
    return _FLAGS[key]


class C06(PropertyCheck):
    id = "C06"
    lean_modules = ["QipVerif.Props.C06"]
    drivers = ["drv_spinchain", "drv_gates"]
    theorems = ["QipVerif.C06." + t for t in (
        "tables_tie", "rot_calibrated", "iswap_calibrated", "sqrtiswap_calibrated", "closed_forms_are_groups",
        "label_connects", "label_connects_iff", "C06_counterexample_label",
        "phase_accumulated", "load_ignores_history", "refused_load_keeps_state", "end_to_end_partial",
        "propagator_is_exponential", "rot_calibrated_exp", "iswap_calibrated_exp", "sqrtiswap_calibrated_exp",
        "end_to_end_exp_partial", "end_to_end_pulses_partial", "end_to_end_pulses_scheduled_partial",
        "end_to_end_pulses_model_partial")] + [
        # the composition lemmas behind end_to_end_pulses_partial (Lemmas/Compose*.lean)
        "QipVerif.Compose.sliceProd_eq_windows", "QipVerif.Compose.channels_sliceProd",
        "QipVerif.SpinChain.pulses_product", "QipVerif.SpinChain.compile_chanQubits",
        "QipVerif.SpinChain.compile_cast", "QipVerif.SpinChain.fullCoeffsVW_mixed", "QipVerif.Compose.channels_sliceProd_all",
        "QipVerif.SpinChain.modelStarts_facts", "QipVerif.SpinChain.chain_chanJ", "QipVerif.SpinChain.pulses_product_sched"]
    technique = ("Lean 4: the compiler's formulas and tables regenerated from the source with ast into functions over an abstract "
                 "arithmetic, instantiated with R for the theorems and with Q for the compiled model driver; calibration "
                 "identities over C for every angle and strength, with the ideal propagator of a constant segment defined as "
                 "Mathlib's matrix exponential exp(-i*T*u*c*H) (closed forms proved from the power series: Q^3=Q lemma, even/odd "
                 "split); label rule for every chain length; composition with the "
                 "transpilation theorem (C13/C03/C07) and disjoint-support commutation; composition of the instruction list with "
                 "the models of C12 (schedule, grouping, source-driven _concatenate_pulses) and C14 (get_full_coeffs, slices, "
                 "run_analytically): induction over the merged grid with exp(A+B) = exp A exp B for commuting generators on "
                 "disjoint qubits and exp(sA) exp(tA) = exp((s+t)A); instruction-level correspondence with "
                 "the implementation and exact-unitary comparison with run_analytically")
    level_text = ("Lean 4 theorems about the regenerated formulas/tables of SpinChainCompiler, generate_pulse_shape and "
                  "SpinChainModel and the hand model of the compiler stage: for every real angle and every non-zero strength the "
                  "compiled RX/RZ pulse has the ideal propagator R(theta) (area theta/4pi, sign and magnitude of the coefficient, "
                  "duration; theta = 0 gives duration 0); the exchange pulses of area -1/8, -1/16 give ISWAP, SQRTISWAP (generated "
                  "and exact library matrices); the ideal propagator is the matrix exponential (Mathlib NormedSpace.exp) "
                  "exp(-i * duration * coeff * 2pi*H_label) of the control Hamiltonian SpinChainModel puts on the label (Pauli "
                  "operator / XX+YY and the factor 2pi read from the regenerated tables): propagator_is_exponential proves the closed "
                  "forms cos(phi) - i sin(phi) P (P^2 = 1) and the block form for XX+YY equal to it, on one/two qubits and embedded in "
                  "the N-qubit register for every instruction; rot/iswap/sqrtiswap_calibrated_exp and end_to_end_exp_partial are "
                  "stated with the exponential; for every chain length >= 2, both topologies and every two distinct qubits the "
                  "chosen coupling label connects the gate's qubits iff they are coupled (counter-example for non-neighbours); the "
                  "reported global phase is the sum of the GLOBALPHASE gates of the transpiled circuit; end_to_end_partial: for every "
                  "N, topology, angle valuation, strength vector and accepted circuit, e^{i*phase} x product of the instructions' "
                  "ideal propagators = circuit unitary, in circuit order and in every scheduled time order respecting the "
                  "dependencies, composed from the transpilation theorem (C13/C03/C07), the calibration theorems and "
                  "disjoint-support commutation. end_to_end_pulses_partial closes the step from the instruction list to the "
                  "propagator run_analytically computes: for every rational instruction list whose cast is the compiled one, every "
                  "scheduler answer accepted by C12's model of _schedule and the channels its grouping loop builds, C12's "
                  "source-driven model of compile returns the closed-form channels, C14's model of get_full_coeffs (either padding "
                  "variant) returns merged grid and rows, and e^{i*phase} x the product of the slice exponentials "
                  "exp(-i*dt_k*sum_m rows[m][k]*H_m) (Grid.runAnalytically, Mathlib's exponential) = circuit unitary "
                  "(Lemmas/ComposeSlices: slice product over a grid aligned with the pulse windows = ordered product of "
                  "exp(-i*dur*coeff*H_label), any order compatible with the time order; ComposeChannels: the Hamiltonian of a slice "
                  "is the sum of the generators of the windows containing it, window end points are merged grid points). "
                  "end_to_end_pulses_scheduled_partial: the same for the schedule the pipeline model itself produces (modelStarts: "
                  "cumulative sums without scheduling, C05/C11's Sched.pulseStarts with the regenerated commuting set and "
                  "conflict-edge variant for ASAP/ALAP - the function drv_spinchain runs): no overlap on shared gate qubits, "
                  "respected dependencies, starts >= 0 and sorted non-overlapping channels are proved from C11.timetable_valid_tree "
                  "(integer durations over the common denominator transported to the rationals), the grouping loop provably "
                  "succeeds; remaining named hypotheses: some instruction carries a pulse, GapsResolved (every idle gap on a channel "
                  "is 0 or above time_tol: C12.tolerance_counterexample shows it cannot be dropped), SepAll tol (C14). "
                  "end_to_end_pulses_model_partial removes the rational-list hypothesis: it speaks about the Rat instance of the "
                  "compiler model itself (compile (1:Rat) (evQr r): angles in units of pi, pi := 1, the instance drv_spinchain runs) "
                  "and compile_cast proves that its instruction list cast to R is the list of the real-valued model, for every angle "
                  "that is a rational multiple of pi (fixed parts multiples of pi/8, symbols valued at r_j*pi with r_j rational) and "
                  "rational non-zero strengths; irrational strengths / other angles are outside; transpiled circuits with an IDLE gate "
                  "are excluded (its argument is a time, not an angle). Both theorems also state the result for the channel list of the "
                  "whole processor: every control label in the list, controls without pulse as Chan.absent (row of zeros, "
                  "fullCoeffsVW_mixed / channels_sliceProd_all), same merged grid, same unitary. Partial: "
                  "that composition is about exact rational arithmetic (durations, coefficients and start times as rationals, no "
                  "float rounding) and takes the facts about the schedule as hypotheses: every idle gap on a channel is 0 or above "
                  "time_tol (C12 ValidG), instructions whose gates share a qubit are disjoint in time (GateDisjoint; compile_chanQubits "
                  "proves that the control Hamiltonian of a compiled instruction acts on qubits of its gate) and the "
                  "dependencies are respected (C11), distinct merged grid points are more than tol apart (C14 SepAll); the floats "
                  "of the implementation are compared numerically (1e-9) with the exact unitary on every run; hypotheses: no gate on more than two qubits unless transpile pre-decomposes them "
                  "(C13-1, applied), positive instruction durations unless compile drops zero-duration instructions (C06-2, applied: "
                  "clause 6 of end_to_end_partial discharges it), the "
                  "routing stage over C (RouteStageDen), PHASEGATE at multiples of pi/4.")
    level_note = ("Trusted: Lean kernel (propext, Classical.choice, Quot.sound); py/translate/spinchain.py (ast), "
                  "cross-checked against the live compiler/model objects every run; the models of C13/C07/C03 and C05/C11 as composed "
                  "in lean/Drv/SpinChain.lean; the models of C12/C14 for concatenation and slice product (their correspondences; the "
                  "composition instruction list -> pulses -> slices -> propagator is now a Lean theorem over these models, "
                  "end_to_end_pulses_partial, under the schedule hypotheses listed in level_text); numpy/scipy expm (that Qobj.expm computes "
                  "the matrix exponential); the harness.  No analytic closed form is trusted any more: exp(-i phi P) and "
                  "exp(-i phi (XX+YY)) are proved from Mathlib's exponential (Lemmas/MatExp.lean, Lemmas/SpinChainExp.lean).  The fixes "
                  "C06-1, C06-2, C13-1 are applied in /repo; the regenerated flags loadsEmpty, dropsZeroDuration, pre are true.")
    trusted_base = [
        "Lean 4.33 kernel; axioms propext, Classical.choice, Quot.sound",
        "Mathlib's definition of the matrix exponential (NormedSpace.exp, power series) as the meaning of 'ideal propagator of a "
        "constant Hamiltonian segment' exp(-i*T*H); the closed forms are proved, not assumed",
        "py/translate/spinchain.py (ast extraction of the compiler/model formulas and tables), cross-checked against the live "
        "objects every run",
        "models of C13/C07/C03 (transpile), C05/C11 (scheduler) as composed by lean/Drv/SpinChain.lean; the models of C12 "
        "(Concat.schedule/groupPulses/compileS with the regenerated Gen/ConcatSrc.lean) and C14 (Grid.fullCoeffsV/slices/"
        "runAnalytically) as the meaning of 'what compile and run_analytically compute' in end_to_end_pulses_partial (tied to the "
        "code by the correspondences of C12/C14, re-run by their checks; Gen/ConcatSrc.lean is regenerated by this check too)",
        "end_to_end_pulses_partial: exact rational arithmetic; hypotheses ValidG (C12), GateDisjoint/DepRespected (C11), "
        "SepAll (C14) about an arbitrary schedule; end_to_end_pulses_scheduled_partial derives them for the schedule of the "
        "pipeline model (Model/SpinChainSched.lean modelStarts, tied to the code by the start-time comparison of the "
        "correspondence) except GapsResolved (resolution class), SepAll and 'some instruction carries a pulse'",
        "py/props/c06.py harness; numpy/scipy expm inside run_analytically (runtime numerics, 1e-9 band)",
    ]
    assumptions = ["hardware strengths are non-zero (the property says positive)",
                   "a REFUSED load (load_circuit raises: more qubits than the processor, a gate without decomposition, a "
                   "measurement, an unknown label) leaves the processor exactly as before the call - pulses and reported global "
                   "phase (Model/SpinChainSched.afterLoad, theorem refused_load_keeps_state); the property is then judged against "
                   "the circuit loaded last: compared after every refused step of the histories",
                   "circuits consist of library gates without classical controls and contain no measurement",
                   "end_to_end_partial: hypothesis RouteStageDen (routing stage preserves denG, as in C13); PHASEGATE with a fixed "
                   "angle is a multiple of pi/4 (C03's phOK); DepRespected is C11's dep_respected for the start times (not re-proved here)",
                   "end_to_end_pulses_partial: durations, coefficients and start times are rational numbers and the arithmetic is exact "
                   "(no float rounding); idle gaps on a channel are 0 or above time_tol (C12 ValidG); instructions whose gates "
                   "share a qubit do not overlap in time (C11 timetable_valid); distinct merged grid points are more than tol "
                   "apart (C14 SepAll); end_to_end_pulses_partial itself states the used channels only, the scheduled/model theorems also "
                   "the full control list with absent channels",
                   "classes excluded from the oracle sweep exactly when the source has the defective shape: circuits with a gate on "
                   "more than two qubits (transpile without pre-decomposition), circuits with a rotation by exactly 0 (compile keeps "
                   "zero-duration instructions), circuits that need no pulse (load_circuit cannot store an empty pulse set)",
                   "class grid-step-below-tol (known finding, excluded by SepAll / GapsResolved): a rotation whose pulse is not longer "
                   "than the absolute resolution 1e-10 of Processor.get_full_tlist (|theta| <= 4 pi 1e-10 strength); members are "
                   "evaluated and reported as KNOWN-FINDING once the class is recorded in known_findings.json"]
    rule = ("case = (topology, chain length, schedule mode, hardware parameter vectors, gate list with placements and angles), or a "
            "history = sequence of 2-7 such loads on ONE processor instance (same circuit again, circuits alternately, through "
            "run_state(qc=...), one compiler object for every load); distinct by canonical JSON; non-trivial = at least one pulse "
            "instruction is compiled or the load is refused (history: at least two loads)")

    # ---------------------------------------------------------------------------------
    def regenerate(self, ctx):
        self.info = T_sc.regenerate()
        self.skip_zero = self.info["drops"]
        self.empty_ok = self.info["empty_ok"]
        try:
            self.pre = detect_pre()
        except TranslatorError:
            # ModelProcessor.transpile / _decompose_multi_qubit_gates no longer recognised: the check is red (the error is
            # passed on), the correspondence and the search go on with the behaviour observed on the live objects
            self.pre = behavioural_flags()[0]
            raise
        out = ["SpinChainTables.lean"]
        # end_to_end_pulses_partial is a theorem about C12's source-driven model `compileS Gen.concatSrc`: keep the
        # description of _concatenate_pulses / compile current for the tree under check (TranslatorError -> red)
        from props import c12 as _c12
        out += [os.path.basename(p) for p in (_c12.CHECK.regenerate(ctx) or [])]
        # the scheduler stage of the pipeline model (Model/SpinChainSched.lean, run by drv_spinchain and the subject of
        # end_to_end_pulses_scheduled_partial) takes the commuting-family set and the conflict-edge variant from
        # Gen/SchedRule.lean: regenerate it from the tree under check as C05/C11 do
        SC.regenerate()
        # the transpile stage of the pipeline model is C13's (Model/Transpile.lean): its reading of the string basis
        # "CNOT" in _decompose_multi_qubit_gates comes from Gen/DecompVariant.lean (fixes/C03-3), regenerated from the tree
        from translate import decomp as _decomp
        _decomp.regenerate_variant()
        out.append("DecompVariant.lean")
        return out

    # ---------------------------------------------------------------------------------
    def _tables_check(self, ctx, res):
        """extracted tables (as compiled into the driver) against the live objects"""
        ans = ctx.driver("drv_spinchain").run(["tables"])[0]
        f = dict(x.split("=", 1) for x in ans[3:].split(" "))
        from qutip_qip.compiler import SpinChainCompiler
        from qutip_qip.operations import Gate
        import qutip
        problems = []
        for setup in ("linear", "circular"):
            proc = make_processor(setup, 3, None)
            comp = SpinChainCompiler(3, proc.params, setup=setup)
            # gate map: names, and the behaviour class of each method on a probe gate
            live = []
            for name, meth in comp.gate_compiler.items():
                probe = Gate(name, targets=[0, 1] if name in ("ISWAP", "SQRTISWAP") else [1], arg_value=0.7)
                before = comp.global_phase
                r = meth(probe, comp.args)
                if r is None:
                    live.append(f"{name}:" + ("phase" if comp.global_phase != before else "noop"))
                    comp.global_phase = before
                elif not r[0].pulse_info:
                    live.append(f"{name}:idle")
                else:
                    lab, co = r[0].pulse_info[0]
                    if name in ("ISWAP", "SQRTISWAP"):
                        area = Fraction(float(co) * float(r[0].duration)).limit_denominator(1 << 20)
                        live.append(f"{name}:exchange/{area.numerator}/{area.denominator}")
                    else:
                        par = [k for k in ("sx", "sz") if abs(float(proc.params[k][1]) - abs(float(co))) < 1e-15]
                        live.append(f"{name}:rotation/{lab[:-1]}/{par[0] if len(par) == 1 else '?'}")
            if sorted(live) != sorted(f["rules"].split(",")):
                problems.append((setup + " gate_compiler", f["rules"], ",".join(live)))
            if f"{','.join(proc.native_gates)}:{setup}" != f[setup]:
                problems.append((setup + " native gates / topology (Gen/DeviceTables.lean)", f[setup], ",".join(proc.native_gates)))
            # control Hamiltonians
            P = {"x": qutip.sigmax(), "y": qutip.sigmay(), "z": qutip.sigmaz()}
            for ent in f["ctl"].split(","):
                pre, coef, op = ent.split(":")
                c = float(Fraction(coef)) * PI
                try:
                    ham, tg = proc.model.get_control(pre + "1")
                except Exception as e:
                    problems.append((setup + " control " + pre, ent, repr(e)))
                    continue
                if "+" in op or len(op) > 1:
                    want = 0
                    for term in op.split("+"):
                        sg = int(term[:-2])
                        want = want + sg * qutip.tensor(P[term[-2]], P[term[-1]])
                    okq = list(tg) == [1, 2]
                else:
                    want = P[op]
                    okq = tg == 1 or list(np.atleast_1d(tg)) == [1]
                if not okq or np.abs((ham - c * want).full()).max() > 1e-12:
                    problems.append((setup + " control " + pre, ent, f"targets {tg}"))
            d = proc.model.__class__(3, setup).params
            dd = [Fraction(x) for x in f["defaults"].split(",")]
            if [float(d["sx"][0]), float(d["sz"][0]), float(d["sxsy"][0])] != [float(x) for x in dd]:
                problems.append((setup + " defaults", f["defaults"], str(d)))
        # reset / hand-back, behaviourally
        proc = make_processor("linear", 1, None)
        comp = SpinChainCompiler(1, proc.params, setup="linear")
        qc = build_circuit(1, [["SNOT", [0], [], None]])
        proc.load_circuit(qc, compiler=comp)
        g1, c1 = proc.global_phase, comp.global_phase
        proc.load_circuit(qc, compiler=comp)
        c2 = comp.global_phase
        live_resets = "1" if abs(c2 - c1) < 1e-12 else "0"
        live_hands = "1" if abs(g1 - c1) < 1e-12 and abs(c1) > 1e-12 else "0"
        if live_resets != f["resets"]:
            problems.append(("compile resets the global phase", f["resets"], live_resets))
        if live_hands != f["hands"]:
            problems.append(("load_circuit hands the phase back", f["hands"], live_hands))
        inp = {"tables": "spin chain compiler / model"}
        res.case(inp, nontrivial=True, tags=["tables"])
        for what, m, i in problems:
            res.disagree(inp, m, i, "regenerated table vs live object: " + what,
                         wit("linear", 2, "ASAP", None, [["CNOT", [1], [0], None], ["RX", [0], [], 3]]))

    # ---------------------------------------------------------------------------------
    def _load_cases(self, ctx, res, cases, kind, e2e=True, e2e_budget=1e9):
        """cases: (setup, N, mode, params | None, gates with p8 angles); `e2e_budget`: seconds spent in run_analytically"""
        defaults = self.info["defaults"]
        spent = 0.0
        lines, dens = [], []
        cases = [tuple(c) + ((None,) if len(c) == 5 else ()) for c in cases]
        for setup, N, mode, params, gates, opts in cases:
            pl = param_lists(setup, N, params, defaults)
            lines.append(f"load setup={setup} n={N} mode={mode or 'none'} pre={1 if self.pre else 0} phase0=0 "
                         f"sx={','.join(map(rs, pl['sx']))} sz={','.join(map(rs, pl['sz']))} "
                         f"sxsy={','.join(map(rs, pl['sxsy'])) or '-'} gates={';'.join(map(enc_gate, gates)) or '-'}")
            dens.append(f"den k={N} gates={';'.join(map(enc_gate, gates)) or '-'}")
        outs = ctx.driver("drv_spinchain").run(lines)
        dout = ctx.driver("drv_gates").run(dens) if e2e else [None] * len(cases)
        for (setup, N, mode, params, gates, opts), o, dn in zip(cases, outs, dout):
            opts = opts or {}
            inp = {"setup": setup, "N": N, "mode": mode, "gates": [list(g) for g in gates], **opts,
                   "params": None if params is None else {k: ([rs(x) for x in v] if isinstance(v, (list, tuple)) else rs(v))
                                                          for k, v in params.items()}}
            w = wit(setup, N, mode, params, gates, form=opts.get("form"), cont=opts.get("cont"))
            st, mph, mnat, mins = parse_load(o)
            try:
                qc = build_circuit(N, gates, form=opts.get("form"), cont=opts.get("cont"))
                if opts.get("cont") not in (None, "list"):
                    qc.compute_unitary()          # a container the circuit itself cannot use is outside the class
            except Exception:
                continue
            if opts.get("cont") in SEQ_CONTS and not seq_targets_ok():
                continue                          # class `sequence-targets` (candidate finding, fixes/C06-3): judged by the oracle only
            proc = make_processor(setup, N, params)
            # stage 1: transpile
            tst, tq = impl_transpile(proc, qc)
            if st.startswith("err transpile:"):
                mst = T_ERR.get(st, st)
                res.case(inp, nontrivial=True, tags=[kind, f"setup={setup}", f"N={N}", "verdict=" + mst, "stage=transpile"])
                if mst != tst:
                    res.disagree(inp, st, tst, "verdict of transpile", w)
                continue
            if tst != "ok":
                res.case(inp, nontrivial=True, tags=[kind, "verdict=" + tst, "stage=transpile"])
                res.disagree(inp, st, tst, "verdict of transpile", w)
                continue
            # stage 2: compile + schedule + set_coeffs
            comp = recording_compiler(N, proc.params, setup)
            try:
                with SC.patched(None):
                    proc.load_circuit(qc, schedule_mode=mode, compiler=comp)
                ist = "ok"
            except Exception as e:
                ist = classify(e)
            n3 = has_three_qubit_gate(w)
            tags = [kind, f"setup={setup}", f"N={N}", f"mode={mode}", "verdict=" + st, f"len={min(len(gates), 8)}",
                    "params=" + ("default" if params is None else "vector")]
            if opts:
                tags += [f"form={opts.get('form') or 'name'}", f"targets={opts.get('cont') or 'list'}"]
            if n3:
                tags.append("three-qubit-gate")
            res.case(inp, nontrivial=(st != "ok" or bool(mins)), tags=tags)
            if st != ist:
                res.disagree(inp, st, ist, "verdict of load_circuit", w)
                continue
            if st != "ok":
                continue
            if not same_native(parse_native(mnat), tq.gates):
                res.disagree(inp, mnat[:300], [[g.name, aslist(g.targets), aslist(g.controls), g.arg_value] for g in tq.gates][:30],
                             "transpiled gate list", w)
                continue
            recs = instr_records(comp) if comp.rec_in is not None else []
            total = max([r[5] + r[4] for r in recs] + [1.0])
            bad = None
            if len(recs) != len(mins):
                bad = "number of instructions"
            else:
                exact = 0
                for (n, t, lab, co, du, s0), (mn, mt, mlab, mco, mdu, ms) in zip(recs, mins):
                    if (n, t, lab) != (mn, mt, mlab):
                        bad = f"instruction {n}{t}: channel label"
                        break
                    if not same_coeff(co, mco):
                        bad = f"instruction {n}{t} on {lab}: coefficient"
                        break
                    if not close(du, mdu):
                        bad = f"instruction {n}{t} on {lab}: duration"
                        break
                    if not close(s0, ms, total):
                        bad = f"instruction {n}{t} on {lab}: scheduled start"
                        break
                    exact += (Fraction(du) == mdu) + (Fraction(s0) == ms)
                res.hist["times bit-exact"] = res.hist.get("times bit-exact", 0) + exact
                res.hist["times compared"] = res.hist.get("times compared", 0) + 2 * len(recs)
            if bad:
                res.disagree(inp, [(a, b, c, rs(d), rs(e), rs(f)) for a, b, c, d, e, f in mins][:20],
                             [list(r) for r in recs][:20], "compiled instructions: " + bad, w)
                continue
            if abs(proc.global_phase - float(mph) * PI) > 1e-12 * max(1, abs(float(mph) * PI)):
                res.disagree(inp, f"{rs(mph)}*pi", proc.global_phase, "reported global phase", w)
                continue
            # end to end: exact unitary of the circuit against the propagated pulses
            if not e2e or dn is None:
                continue
            V = parse_den(dn)
            if V is None:
                res.hist["e2e: no exact unitary (odd multiple of pi/8)"] = res.hist.get("e2e: no exact unitary (odd multiple of pi/8)", 0) + 1
                continue
            zero = any(du == 0 for (_, _, _, _, du, _) in mins)
            if (zero and not self.skip_zero) or (n3 and not self.pre):
                # classes excluded by the hypotheses of end_to_end_partial (known findings): not compared here
                res.hist["e2e: excluded class"] = res.hist.get("e2e: excluded class", 0) + 1
                continue
            if spent > e2e_budget:
                res.hist["e2e: skipped (time budget of the tier)"] = res.hist.get("e2e: skipped (time budget of the tier)", 0) + 1
                continue
            t0 = time.time()
            try:
                U = run_product(proc)
            except Exception as e:
                res.disagree(inp, "unitary", classify(e), "run_analytically raises", w)
                continue
            finally:
                spent += time.time() - t0
            d = float(np.abs(U - V).max())
            res.hist["e2e compared"] = res.hist.get("e2e compared", 0) + 1
            if d > 1e-9:
                res.disagree(inp, "exact circuit unitary (drv_gates den)", f"max entry difference {d:.3g}",
                             "run_analytically product (global phase included) vs exact unitary", w)

    def _history_cases(self, ctx, res, hists, kind):
        """histories on ONE processor: (setup, N, params | None, 'fresh' | 'shared', [(mode, gates with p8 angles, via)]).
        The model's contract: every load_circuit is a function of (processor parameters, circuit, mode, state of the compiler
        object handed in) only - nothing of an earlier load survives.  'shared': one SpinChainCompiler object is passed to
        every load, the model is then chained through `phase0` (the value compiler.global_phase holds on entry).
        Compared after EVERY step: verdict, reported global phase, the stored pulses (bit-exact against a first load of the
        same circuit on a fresh processor) and the exact unitary against the run_analytically product."""
        from qutip_qip.compiler import SpinChainCompiler
        import qutip
        defaults = self.info["defaults"]
        drv = ctx.driver("drv_spinchain")

        def line(setup, N, params, mode, gates, phase0):
            pl = param_lists(setup, N, params, defaults)
            return (f"load setup={setup} n={N} mode={mode or 'none'} pre={1 if self.pre else 0} phase0={rs(phase0)} "
                    f"sx={','.join(map(rs, pl['sx']))} sz={','.join(map(rs, pl['sz']))} "
                    f"sxsy={','.join(map(rs, pl['sxsy'])) or '-'} gates={';'.join(map(enc_gate, gates)) or '-'}")

        # model answers: independent loads in one batch; shared-compiler histories chained step by step
        answers, batch, where = {}, [], []
        lives = [h[5] if len(h) > 5 else None for h in hists]
        hists = [tuple(h[:5]) for h in hists]
        for hi, (setup, N, params, ck, steps) in enumerate(hists):
            if ck == "shared":
                ph = Fraction(0)
                for k, (mode, gates, via) in enumerate(steps):
                    o = drv.run([line(setup, N, params, mode, gates, ph)])[0]
                    answers[(hi, k)] = o
                    if o.startswith("ok "):
                        ph = parse_load(o)[1]
            else:
                for k, (mode, gates, via) in enumerate(steps):
                    batch.append(line(setup, N, params, mode, gates, 0))
                    where.append((hi, k))
        for key, o in zip(where, drv.run(batch)):
            answers[key] = o
        dens = ctx.driver("drv_gates").run([f"den k={N} gates={';'.join(map(enc_gate, gates)) or '-'}"
                                            for (setup, N, params, ck, steps) in hists for (mode, gates, via) in steps])
        di = 0
        for hi, (setup, N, params, ck, steps) in enumerate(hists):
            fp = None if params is None else {k: ([float(x) for x in v] if isinstance(v, (list, tuple)) else float(v))
                                              for k, v in params.items()}
            live = lives[hi]
            w = {"kind": "history", "setup": setup, "N": N, "params": fp, "compiler": ck,
                 "steps": [dict({"mode": mode, "gates": wit(setup, N, mode, None, gates)["gates"]},
                                **({"via": via} if via else {})) for (mode, gates, via) in steps]}
            if live is not None:
                w = live_witness(setup, N, fp, ck, live)
            qc_live = None
            inp = {"history": [[mode, [list(g) for g in gates], via] for (mode, gates, via) in steps], "setup": setup, "N": N,
                   "compiler": ck, "params": None if params is None else {k: ([rs(x) for x in v] if isinstance(v, (list, tuple)) else rs(v))
                                                                           for k, v in params.items()}}
            repeats = sum(1 for k in range(1, len(steps)) if any(steps[j][1] == steps[k][1] for j in range(k)))
            if live is not None:
                inp["live"] = {"form": live.get("form"), "base": live["base"], "script": live["script"]}
            res.case(inp, nontrivial=len(steps) >= 2, tags=[kind + ("-live" if live is not None else ""), f"steps={len(steps)}",
                                                             "compiler=" + ck, "same circuit again=" + str(min(repeats, 3))] +
                     ([f"form={live.get('form') or 'name'}"] +
                      sorted({"edit=" + o["op"] for o in live["script"] if o["op"] != "load"}) if live is not None else []))
            proc = make_processor(setup, N, params)
            shared = SpinChainCompiler(N, proc.params, setup=setup) if ck == "shared" else None
            Vlast = np.eye(2 ** N, dtype=complex)
            for k, (mode, gates, via) in enumerate(steps):
                o, dn = answers[(hi, k)], dens[di + k]
                before = proc_state(proc)
                st, mph, mnat, mins = parse_load(o)
                mst = T_ERR.get(st, st) if st.startswith("err transpile:") else st
                try:
                    if live is None:
                        qc = build_circuit(N, gates)
                    else:
                        # ONE circuit object: built once, then edited in place before every later load
                        if qc_live is None:
                            qc_live = build_circuit(N, live["base"], form=live.get("form"))
                        for op in live["edits"][k]:
                            apply_op_live(qc_live, op, p8=True, form=live.get("form"))
                        qc = qc_live
                except Exception:
                    break
                try:
                    with SC.patched(None):
                        if via == "run_state":
                            proc.run_state(qutip.basis([2] * N, [0] * N), qc=qc, analytical=True)
                        elif shared is not None:
                            proc.load_circuit(qc, schedule_mode=mode, compiler=shared)
                        else:
                            proc.load_circuit(qc, schedule_mode=mode)
                    ist = "ok"
                except Exception as e:
                    ist = classify(e)
                    if st.startswith("err transpile:"):
                        ist = impl_transpile(make_processor(setup, N, params), qc)[0]
                what = None
                if mst != ist:
                    what = (mst, ist, "verdict of the load")
                elif st != "ok":
                    # REFUSED by model and code alike: the model's processor keeps the result of the last successful load
                    # (Model/SpinChainSched.afterLoad) - pulses and reported phase bit-exact as before the call, same unitary
                    res.hist["refused loads: processor state compared"] = res.hist.get("refused loads: processor state compared", 0) + 1
                    f, dd = after_refusal(proc, before, Vlast, "refused load")
                    if f:
                        what = ("processor unchanged by a refused load (pulses, reported phase, propagator of the circuit loaded last)",
                                dd[:400], "state of the processor after a REFUSED load")
                elif st == "ok":
                    if abs(proc.global_phase - float(mph) * PI) > 1e-12 * max(1, abs(float(mph) * PI)):
                        what = (f"{rs(mph)}*pi", proc.global_phase, "reported global phase")
                    else:
                        # the stored pulses: bit-exact those of a first load on a fresh processor
                        ref = make_processor(setup, N, params)
                        with SC.patched(None):
                            ref.load_circuit(qc if live is None else build_circuit(N, gates), schedule_mode=mode)
                        for a, b in zip(proc.pulses, ref.pulses):
                            same = (a.label == b.label and (a.tlist is None) == (b.tlist is None) and (a.coeff is None) == (b.coeff is None)
                                    and (a.tlist is None or np.array_equal(np.asarray(a.tlist), np.asarray(b.tlist)))
                                    and (a.coeff is None or np.array_equal(np.asarray(a.coeff), np.asarray(b.coeff))))
                            if not same:
                                what = ("pulses of a first load on a fresh processor", f"pulse {a.label}: tlist {a.tlist}, coeff {a.coeff}",
                                        "stored pulses")
                                break
                        V = parse_den(dn)
                        zero = any(du == 0 for (_, _, _, _, du, _) in mins)
                        n3 = any(len(g[1]) + len(g[2]) > 2 for g in gates)
                        if what is None and V is not None and not ((zero and not self.skip_zero) or (n3 and not self.pre)):
                            try:
                                d = float(np.abs(run_product(proc) - V).max())
                            except Exception as e:
                                d = None
                                what = ("unitary", classify(e), "run_analytically raises")
                            res.hist["e2e compared (history)"] = res.hist.get("e2e compared (history)", 0) + 1
                            if d is not None and d > 1e-9:
                                what = ("exact circuit unitary (drv_gates den)", f"max entry difference {d:.3g}",
                                        "run_analytically product (global phase included) vs exact unitary")
                        if V is not None:
                            Vlast = V
                        else:
                            try:
                                Vlast = build_circuit(N, gates).compute_unitary().full()
                            except Exception:
                                pass
                if what:
                    res.disagree(inp, what[0], what[1], f"history, step {k + 1} of {len(steps)}: " + what[2], w)
                    break
            di += len(steps)

    def _rand_history(self, rng, names):
        """2-5 loads on one processor drawn from a pool of 1-3 circuits (so the same circuit comes again, directly and after
        another one), schedule modes from a pool of 1-2"""
        setup = rng.choice(["linear", "circular"])
        N = rng.randint(2 if setup == "circular" else 1, 4)
        pool = []
        for _ in range(rng.randint(1, 3)):
            r = rng.random()
            if r < 0.1 and N >= 2:
                rname = rng.choice(["BERKELEY", "CZ", "SQRTSWAP", "CY", "S", "T"])     # refused: the processor keeps what it holds
                nc, nt, par = SHAPE_REFUSED[rname]
                qs = rng.sample(range(N), nc + nt)
                gs = [g for g in (self._rand_gate(rng, N, names, True, False) for _ in range(rng.randint(0, 2))) if g] + \
                     [[rname, qs[:nt], qs[nt:], None]]
            elif r < 0.16:
                gs = []                                        # the empty circuit: nothing of the previous load may survive
            elif r < 0.2:
                gs = [["GLOBALPHASE", [], [], 2 * rng.choice([1, 3, -2, 5])]]
            else:
                gs = [g for g in (self._rand_gate(rng, N, names, True, False) for _ in range(rng.randint(1, 4))) if g]
            pool.append(gs)
        modes = [rng.choice(MODES) for _ in range(rng.randint(1, 2))]
        ck = "shared" if rng.random() < 0.25 else "fresh"
        steps = []
        for _ in range(rng.randint(2, 5)):
            via = "run_state" if (ck == "fresh" and rng.random() < 0.15) else None
            steps.append(("ASAP" if via else rng.choice(modes), rng.choice(pool), via))
        return (setup, N, self._rand_params(rng, setup, N), ck, steps)

    def _fixed_histories(self):
        """every accepted gate that leaves a global phase behind, loaded twice / three times; A B A A B; through run_state;
        with one compiler object"""
        out = []
        bell = [["SNOT", [0], [], None], ["CNOT", [1], [0], None]]
        other = [["RX", [1], [], 4], ["ISWAP", [0, 1], [], None]]
        for setup in ("linear", "circular"):
            for mode in MODES:
                out.append((setup, 2, None, "fresh", [(mode, bell, None)] * 3))
                out.append((setup, 2, None, "fresh", [(mode, bell, None), (mode, other, None), (mode, bell, None), (mode, bell, None),
                                                      (mode, other, None), (mode, [], None), (mode, bell, None)]))
            out.append((setup, 2, None, "fresh", [("ASAP", bell, "run_state"), ("ASAP", bell, "run_state")]))
            out.append((setup, 2, None, "shared", [("ASAP", bell, None), ("ASAP", bell, None), ("ALAP", other, None), ("ASAP", bell, None)]))
            out.append((setup, 2, None, "fresh", [("ASAP", bell, None), ("ALAP", bell, None), (None, bell, None), ("ASAP", bell, None)]))
        for name in ACCEPTED:
            nc, nt, par = SHAPE[name]
            if nc + nt > 3 or (nc + nt > 2 and not self.pre):
                continue
            N = max(1, nc + nt)
            g = [name, list(range(nt)), list(range(nt, nt + nc)), (6 if par else None)]
            out.append(("linear", N, None, "fresh", [("ASAP", [g], None), ("ASAP", [g], None)]))
        # a REFUSED load in between (a gate outside the accepted set): the processor keeps circuit A and its phase
        A = [["X", [0], [], None], ["CNOT", [1], [0], None], ["RY", [1], [], -2]]
        for setup in ("linear", "circular"):
            for ck in ("fresh", "shared"):
                for rname in ("BERKELEY", "CZ", "SQRTSWAP", "T"):
                    nc, nt, par = SHAPE_REFUSED[rname]
                    bad = [["RX", [0], [], 2], [rname, list(range(nt)), list(range(nt, nt + nc)), None]]
                    out.append((setup, 2, None, ck, [("ASAP", A, None), ("ALAP", bad, None), (None, bad, None), ("ASAP", A, None)]))
            out.append((setup, 2, None, "fresh", [("ASAP", [["BERKELEY", [0, 1], [], None]], None), ("ASAP", A, None)]))
        return out

    # --- object forms, special angles, live circuit objects -------------------------------------------------------
    SPECIAL_P8 = [0, 16, -16, 32, -32, 48, -48, 80, 64, -96, 4, -4, 12, 20, -28, 36, 8, -8, 24, 40,
                  8000, -16016, 80016, 8004, 800000]

    def _object_form_cases(self, rng, n_rand, thorough=False):
        """every accepted gate in every object form (library class instance, generic Gate(name, ...) object, gate objects
        taken over from another circuit, mixed) - TOFFOLI / FREDKIN as generic objects included -, then random circuits in a
        random form with list / tuple / numpy-array / numpy-integer targets"""
        cases = []
        for form in FORMS[1:]:
            for name in ACCEPTED:
                nc, nt, par = SHAPE[name]
                if nc + nt > 2 and (not self.pre or (not thorough and form not in ("generic", "moved"))):
                    continue          # (quick tier: 3-qubit gates as generic objects and as objects of another circuit)
                N = max(2, nc + nt)
                g = [name, list(range(nt)), list(range(nt, nt + nc)), (6 if par else None)]
                cases.append(("linear", N, "ASAP", None, [["RX", [N - 1], [], 2], g], {"form": form}))
            if self.pre and thorough:
                cases.append(("circular", 4, "ALAP", None, [["TOFFOLI", [3], [0, 2], None], ["FREDKIN", [0, 2], [1], None],
                                                             ["RY", [1], [], 6]], {"form": form}))
        two = [n for n in ACCEPTED if SHAPE[n][0] + SHAPE[n][1] <= 2]
        for _ in range(n_rand):
            names = two if (rng.random() < 0.7 or not self.pre or not thorough) else ACCEPTED
            c = self._rand_case(rng, names, maxlen=5, even=True, zero=(rng.random() < 0.3))
            cases.append(tuple(c) + ({"form": rng.choice(FORMS), "cont": rng.choice(CONTS)},))
        return cases

    def _special_angle_cases(self):
        """rotations / phase gates by exactly 0, +-2 pi, +-4 pi, odd and even multiples of 2 pi, k pi/2, huge multiples of pi:
        alone, and the same angle in parallel on two qubits followed by an exchange gate"""
        cases = []
        for p8 in self.SPECIAL_P8:
            for name in ("RX", "RY", "RZ", "PHASEGATE"):
                cases.append(("linear", 1, "ASAP", None, [[name, [0], [], p8]]))
            cases.append(("linear", 1, None, None, [["RX", [0], [], 2], ["GLOBALPHASE", [], [], p8], ["RZ", [0], [], p8]]))
            for mode in MODES:
                cases.append(("circular", 2, mode, {"sx": [Fraction(1, 4), Fraction(1, 2)], "sz": Fraction(1), "sxsy": Fraction(1, 8)},
                              [["RX", [0], [], p8], ["RX", [1], [], 2 * p8], ["ISWAP", [0, 1], [], None], ["RZ", [1], [], p8]]))
        return cases

    def _rand_edit(self, rng, N, cur, names):
        """one in-place edit of the gate list `cur` (p8 angles)"""
        kinds = ["append", "insert"] + (["set_arg", "set_qubits", "replace", "remove"] if cur else [])
        for _ in range(20):
            o = rng.choice(kinds)
            if o in ("append", "insert", "replace"):
                g = self._rand_gate(rng, N, names, True, True)
                if not g:
                    continue
                if o == "append":
                    return {"op": "append", "gate": g}
                k = rng.randrange(len(cur) + (1 if o == "insert" else 0)) if (cur or o == "insert") else 0
                return {"op": o, "k": k, "gate": g}
            k = rng.randrange(len(cur))
            n, t, c, a = cur[k]
            if o == "remove":
                return {"op": "remove", "k": k}
            if o == "set_arg" and a is not None:
                return {"op": "set_arg", "k": k, "value": rng.choice([v for v in self.SPECIAL_P8[:20] + [2, 6, -10] if v != a])}
            if o == "set_qubits" and len(t) + len(c) <= N:
                qs = rng.sample(range(N), len(t) + len(c))
                if qs[:len(t)] != list(t) or qs[len(t):] != list(c):
                    return {"op": "set_qubits", "k": k, "targets": qs[:len(t)], "controls": qs[len(t):]}
        return {"op": "append", "gate": ["RX", [0], [], 2]}

    def _rand_live(self, rng, names):
        """ONE circuit object on ONE processor: load, 1-2 in-place edits, load again (another mode), ... 2-4 loads"""
        setup = rng.choice(["linear", "circular"])
        N = rng.randint(2 if setup == "circular" else 1, 4)
        base = [g for g in (self._rand_gate(rng, N, names, True, False) for _ in range(rng.randint(1, 4))) if g]
        cur, script = [list(g) for g in base], [{"op": "load", "mode": rng.choice(MODES)}]
        for _ in range(rng.randint(1, 3)):
            for _ in range(rng.randint(1, 2)):
                op = self._rand_edit(rng, N, cur, names)
                cur = apply_op(cur, op)
                script.append(op)
            script.append({"op": "load", "mode": rng.choice(MODES)})
        ck = "shared" if rng.random() < 0.4 else "fresh"
        return live_hist(setup, N, self._rand_params(rng, setup, N), ck, rng.choice(["name", "class", "generic", "mixed"]), base, script)

    def _fixed_lives(self, thorough=False):
        """a gate's angle assigned in place (to another value, to 0, to 2 pi), its qubits reassigned, the gate replaced,
        a GLOBALPHASE appended / removed, the circuit emptied - each followed by a load with another schedule mode; with a
        fresh compiler per load and with ONE compiler object passed as `compiler=`"""
        out = []
        L = lambda m: {"op": "load", "mode": m}
        base = [["SNOT", [0], [], None], ["CNOT", [1], [0], None], ["RZ", [1], [], 6], ["GLOBALPHASE", [], [], 4]]
        scripts = [
            [L("ASAP"), {"op": "set_arg", "k": 2, "value": 10}, L("ALAP"), {"op": "set_arg", "k": 2, "value": 0}, L(None),
             {"op": "set_arg", "k": 2, "value": 16}, L("ASAP")],
            [L("ASAP"), {"op": "set_arg", "k": 3, "value": -6}, L("ASAP"), {"op": "remove", "k": 3}, L("ALAP"),
             {"op": "append", "gate": ["GLOBALPHASE", [], [], 2]}, L(None)],
            [L(None), {"op": "set_qubits", "k": 1, "targets": [0], "controls": [1]}, L("ASAP"),
             {"op": "replace", "k": 0, "gate": ["RX", [1], [], 4]}, L("ALAP"), {"op": "insert", "k": 0, "gate": ["ISWAP", [0, 1], [], None]}, L("ASAP")],
            [L("ASAP"), {"op": "remove", "k": 0}, {"op": "remove", "k": 0}, {"op": "remove", "k": 0}, L("ASAP"),
             {"op": "remove", "k": 0}, L("ASAP"), {"op": "append", "gate": ["RY", [0], [], 4]}, L("ALAP")],
        ]
        scripts.append([L("ASAP"), {"op": "append", "gate": ["BERKELEY", [0, 1], [], None]}, L("ALAP"), L(None),
                        {"op": "remove", "k": 4}, L("ASAP")])
        combos = ([(su, f) for su in ("linear", "circular") for f in ("name", "class", "generic")] if thorough
                  else [("linear", "class"), ("linear", "generic"), ("circular", "name")])
        for setup, form in combos:
            for ck in ("fresh", "shared"):
                for sc in scripts:
                    out.append(live_hist(setup, 2, None, ck, form, base, sc))
        if source_flags()[0]:
            b3 = [["TOFFOLI", [2], [0, 1], None], ["RX", [1], [], 4]]
            sc = [L("ASAP"), {"op": "set_qubits", "k": 0, "targets": [0], "controls": [2, 1]}, L("ALAP"),
                  {"op": "replace", "k": 0, "gate": ["FREDKIN", [0, 2], [1], None]}, L(None)]
            for form in ("name", "generic"):
                out.append(live_hist("linear", 3, None, "shared", form, b3, sc))
        return out

    def _compile_cases(self, ctx, res, cases, kind):
        """direct compile of gate lists (no transpile, no label check): (setup, N, mode, params, gates)"""
        from qutip_qip.operations import Gate
        defaults = self.info["defaults"]
        lines = []
        for setup, N, mode, params, gates in cases:
            pl = param_lists(setup, N, params, defaults)
            lines.append(f"compile setup={setup} n={N} mode={mode or 'none'} phase0=0 "
                         f"sx={','.join(map(rs, pl['sx']))} sz={','.join(map(rs, pl['sz']))} "
                         f"sxsy={','.join(map(rs, pl['sxsy'])) or '-'} gates={';'.join(map(enc_gate, gates)) or '-'}")
        outs = ctx.driver("drv_spinchain").run(lines)
        for (setup, N, mode, params, gates), o in zip(cases, outs):
            inp = {"compile": 1, "setup": setup, "N": N, "mode": mode, "gates": [list(g) for g in gates],
                   "params": None if params is None else {k: ([rs(x) for x in v] if isinstance(v, (list, tuple)) else rs(v))
                                                          for k, v in params.items()}}
            st, mph, mnat, mins = parse_load(o)
            proc = make_processor(setup, N, params)
            comp = recording_compiler(N, proc.params, setup)
            gl = [Gate(n, targets=(list(t) or None), controls=(list(c) or None),
                       arg_value=(None if a is None else a * PI8)) for n, t, c, a in gates]
            try:
                with SC.patched(None):
                    tl, co = comp.compile(gl, schedule_mode=mode)
                ist = "ok"
            except Exception as e:
                ist = classify(e)
            res.case(inp, nontrivial=True, tags=[kind, "verdict=" + st])
            w = {"kind": "compile-only", "setup": setup, "N": N}
            if st != ist:
                res.disagree(inp, st, ist, "verdict of compile", None)
                continue
            if st != "ok":
                continue
            recs = instr_records(comp) if comp.rec_in is not None else []
            total = max([r[5] + r[4] for r in recs] + [1.0])
            okk = len(recs) == len(mins) and all(
                (n, t, lab) == (mn, mt, mlab) and same_coeff(c0, mco) and close(du, mdu) and close(s0, ms, total)
                for (n, t, lab, c0, du, s0), (mn, mt, mlab, mco, mdu, ms) in zip(recs, mins))
            if not okk:
                res.disagree(inp, [(a, b, c, rs(d), rs(e), rs(f)) for a, b, c, d, e, f in mins][:20],
                             [list(r) for r in recs][:20], "compiled instructions (direct compile)", None)
            elif abs(comp.global_phase - float(mph) * PI) > 1e-12 * max(1, abs(float(mph) * PI)):
                res.disagree(inp, f"{rs(mph)}*pi", comp.global_phase, "compiler.global_phase", None)

    def _label_cases(self, ctx, res, maxN):
        from qutip_qip.operations import Gate
        from qutip_qip.compiler import SpinChainCompiler
        cases = [(setup, N, a, b) for setup in ("linear", "circular") for N in range(2, maxN + 1)
                 for a in range(N) for b in range(N) if a != b]
        outs = ctx.driver("drv_spinchain").run([f"label setup={s} n={N} a={a} b={b}" for s, N, a, b in cases])
        procs = {}
        for (setup, N, a, b), o in zip(cases, outs):
            f = dict(x.split("=", 1) for x in o[3:].split(" "))
            if (setup, N) not in procs:
                procs[(setup, N)] = make_processor(setup, N, None)
            proc = procs[(setup, N)]
            comp = SpinChainCompiler(N, proc.params, setup=setup)
            ins = comp.iswap_compiler(Gate("ISWAP", targets=[a, b]), comp.args)
            lab = ins[0].pulse_info[0][0]
            try:
                ham, tg = proc.model.get_control(lab)
                exists, qs = "1", ",".join(str(int(x)) for x in tg)
                connects = "1" if set(int(x) for x in tg) == {a, b} else "0"
            except KeyError:
                exists, qs, connects = "0", "-", "0"
            adjacent = "1" if abs(a - b) == 1 or (setup == "circular" and {a, b} == {0, N - 1}) else "0"
            live = {"idx": lab[1:], "exists": exists, "q": qs, "connects": connects, "adjacent": adjacent}
            inp = {"label": [setup, N, a, b]}
            res.case(inp, nontrivial=True, tags=["label", "adjacent=" + adjacent, "connects=" + connects])
            if live != f or not lab.startswith("g"):
                res.disagree(inp, f, live, "coupling label of _swap_compiler / control Hamiltonian it denotes",
                             {"kind": "label", "setup": setup, "N": N, "a": a, "b": b})
        return len(cases)

    # ---------------------------------------------------------------------------------
    def _rand_params(self, rng, setup, N):
        r = rng.random()
        if r < 0.15:
            return None
        dy = lambda: Fraction(rng.choice([1, 2, 3, 4, 5, 6, 8, 12, 16]), rng.choice([4, 8, 16]))
        p2 = lambda: Fraction(1, rng.choice([1, 2, 4, 8, 16])) * rng.choice([1, 2, 4])
        gen = p2 if r < 0.55 else dy
        if rng.random() < 0.3:
            return {"sx": gen(), "sz": gen(), "sxsy": gen()}
        return {"sx": [gen() for _ in range(N)], "sz": [gen() for _ in range(N)],
                "sxsy": [gen() for _ in range(n_coupling(setup, N))]}

    def _rand_gate(self, rng, N, names, even=True, zero=True):
        name = rng.choice(names)
        nc, nt, par = SHAPE.get(name, (0, 1, 0))
        if nc + nt > N:
            return None
        qs = rng.sample(range(N), nc + nt)
        a = None
        if par:
            # x pi/4: negative, exactly +-2 pi, inside [2 pi, 4 pi), exactly +-4 pi, beyond 4 pi
            ks = [1, 2, 3, 4, -1, -2, -3, 5, 7, 8, 9, 12, -6, -8, 10, -11, 16, -16, 18, 26, -20]
            if zero:
                ks = ks + [0, 0]
            # PHASEGATE: multiples of pi/4 only (the model's exact angles cannot halve an odd multiple of pi/8, C03's phOK)
            a = 2 * rng.choice(ks) if (even or name == "PHASEGATE") else rng.choice([2 * k for k in ks] + [1, 3, -5, 7, 17])
        return [name, qs[:nt], qs[nt:], a]

    def _rand_case(self, rng, names, maxlen=7, even=True, zero=True):
        setup = rng.choice(["linear", "circular"])
        N = rng.randint(2 if setup == "circular" else 1, 5)
        gs = [g for g in (self._rand_gate(rng, N, names, even, zero) for _ in range(rng.randint(0, maxlen))) if g]
        return (setup, N, rng.choice(MODES), self._rand_params(rng, setup, N), gs)

    def _ensure_info(self, ctx):
        """regenerate() failed (source not recognised: the check is red): the drivers still hold the tables of the last
        recognised source, so the correspondence and the failing-input search go on with those and with the behaviour
        flags observed on the live objects"""
        if getattr(self, "info", None) is not None:
            return
        ans = ctx.driver("drv_spinchain").run(["tables"])[0]
        f = dict(x.split("=", 1) for x in ans[3:].split(" "))
        dd = [Fraction(x) for x in f["defaults"].split(",")]
        self.pre, self.skip_zero, self.empty_ok = source_flags()
        self.info = {"defaults": {"sx": dd[0], "sz": dd[1], "sxsy": dd[2]}, "drops": self.skip_zero, "empty_ok": self.empty_ok}
        ctx.log("source not recognised by the translator: correspondence run against the tables of the last recognised source")

    def correspondence(self, ctx, res):
        rng = ctx.rng
        self._ensure_info(ctx)
        self._tables_check(ctx, res)
        nlab = self._label_cases(ctx, res, 40 if ctx.thorough else 12)
        # exhaustive: every placement of every accepted gate (one angle each), 1-4 qubits (thorough: 5), both topologies,
        # default parameters, three modes for the first placement
        cases = []
        top = 5 if ctx.thorough else 3
        for setup in ("linear", "circular"):
            for N in range(2 if setup == "circular" else 1, top + 1):
                for name in ACCEPTED + REFUSED:
                    nc, nt, par = SHAPE.get(name) or SHAPE_REFUSED[name]
                    if nc + nt > N:
                        continue
                    for qs in itertools.permutations(range(N), nc + nt):
                        cases.append((setup, N, "ASAP", None, [[name, list(qs[:nt]), list(qs[nt:]), (6 if par else None)]]))
        if not ctx.thorough:      # 4 and 5 qubits: every ordered placement of EVERY two-qubit name (accepted and refused)
            for setup in ("linear", "circular"):
                for N in (4, 5):
                    for name in ACCEPTED + REFUSED:
                        nc, nt, par = XSHAPE[name]
                        if nc + nt != 2 or (N == 5 and name in ("CNOT", "CSIGN", "SWAP", "SQRTISWAP")):
                            continue          # (5 qubits: the accepted ones are sampled by the random stream, ISWAP is kept)
                        for qs in itertools.permutations(range(N), 2):
                            cases.append((setup, N, "ASAP", None, [[name, list(qs[:nt]), list(qs[nt:]), (6 if par else None)]]))
        self._load_cases(ctx, res, cases, "single", e2e_budget=(300 if ctx.thorough else 8))
        res.exhaustive = True
        res.notes.append(f"exhaustive: the coupling-label rule for every ordered pair of distinct qubits on both topologies, "
                         f"2..{40 if ctx.thorough else 12} qubits ({nlab} pairs); every placement (ordered, any distance) of every "
                         f"accepted gate incl. TOFFOLI/FREDKIN and of the {len(REFUSED)} other gate names of the library (refused) on 1-{top} "
                         f"qubits x 2 topologies" + ("" if ctx.thorough else ", every ordered placement of every two-qubit name on 4 "
                                                     "and (refused names, ISWAP) 5 qubits") +
                         f" ({len(cases)} circuits); then seeded random circuits (per-qubit dyadic parameter vectors, three "
                         f"schedule modes, negative / zero / > 2 pi angles), a direct-compile stream with malformed gate lists")
        # random circuits, end to end
        n_rand = 2500 if ctx.thorough else 200
        two = [n for n in ACCEPTED if SHAPE[n][0] + SHAPE[n][1] <= 2]
        cases = []
        for i in range(n_rand):
            r = rng.random()
            # (quick tier: circuits with TOFFOLI / FREDKIN - a load of them takes up to 1 s - in 13 % instead of 25 % of the cases;
            # every placement of them is in the exhaustive stream and in the object-form stream)
            names = two if r < (0.6 if ctx.thorough else 0.72) else (
                ACCEPTED if r < 0.85 else ["RX", "RZ", "RY", "ISWAP", "SQRTISWAP", "GLOBALPHASE", "PHASEGATE"])
            cases.append(self._rand_case(rng, names, even=(rng.random() < 0.8), zero=(rng.random() < 0.5)))
        self._load_cases(ctx, res, cases, "random", e2e_budget=(600 if ctx.thorough else 10))
        # histories: several loads on ONE processor (the same circuit again, circuits alternately, run_state(qc=...), one
        # compiler object for every load)
        hists = self._fixed_histories()
        for i in range(400 if ctx.thorough else 40):
            hists.append(self._rand_history(rng, two if (rng.random() < 0.8 or not self.pre) else ACCEPTED))
        if not self.empty_ok:
            hists = [h for h in hists if all(not no_pulse({"gates": gs}, self.skip_zero) for (_, gs, _) in h[4])]
        self._history_cases(ctx, res, hists, "history")
        res.notes.append(f"histories: {len(hists)} sequences of 2-7 loads on one processor instance (the same circuit two and three "
                         "times in a row, circuits alternately, different schedule modes, the empty circuit in between, through "
                         "run_state(qc=...), one compiler object handed to every load); after every load: verdict, reported global "
                         "phase, stored pulses bit-exact against a first load on a fresh processor, exact unitary")
        # object forms of the gates; special angles; ONE circuit object edited in place between the loads
        oc = self._object_form_cases(rng, 600 if ctx.thorough else 50, ctx.thorough)
        self._load_cases(ctx, res, oc, "object-form", e2e_budget=(120 if ctx.thorough else 6))
        sa = self._special_angle_cases()
        self._load_cases(ctx, res, sa, "special-angle", e2e_budget=(120 if ctx.thorough else 8))
        lives = self._fixed_lives(ctx.thorough)
        for i in range(300 if ctx.thorough else 20):
            lives.append(self._rand_live(rng, two if (rng.random() < 0.8 or not self.pre) else ACCEPTED))
        if not self.empty_ok:
            lives = [h for h in lives if all(not no_pulse({"gates": gs}, self.skip_zero) for (_, gs, _) in h[4])]
        self._history_cases(ctx, res, lives, "history")
        res.notes.append(f"object forms: {len(oc)} circuits whose gates are library class instances, generic Gate(name, ...) objects "
                         "(TOFFOLI / FREDKIN included), objects taken over from another circuit, mixed; list / tuple / numpy-array / "
                         f"numpy-integer targets; special angles: {len(sa)} circuits (0, +-2 pi, +-4 pi, odd / even multiples of 2 pi, "
                         f"k pi/2, up to 1e5 pi; alone and in parallel on two qubits); live objects: {len(lives)} histories of ONE "
                         "circuit object on ONE processor (angle / qubits assigned in place, gate replaced, appended, inserted, "
                         "removed between loads with different schedule modes; fresh compiler per load or one compiler object passed "
                         "as compiler=); after every load the instruction-level comparison, phase, pulses and exact unitary of the "
                         "CURRENT gate list")
        # direct compile: native gate lists incl. non-adjacent exchange gates, unsupported names, out-of-range qubits
        cases = []
        for i in range(1500 if ctx.thorough else 200):
            setup = rng.choice(["linear", "circular"])
            N = rng.randint(2 if setup == "circular" else 1, 5)
            gs = []
            for _ in range(rng.randint(0, 6)):
                r = rng.random()
                if r < 0.35:
                    gs.append([rng.choice(["RX", "RZ"]), [rng.randrange(N + (1 if rng.random() < 0.08 else 0))], [],
                               rng.choice([1, 2, 3, -4, 0, 16, 17, -9])])
                elif r < 0.7 and N >= 2:
                    gs.append([rng.choice(["ISWAP", "SQRTISWAP"]), rng.sample(range(N), 2), [], None])
                elif r < 0.8:
                    gs.append(["GLOBALPHASE", [], [], rng.choice([1, -3, 8, 0])])
                elif r < 0.9:
                    gs.append([rng.choice(["RY", "X", "SNOT"]), [rng.randrange(N)], [], rng.choice([None, 2])])
                elif N >= 2:
                    qs = rng.sample(range(N), 2)
                    gs.append(["CNOT", [qs[0]], [qs[1]], None])
            cases.append((setup, N, rng.choice(MODES), self._rand_params(rng, setup, N), gs))
        self._compile_cases(ctx, res, cases, "direct-compile")

    # ---------------------------------------------------------------------------------
    def oracle_replay(self, ctx, w):
        return check_property(w)

    def _kept(self):
        if getattr(self, "_kk", None) is None:
            self._kk = kept_flag()
        return self._kk

    def _catchup(self):
        if getattr(self, "_cu", None) is None:
            self._cu = catchup_flag()
        return self._cu

    def finding_matches(self, witness, finding):
        if finding.get("class") == "chained-near-duplicates":
            return chained_tiny(witness)
        if finding.get("class") == "grid-step-below-tol":
            return tiny_rotation(witness)
        if finding.get("class") == "sequence-targets":
            return witness.get("cont") in SEQ_CONTS
        return PropertyCheck.finding_matches(self, witness, finding)

    def _excluded(self, w):
        """classes the hypotheses of end_to_end_partial exclude for the source as it is now"""
        if w.get("kind") == "label":
            return False
        if w.get("cont") in SEQ_CONTS and not (seq_targets_ok() or class_recorded("sequence-targets")):
            # qubits given as a tuple / numpy array (documented type: list or int): the circuit accepts them and has a unitary,
            # but Instruction.__init__ calls .sort() on a tuple (AttributeError) and the routing compares arrays (exchange gates
            # stay on uncoupled qubits and are SILENTLY compiled onto a wrong coupling) - candidate finding, fixes/C06-3.patch;
            # the model's qubit lists are lists.  Tree as found: skipped until the class is recorded (then KNOWN-FINDING);
            # tree with the patch: evaluated and must be exact
            return True
        if chained_tiny(w) and not (class_recorded("chained-near-duplicates") or self._kept()):
            # several pulses below the resolution in a row: points dropped although more than tol from every kept point
            # (defect of get_full_tlist as found, fixes/C14-8); evaluated once repaired or recorded as known
            return True
        if tiny_rotation(w) and not (class_recorded() or self._catchup()):
            # excluded by hypothesis (SepAll).  Tree as found: once the class is a recorded known finding its members are
            # evaluated and matched by finding_matches (KNOWN-FINDING).  Repaired tree (fixes/C14-7): members are evaluated and
            # must agree up to the slices of the pulses below the resolution (tiny_slack)
            return True
        if w.get("kind") == "history":
            return any(self._excluded(step_witness(w, s)) for s in w["steps"])
        if w.get("kind") == "live":
            return any(self._excluded(x) for x in (live_loads(w) or []))
        pre, drops, empty_ok = source_flags()
        if has_three_qubit_gate(w) and not pre:
            return True
        if zero_rotation_possible(w) and not drops:
            return True
        if no_pulse(w, drops) and not empty_ok:
            return True
        return False

    def _systematic(self):
        yield from self._systematic_core()
        yield from self._systematic_grid()

    ANG = [1.0, -2.5, 7.0, math.pi, -math.pi / 2, 2 * math.pi, 0.0,
           -2 * math.pi, 3 * math.pi, -9.1, 4 * math.pi, -4 * math.pi, 13.5, -5 * math.pi, 6.5 * math.pi]

    def _systematic_core(self):
        """run completely on every check: labels of neighbours, rotations by angles of every range, histories"""
        ang = self.ANG
        for setup in ("linear", "circular"):
            for N in range(2, 6):
                for a in range(N):
                    for b in range(N):
                        if a != b and (abs(a - b) == 1 or (setup == "circular" and {a, b} == {0, N - 1})):
                            yield {"kind": "label", "setup": setup, "N": N, "a": a, "b": b}
        # angles: below a turn, exactly +-2pi, inside [2pi, 4pi) on both sides, exactly +-4pi, beyond 4pi, zero
        # (R(theta) has period 4pi, not 2pi: R(theta + 2pi) = -R(theta))
        # first of all: single rotations and phase gates alone and inside a routed circuit with per-qubit strengths
        for a in ang:
            for name in ("RX", "RY", "RZ", "PHASEGATE"):
                yield {"kind": "load", "setup": "linear", "N": 1, "mode": "ASAP", "params": None, "gates": [[name, [0], [], a]]}
        for a in [1.0, 7.0, 2 * math.pi, -2 * math.pi, -9.1, 4 * math.pi, 13.5]:
            for name, setup in (("RX", "linear"), ("RY", "circular"), ("RZ", "linear")):
                yield {"kind": "load", "setup": setup, "N": 3, "mode": "ALAP",
                       "params": {"sx": [0.3, 0.25, 0.4], "sz": [1.0, 0.8, 1.3], "sxsy": [0.1, 0.15, 0.12][:n_coupling(setup, 3)]},
                       "gates": [["SNOT", [0], [], None], [name, [2], [], a], ["CNOT", [0], [2], None]]}
        # histories: every accepted gate loaded twice on one processor; A B A; through run_state; one compiler object
        for w in self._systematic_histories(three=False):
            yield w
        yield from self._alphabet()
        # rotations whose pulse is at / below the resolution 1e-10 of the merged grid (class grid-step-below-tol) and just above
        for a in (1e-9, -1e-9, 1e-10, 1e-12, 2e-9, 1e-8):
            for name in ("RZ", "RX", "PHASEGATE"):
                yield {"kind": "load", "setup": "linear", "N": 1, "mode": "ASAP", "params": None,
                       "gates": [["RX", [0], [], 1.0], [name, [0], [], a], ["RX", [0], [], 1.0]]}
        yield {"kind": "load", "setup": "circular", "N": 3, "mode": None, "params": None,
               "gates": [["PHASEGATE", [0], [], 1e-9], ["RZ", [1], [], 0.7], ["RZ", [0], [], 1e-9], ["SWAP", [0, 1], [], None]]}
        # several pulses below the resolution in a row (class chained-near-duplicates)
        yield CHAIN_WITNESS
        for mode in ("ASAP", None):
            yield {"kind": "load", "setup": "linear", "N": 1, "mode": mode, "params": None,
                   "gates": [["RX", [0], [], 1.0]] + [["RZ", [0], [], 6e-10]] * 3 + [["RX", [0], [], 1.0]]}
            yield {"kind": "load", "setup": "linear", "N": 2, "mode": mode, "params": None,
                   "gates": [["RX", [0], [], 1.0], ["RZ", [0], [], 8.8e-10], ["RZ", [1], [], 1.0], ["RZ", [0], [], -8.8e-10],
                             ["RX", [0], [], 1.0], ["CNOT", [1], [0], None]]}
        # object forms of the gates, special angles, ONE circuit object edited in place between the loads
        yield from self._form_witnesses()
        yield from self._special_witnesses()
        yield from self._live_witnesses()

    def _special_witnesses(self, wide=False):
        """special angles (floats): k pi/2, +-2 pi m (odd and even m), tiny +-1e-9..1e-4, huge 1e3..1e6, alone; the same /
        nearly the same angle (difference 1e-11..1e-7) in parallel on two qubits before an exchange gate"""
        pi = math.pi
        angs = ([k * pi / 2 for k in range(-8, 9)] + [s * 2 * pi * m for m in range(1, 7) for s in (1, -1)] +
                [s * e for e in (1e-9, 1e-8, 1e-7, 1e-6, 1e-5, 1e-4) for s in (1, -1)] +
                [1e3, 1e4, 1e5, 1e6, -31415.9, 2 * pi * 1000, 2 * pi * 1001, pi * (10 ** 5 + 1)])
        for a in angs:
            for name in ("RX", "RY", "RZ", "PHASEGATE", "GLOBALPHASE"):
                gs = [[name, [0], [], a]] if name != "GLOBALPHASE" else [["RX", [0], [], 1.0], [name, [], [], a]]
                yield {"kind": "load", "setup": "linear", "N": 1, "mode": "ASAP", "params": None, "gates": gs}
        for a in (1.0, pi, 2 * pi):
            for eps in (0.0, 1e-9, -1e-9, 3e-10, 1e-10, 1e-11, 1e-8, 1e-7):
                for mode in (MODES if wide else ["ASAP", "ALAP"]):
                    for nm in ("RX", "RZ"):
                        yield {"kind": "load", "setup": "linear", "N": 2, "mode": mode, "params": None,
                               "gates": [[nm, [0], [], a], [nm, [1], [], a + eps], ["ISWAP", [0, 1], [], None]]}

    def _form_witnesses(self, wide=False):
        """object forms: every accepted gate (3-qubit gates included) as a class instance, a generic Gate object, an object
        taken over from another circuit; tuple / numpy-array / numpy-integer targets"""
        pre = source_flags()[0]
        for form in FORMS[1:]:
            for name in ACCEPTED:
                nc, nt, par = SHAPE[name]
                if nc + nt > 2 and (not pre or (not wide and form != "generic")):
                    continue          # (3-qubit gates on every run as generic objects only: a load of them takes ~0.3 s)
                N = max(2, nc + nt)
                for qs in (itertools.permutations(range(N), nc + nt) if wide else [tuple(range(nc + nt))]):
                    g = [name, list(qs[:nt]), list(qs[nt:]), (0.7 if par else None)]
                    yield {"kind": "load", "setup": "linear", "N": N, "mode": "ASAP", "params": None, "form": form,
                           "gates": [["RX", [N - 1], [], 0.4], g]}
        for cont in CONTS[1:]:
            for form in ("name", "generic"):
                yield {"kind": "load", "setup": "circular", "N": 3, "mode": "ALAP", "params": None, "form": form, "cont": cont,
                       "gates": [["RX", [2], [], 0.4], ["CNOT", [0], [2], None], ["RZ", [1], [], -2.0], ["ISWAP", [1, 2], [], None]]}

    def _live_witnesses(self):
        for h in self._fixed_lives():
            setup, N, params, ck, steps, live = h
            yield live_witness(setup, N, None, ck, live)

    def _rand_live_witness(self, rng):
        names = [n for n in ACCEPTED if SHAPE[n][0] + SHAPE[n][1] <= 2 or source_flags()[0]]
        setup, N, params, ck, steps, live = self._rand_live(rng, names)
        fp = None if params is None else {k: ([float(x) for x in v] if isinstance(v, (list, tuple)) else float(v))
                                          for k, v in params.items()}
        return live_witness(setup, N, fp, ck, live)

    def _alphabet(self, wide=False):
        """EVERY other gate name of the library (GATE_CLASS_MAP, legacy names, aliases: CZ, CX, H, iSWAP, IDLE, ...) on
        neighbouring AND distant qubits: the load is refused, or it meets the property (coupled, same unitary)"""
        for name, (nc, nt, par) in XSHAPE.items():
            if name in SHAPE or nc + nt > 2:
                continue
            a = XARGS.get(name, 0.7 if par else None)
            for setup, N in (("linear", 4), ("circular", 5)) + ((("linear", 5), ("circular", 4)) if wide else ()):
                if nc + nt == 1:
                    places = [[0], [N - 1]]
                elif wide:
                    places = [list(q) for q in itertools.permutations(range(N), 2)]
                else:
                    places = [[0, 1], [1, 0], [0, 2], [2, 0], [1, 3], [3, 1], [0, N - 1], [N - 1, 1]]
                for qs in places:
                    for mode in (MODES if wide else ["ASAP"]):
                        yield {"kind": "load", "setup": setup, "N": N, "mode": mode, "params": None,
                               "gates": [["RY", [qs[0]], [], 0.5], [name, qs[:nt], qs[nt:], a]]}

    def _systematic_grid(self):
        """every placement of every accepted gate x angle x mode (sampled by oracle_always, walked through by oracle_search)"""
        ang = self.ANG
        yield from self._alphabet(wide=True)
        yield from self._form_witnesses(wide=True)
        yield from self._special_witnesses(wide=True)
        for w in self._systematic_histories(three=True):
            yield w
        for setup in ("linear", "circular"):
            for N in (1, 2, 3, 4):
                if setup == "circular" and N < 2:
                    continue
                for mode in MODES:
                    for name in ACCEPTED:
                        nc, nt, par = SHAPE[name]
                        if nc + nt > N:
                            continue
                        for qs in itertools.permutations(range(N), nc + nt):
                            for a in (ang if par else [None]):
                                yield {"kind": "load", "setup": setup, "N": N, "mode": mode, "params": None,
                                       "gates": [[name, list(qs[:nt]), list(qs[nt:]), a]]}
        # zero rotations between other gates, every mode
        for mode in MODES:
            for seq in itertools.product([["RX", [0], [], 1.0], ["RX", [0], [], 0.0], ["RZ", [0], [], 2.0], ["RZ", [0], [], 0.0]], repeat=3):
                yield {"kind": "load", "setup": "linear", "N": 1, "mode": mode, "params": None, "gates": [list(g) for g in seq]}

    def _systematic_histories(self, three=False):
        bell = [["SNOT", [0], [], None], ["CNOT", [1], [0], None]]
        other = [["RX", [1], [], 1.0], ["ISWAP", [0, 1], [], None]]
        for setup in (() if three else ("linear", "circular")):
            for mode in MODES:
                st = lambda gs, **kw: dict({"mode": mode, "gates": gs}, **kw)
                yield {"kind": "history", "setup": setup, "N": 2, "params": None, "compiler": "fresh",
                       "steps": [st(bell), st(bell), st(bell)]}
                yield {"kind": "history", "setup": setup, "N": 2, "params": None, "compiler": "fresh",
                       "steps": [st(bell), st(other), st(bell), st([]), st(bell)]}
                yield {"kind": "history", "setup": setup, "N": 2, "params": None, "compiler": "shared",
                       "steps": [st(bell), st(bell), st(other), st(bell)]}
            yield {"kind": "history", "setup": setup, "N": 2, "params": None, "compiler": "fresh",
                   "steps": [{"mode": "ASAP", "gates": bell, "via": "run_state"}, {"mode": "ASAP", "gates": bell, "via": "run_state"}]}
            yield {"kind": "history", "setup": setup, "N": 2, "params": None, "compiler": "fresh",
                   "steps": [{"mode": m, "gates": bell} for m in ("ASAP", "ALAP", None, "ASAP")]}
            # a REFUSED load (one qubit too many, a measurement, a gate without decomposition) after a successful one: the
            # processor must still hold the circuit loaded last - pulses, reported phase, propagator
            A = [["X", [0], [], None], ["CNOT", [1], [0], None], ["RY", [1], [], -0.4]]
            for mode in MODES:
                for ck in (("fresh", "shared") if mode == "ASAP" else ("fresh",)):
                    for rf in ({"refuse": "too_large", "gates": bell}, {"refuse": "measure", "gates": A},
                               {"gates": [["RX", [0], [], 0.3], ["BERKELEY", [0, 1], [], None]]},
                               {"gates": [["CZ", [1], [0], None]]}):
                        yield {"kind": "history", "setup": setup, "N": 2, "params": None, "compiler": ck,
                               "steps": [{"mode": mode, "gates": A}, dict({"mode": mode}, **rf), dict({"mode": "ASAP"}, **rf),
                                         {"mode": mode, "gates": bell}]}
            yield {"kind": "history", "setup": setup, "N": 2, "params": None, "compiler": "fresh",
                   "steps": [{"mode": "ASAP", "gates": bell, "refuse": "too_large"}, {"mode": "ASAP", "gates": A}]}
        for name in ACCEPTED:
            nc, nt, par = SHAPE[name]
            N = max(1, nc + nt)
            if (nc + nt > 2) != three:
                continue
            g = [name, list(range(nt)), list(range(nt, nt + nc)), (0.7 if par else None)]
            for ck in ("fresh", "shared"):
                yield {"kind": "history", "setup": "linear", "N": N, "params": None, "compiler": ck,
                       "steps": [{"mode": "ASAP", "gates": [g]}, {"mode": "ASAP", "gates": [g]}]}

    def _rand_history_witness(self, rng):
        """2-5 loads on one processor from a pool of 1-3 random circuits"""
        three = rng.random() < 0.2
        base = self._rand_witness(rng, three=three, zero=False)
        base.pop("form", None), base.pop("cont", None)
        pool = [base["gates"]]
        for _ in range(rng.randint(0, 2)):
            w2 = None
            while w2 is None or w2["N"] > base["N"]:
                w2 = self._rand_witness(rng, three=three, zero=False)
            pool.append(w2["gates"] if rng.random() < 0.85 else [])
        ck = "shared" if rng.random() < 0.25 else "fresh"
        modes = [rng.choice(MODES) for _ in range(rng.randint(1, 2))]
        steps = []
        for _ in range(rng.randint(2, 5)):
            if ck == "fresh" and rng.random() < 0.15:
                steps.append({"mode": "ASAP", "gates": rng.choice(pool), "via": "run_state"})
            else:
                steps.append({"mode": rng.choice(modes), "gates": rng.choice(pool)})
        if rng.random() < 0.3:
            k = rng.randrange(1, len(steps) + 1)
            if rng.random() < 0.6 or base["N"] < 2:
                rf = {"mode": rng.choice(MODES), "gates": rng.choice(pool), "refuse": rng.choice(REFUSALS)}
            else:
                rname = rng.choice(["BERKELEY", "CZ", "SQRTSWAP", "CY"])
                nc, nt, par = SHAPE_REFUSED[rname]
                qs = rng.sample(range(base["N"]), 2)
                rf = {"mode": rng.choice(MODES), "gates": [list(g) for g in rng.choice(pool)] + [[rname, qs[:nt], qs[nt:], None]]}
            steps.insert(k, rf)
        w = {"kind": "history", "setup": base["setup"], "N": base["N"], "params": base["params"], "compiler": ck, "steps": steps}
        if rng.random() < 0.3:
            w["form"] = rng.choice(FORMS)
        return w

    def _rand_witness(self, rng, three=True, zero=True):
        setup = rng.choice(["linear", "circular"])
        N = rng.randint(2 if setup == "circular" else 1, 5)
        names = [n for n in ACCEPTED if three or SHAPE[n][0] + SHAPE[n][1] <= 2]
        if zero and rng.random() < 0.12:            # any name of the library (refusal or a correct load)
            names = names + [n for n in XSHAPE if n not in SHAPE]
        gs = []
        for _ in range(rng.randint(1, 7)):
            n = rng.choice(names)
            nc, nt, par = XSHAPE[n]
            if nc + nt > N:
                continue
            qs = rng.sample(range(N), nc + nt)
            a = None
            if par:
                ch = [rng.uniform(-7, 7), rng.uniform(-14, 14), rng.choice([-1, 1]) * rng.uniform(2 * math.pi, 4 * math.pi),
                      -math.pi, 2 * math.pi, -2 * math.pi, 4 * math.pi, -4 * math.pi, 9.5, math.pi / 2, -3 * math.pi / 4, 1e-3,
                      1e-6, rng.choice([1e-9, -5e-10, 3e-9, 1e-12])]
                if zero:
                    ch += [0.0, 0.0]
                a = XARGS.get(n) or rng.choice(ch)
            gs.append([n, qs[:nt], qs[nt:], a])
        params = None
        if rng.random() < 0.7:
            params = {"sx": [rng.choice([0.25, 0.5, 1.0, 0.3, 2.0]) for _ in range(N)],
                      "sz": [rng.choice([0.25, 0.5, 1.0, 0.7, 3.0]) for _ in range(N)],
                      "sxsy": [rng.choice([0.1, 0.125, 0.5, 1.0]) for _ in range(n_coupling(setup, N))]}
        w = {"kind": "load", "setup": setup, "N": N, "mode": rng.choice(MODES), "params": params, "gates": gs}
        if rng.random() < 0.3:
            w["form"] = rng.choice(FORMS)
            if rng.random() < 0.4:
                w["cont"] = rng.choice(CONTS)
        return w

    def oracle_search(self, ctx, budget_s):
        """failing inputs of the property; the classes that fail on the unchanged tree as recorded known findings (and are
        excluded by the theorems' hypotheses) cannot explain a new break and are skipped"""
        t0 = time.time()
        for w in self._systematic():
            if self._excluded(w):
                continue
            f, d = check_property(w)
            if f:
                yield w, d
            if time.time() - t0 > budget_s:
                return
        i = 0
        while time.time() - t0 < budget_s:
            i += 1
            w = (self._rand_history_witness(ctx.rng) if i % 4 == 0 else
                 self._rand_live_witness(ctx.rng) if i % 4 == 2 else self._rand_witness(ctx.rng))
            if (w["kind"] == "load" and not w["gates"]) or self._excluded(w):
                continue
            f, d = check_property(w)
            if f:
                yield w, d

    def oracle_always(self, ctx):
        """cheap sweep; inputs of the classes excluded by the theorems' hypotheses (known findings) are skipped"""
        for w in self._systematic_core():
            if self._excluded(w):
                continue
            f, d = check_property(w)
            if f:
                yield w, d
        k = 0
        for w in self._systematic_grid():
            k += 1
            if (k % (5 if ctx.thorough else 37)) != 0:
                continue
            if self._excluded(w):
                continue
            f, d = check_property(w)
            if f:
                yield w, d
        for i in range(1200 if ctx.thorough else 70):
            w = (self._rand_history_witness(ctx.rng) if i % 6 == 5 else
                 self._rand_live_witness(ctx.rng) if i % 6 == 2 else self._rand_witness(ctx.rng))
            if (w["kind"] == "load" and not w["gates"]) or self._excluded(w):
                continue
            f, d = check_property(w)
            if f:
                yield w, d


CHECK = C06()
