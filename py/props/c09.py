"""C09 — library gates: unitary, documented matrix, path-independent.

T: gate functions of operations/gates.py and the name->function tables of gateclass.py are
translated (ast) into lean/QipVerif/Gen/GateDefs.lean on every run; the theorems of
Props/C09.lean are about those generated definitions.
H: the translator is validated by evaluating a float rendering of the same syntax trees in the
Lean driver against the functions; the exact gate library `gateE` (Z[zeta16][1/2]) is compared
with the implementation over every name and every residue of the angle (finite, complete)."""
import itertools, math, random, struct, time
import numpy as np

from vlib.core import PropertyCheck
from translate import gates as tg
from translate import gatector as tgc
from props import c09_ctor as cc

PI = math.pi
ANGLES = [0.0, PI, -PI, 2 * PI, 1e-9, -1e-9, PI / 2, -PI / 2, PI / 4, 3 * PI / 4, 7.3, -9.1, 4 * PI, 100.0, 0.123456789]


def f2b(x):
    return struct.unpack("<Q", struct.pack("<d", float(x)))[0]


def b2f(n):
    return struct.unpack("<d", struct.pack("<Q", int(n)))[0]


def cyc_val(coords):
    return sum(c * np.exp(1j * PI / 8 * k) for k, c in enumerate(coords))


def parse_dmat(s):
    e, body = s.split("|")
    rows = [[cyc_val([int(v) for v in ent.split("_")]) for ent in r.split(",")] for r in body.split(";")]
    return np.array(rows, dtype=complex) / (2 ** int(e))


def call_fn(fn, a):
    """the implementation of a translated definition: a gate function of gates.py, or (`cls_<Class>`) the
    `get_compact_qobj` of a gate class that returns a literal matrix itself"""
    import importlib
    if fn.startswith("cls_"):
        gc = importlib.import_module("qutip_qip.operations.gateclass")
        cls = getattr(gc, fn[4:])
        return cls(targets=[0, 1], arg_value=(a[0] if len(a) == 1 else list(a))).get_compact_qobj()
    gm = importlib.import_module("qutip_qip.operations.gates")
    f = getattr(gm, fn)
    return f(a) if fn == "qasmu_gate" else f(*a)


def classify_ctrl_exc(e):
    """exceptions of controlled_gate -> the model's refusal kinds (anything else is reported verbatim = disagreement)"""
    msg = str(e)
    if isinstance(e, TypeError):
        if "has no len" in msg:
            return "lenOfInt"
        if "targets should be" in msg:
            return "nested"
    if isinstance(e, IndexError):
        return "blockIndex" if "assignment index" in msg else "index"
    if isinstance(e, ValueError):
        if "target qutbis" in msg or "target qubits" in msg:
            return "count"
        if "smaller than N" in msg:
            return "range"
        if "do not match" in msg:
            return "dims"
        if "invalid order" in msg:
            return "permute"
    return "other:" + type(e).__name__ + ":" + msg[:80]


def nparams(known, fn):
    return len(known[fn][1])


# documented matrices, written from the docstrings / standard definitions, independent of the code
def _rx(t): return np.array([[np.cos(t / 2), -1j * np.sin(t / 2)], [-1j * np.sin(t / 2), np.cos(t / 2)]])
def _ry(t): return np.array([[np.cos(t / 2), -np.sin(t / 2)], [np.sin(t / 2), np.cos(t / 2)]])
def _rz(t): return np.diag([np.exp(-1j * t / 2), np.exp(1j * t / 2)])
def _ctrl(u): return np.block([[np.eye(2), np.zeros((2, 2))], [np.zeros((2, 2)), u]])
_X = np.array([[0, 1], [1, 0]], dtype=complex); _Y = np.array([[0, -1j], [1j, 0]]); _Z = np.diag([1, -1]).astype(complex)
_SW = np.array([[1, 0, 0, 0], [0, 0, 1, 0], [0, 1, 0, 0], [0, 0, 0, 1]], dtype=complex)
def _perm8(p):
    m = np.zeros((8, 8), dtype=complex)
    for i, j in enumerate(p):
        m[i, j] = 1
    return m
from scipy.linalg import expm as _expm, sqrtm as _sqrtm
DOC = {
    "X": lambda a: _X, "Y": lambda a: _Y, "Z": lambda a: _Z,
    "RX": _rx, "RY": _ry, "RZ": _rz,
    "SNOT": lambda a: (_X + _Z) / np.sqrt(2), "H": lambda a: (_X + _Z) / np.sqrt(2),
    "SQRTNOT": lambda a: 0.5 * np.array([[1 + 1j, 1 - 1j], [1 - 1j, 1 + 1j]]),
    "S": lambda a: np.diag([1, 1j]), "T": lambda a: np.diag([1, np.exp(1j * PI / 4)]),
    "PHASEGATE": lambda t: np.diag([1, np.exp(1j * t)]),
    "CNOT": lambda a: _ctrl(_X), "CX": lambda a: _ctrl(_X), "CY": lambda a: _ctrl(_Y), "CZ": lambda a: _ctrl(_Z),
    "CSIGN": lambda a: _ctrl(_Z), "CS": lambda a: _ctrl(np.diag([1, 1j])), "CT": lambda a: _ctrl(np.diag([1, np.exp(1j * PI / 4)])),
    "CRX": lambda t: _ctrl(_rx(t)), "CRY": lambda t: _ctrl(_ry(t)), "CRZ": lambda t: _ctrl(_rz(t)),
    "CPHASE": lambda t: _ctrl(np.diag([1, np.exp(1j * t)])),
    "SWAP": lambda a: _SW,
    "ISWAP": lambda a: np.array([[1, 0, 0, 0], [0, 0, 1j, 0], [0, 1j, 0, 0], [0, 0, 0, 1]]),
    "SQRTSWAP": lambda a: np.array([[1, 0, 0, 0], [0, .5 + .5j, .5 - .5j, 0], [0, .5 - .5j, .5 + .5j, 0], [0, 0, 0, 1]]),
    "SQRTISWAP": lambda a: np.array([[1, 0, 0, 0], [0, 1 / np.sqrt(2), 1j / np.sqrt(2), 0], [0, 1j / np.sqrt(2), 1 / np.sqrt(2), 0], [0, 0, 0, 1]]),
    "SWAPalpha": lambda al: np.array([[1, 0, 0, 0], [0, .5 * (1 + np.exp(1j * PI * al)), .5 * (1 - np.exp(1j * PI * al)), 0],
                                      [0, .5 * (1 - np.exp(1j * PI * al)), .5 * (1 + np.exp(1j * PI * al)), 0], [0, 0, 0, 1]]),
    "BERKELEY": lambda a: _expm(1j * PI / 8 * (2 * np.kron(_X, _X) + np.kron(_Y, _Y))),
    "FREDKIN": lambda a: _perm8([0, 1, 2, 3, 4, 6, 5, 7]), "TOFFOLI": lambda a: _perm8([0, 1, 2, 3, 4, 5, 7, 6]),
    "IDLE": lambda a: np.eye(2),
    "QASMU": lambda a: _rz(a[1]) @ _ry(a[0]) @ _rz(a[2]),
    "R": lambda a: _expm(-1j * a[0] / 2 * (np.cos(a[1]) * _X + np.sin(a[1]) * _Y)),
    "MS": lambda a: _expm(-1j * a[0] / 2 * np.kron(np.cos(a[1]) * _X + np.sin(a[1]) * _Y, np.cos(a[1]) * _X + np.sin(a[1]) * _Y)),
    "RZX": lambda t: _expm(-1j * t / 2 * np.kron(_Z, _X)),
}
DOC["iSWAP"] = DOC["ISWAP"]          # aliases offered by GATE_CLASS_MAP only
DOC["SWAPALPHA"] = DOC["SWAPalpha"]
SHAPES = {**{n: (0, 1) for n in "X Y Z RX RY RZ SNOT H SQRTNOT S T PHASEGATE IDLE QASMU R".split()},
          **{n: (1, 1) for n in "CNOT CX CY CZ CSIGN CS CT CRX CRY CRZ CPHASE".split()},
          **{n: (0, 2) for n in "SWAP ISWAP iSWAP SQRTSWAP SQRTISWAP SWAPalpha SWAPALPHA BERKELEY MS RZX".split()},
          "FREDKIN": (1, 2), "TOFFOLI": (2, 1)}
NARGS = {**{n: 1 for n in "RX RY RZ PHASEGATE CRX CRY CRZ CPHASE SWAPalpha SWAPALPHA RZX".split()}, "QASMU": 3, "R": 2, "MS": 2}


def gate_args(name, rng, i):
    k = NARGS.get(name, 0)
    if k == 0:
        return None
    if k == 1:
        return ANGLES[i % len(ANGLES)] if i < len(ANGLES) else rng.uniform(-10, 10)
    return [ANGLES[(i + j * 3) % len(ANGLES)] if i < len(ANGLES) else rng.uniform(-10, 10) for j in range(k)]


def paths(name, arg):
    """Every path of the implementation that offers the gate -> {path: matrix}"""
    from qutip_qip.operations import Gate
    from qutip_qip.operations import gateclass
    from qutip_qip.circuit import QubitCircuit
    nc, nt = SHAPES[name]
    cs, ts = list(range(nc)), list(range(nc, nc + nt))
    out = {}
    try:
        g = Gate(name, targets=ts, controls=(cs or None), arg_value=arg)
        out["generic"] = g.get_compact_qobj().full()
    except NotImplementedError:
        pass
    cls = gateclass.GATE_CLASS_MAP.get(name)
    if cls is not None:
        kw = {} if arg is None else {"arg_value": arg}
        try:
            obj = cls(controls=cs, targets=ts, **kw) if nc and name not in ("TOFFOLI", "FREDKIN") else cls(targets=(cs + ts), **kw)
            out["class"] = obj.get_compact_qobj().full()
        except TypeError:
            obj = cls(targets=ts, **kw)
            out["class"] = obj.get_compact_qobj().full()
    try:
        qc = QubitCircuit(nc + nt)
        qc.add_gate(name, targets=ts, controls=(cs or None), arg_value=arg)
        out["circuit"] = qc.compute_unitary().full()
    except (NotImplementedError, ValueError, KeyError):
        pass
    return out


class C09(PropertyCheck):
    id = "C09"
    lean_modules = ["QipVerif.Props.C09"]
    drivers = ["drv_gates"]
    theorems = [
        "QipVerif.C09.rx_unitary", "QipVerif.C09.ry_unitary", "QipVerif.C09.rz_unitary",
        "QipVerif.C09.phasegate_unitary", "QipVerif.C09.rx_doc", "QipVerif.C09.ry_doc", "QipVerif.C09.rz_doc",
        "QipVerif.C09.qasmu_def", "QipVerif.C09.qasmu_unitary", "QipVerif.C09.snot_unitary",
        "QipVerif.C09.sqrtnot_sq", "QipVerif.C09.fixed_gates_unitary", "QipVerif.C09.sqrt_relations",
        "QipVerif.C09.controlled_fixed_block", "QipVerif.C09.ctrl_apply",
        # documented forms for all parameters (closed form, matrix exponential, docstring matrix)
        "QipVerif.C09.rotOf_is_exp", "QipVerif.C09.rx_exp", "QipVerif.C09.ry_exp", "QipVerif.C09.rz_exp",
        "QipVerif.C09.qrot_doc", "QipVerif.C09.qrot_exp", "QipVerif.C09.qrot_unitary",
        "QipVerif.C09.ms_doc", "QipVerif.C09.ms_exp", "QipVerif.C09.ms_doc_matrix", "QipVerif.C09.ms_unitary",
        "QipVerif.C09.rzx_doc", "QipVerif.C09.rzx_exp", "QipVerif.C09.rzx_doc_matrix", "QipVerif.C09.rzx_unitary",
        "QipVerif.C09.berkeley_doc", "QipVerif.C09.berkeley_exp", "QipVerif.C09.berkeley_unitary",
        "QipVerif.C09.swapalpha_doc", "QipVerif.C09.swapalpha_mix", "QipVerif.C09.swapalpha_unitary",
        "QipVerif.C09.swapalpha_mul", "QipVerif.C09.swapalpha_special",
        "QipVerif.C09.sqrtswap_sq", "QipVerif.C09.sqrtiswap_sq", "QipVerif.C09.iswap_doc", "QipVerif.C09.iswap_doc_matrix",
        "QipVerif.C09.cphase_eq_ctrl", "QipVerif.C09.cphase_doc_matrix",
        # unitarity of every generated gate over C
        "QipVerif.C09.ctrl_unitary", "QipVerif.C09.parametric_gates_unitary", "QipVerif.C09.fixed_gates_unitary_C",
        # controlled_gate in general
        "QipVerif.C09.controlled_apply", "QipVerif.C09.controlled_unitary", "QipVerif.C09.controlled_mul",
        "QipVerif.C09.ctrl_is_ctrlN", "QipVerif.C09.controlled_gate_spec", "QipVerif.C09.controlled_gate_model",
        "QipVerif.C09.controlled_gate_unitary", "QipVerif.C09.controlled_gate_shapes",
        "QipVerif.C09.controlled_gate_mixed_shapes", "QipVerif.C09.controlled_gate_mixed_shapes_witness",
        # names offered by the lookup paths
        "QipVerif.C09.path_names", "QipVerif.C09.path_refusals", "QipVerif.C09.class_only_gates",
        "QipVerif.C09.circuit_dispatch", "QipVerif.C09.circuit_generic_only",
        # exact library = translated source
        "QipVerif.C09.exact_library_is_source", "QipVerif.C09.circuit_semantics_is_source",
        "QipVerif.GateExact.compactC_fixed_is_source",
        # constructor arguments of the gate classes
        "QipVerif.C09.hard_values_sound", "QipVerif.C09.ctor_table_sound", "QipVerif.C09.ctor_hardcoded_refuses",
        "QipVerif.C09.ctor_controlled_anatomy", "QipVerif.C09.ctor_chain_hands_on", "QipVerif.C09.ctor_request_honoured",
        "QipVerif.C09.ctor_plain_table", "QipVerif.C09.ctor_plain_anatomy", "QipVerif.C09.ctor_fixed_table",
        "QipVerif.C09.ctor_fixed_refuses", "QipVerif.C09.circuit_path_history_independent",
        "QipVerif.C09.ctor_controlled_expanded", "QipVerif.C09.fresh_circuit_resolves_library",
        "QipVerif.C09.ctor_circuit_agrees", "QipVerif.C09.ctor_controlled_matrix", "QipVerif.C09.ctor_controlled_value_refused",
    ]
    base_theorems = list(theorems)
    technique = ("Lean 4: gate functions, the cphase construction and literal class matrices translated from the source into "
                 "matrices over C; documented form (closed form, docstring matrix, matrix exponential from the power series) and "
                 "unitarity proved for all parameters; fixed gates decided in Z[zeta16][1/2] by the kernel AND proved equal to the "
                 "translated source; controlled_gate: executable model of block_diag + expand_operator composed with C08, proved "
                 "equal to the block specification for every number of controls / value / placement; one path-agreement theorem per "
                 "shared name and the name sets of the lookup paths decided on the regenerated tables; constructor arguments: the "
                 "__init__ chain of every gate class (guards, control_value policy, which parameters are handed on, whether "
                 "get_compact_qobj reads control_value) regenerated into a table, executable model of a keyword request, theorems "
                 "for all requests + table conditions decided by the kernel")
    level_text = ("For the gate functions translated from the current source: unitarity of EVERY generated gate and the documented "
                  "matrix for ALL parameter values as Lean theorems (RX/RY/RZ/R/MS/RZX as exp(-i theta/2 A), BERKELEY as "
                  "exp(i pi/8 (2XX+YY)), SWAPalpha, iSWAP, CPHASE, QASMU, the square-root relations); the exact library equals the "
                  "translated source for every fixed gate; controlled_gate yields the block matrix (U on the target iff the controls "
                  "hold the value, identity elsewhere) for every number of controls, control value, single-qubit U and injective "
                  "placement, unitary when U is; the generic-name path, the class path and the circuit dispatch resolve to the same "
                  "matrix for every shared name (one generated theorem per name) and the name sets / refusals of the paths are "
                  "decided on the regenerated tables. Constructor arguments (targets/controls as integer or list, arity, arg_value "
                  "shape, control_value) of every key of GATE_CLASS_MAP, of ControlledGate with every single-qubit target class and "
                  "of Gate(name): for ALL requests, a class of the ControlledGate hierarchy whose get_compact_qobj ignores "
                  "control_value only yields objects carrying its hard-coded value on one control (ctor_hardcoded_refuses, over the "
                  "regenerated table); a class that reads it yields ctrlN m v U for the carried value v on the m listed controls, "
                  "first listed most significant (ctor_controlled_matrix), refuses values outside the blocks; the carried value is "
                  "the requested one for every class of the table (ctor_request_honoured); the fixed-matrix classes outside the "
                  "hierarchy (TOFFOLI, FREDKIN, generic Gate of a controlled name) serve a request only with no control value or "
                  "'all listed controls 1' (ctor_fixed_refuses); circuit path = class path (ctor_circuit_agrees) and, by the regenerated "
                  "rule of QubitCircuit._get_gate_unitary (own get_compact_qobj, no circuit state written), independent of the other "
                  "gates a circuit holds (circuit_path_history_independent; 2.7k circuits of several gate objects per run); the object "
                  "expanded on a register (get_qobj, propagators(expand=True): regenerated rule expand_operator(compact, dims, "
                  "controls + targets)) is Tg.embed (ctrlN m v U) on the controls in LISTED order, first listed most significant — "
                  "the operator controlled_gate returns (ctor_controlled_expanded; 4.3k placements x values vs the model and 7k "
                  "requests vs an independent listed-order semantics per run, through get_qobj, propagators, compute_unitary, by "
                  "name and the function); a FRESH circuit (QubitCircuit(N) without user_gates: regenerated rule new-dict-per-circuit — "
                  "immutable parameter defaults, containers created per object, the only store into user_gates outside __init__ is "
                  "the inheritance loop of add_circuit) resolves every library name to the library matrix after ANY history of "
                  "constructions, item assignments and add_circuit calls on other circuit objects in the process "
                  "(fresh_circuit_resolves_library over the heap model CircHeap; 176 cross-object histories per run vs the model "
                  "and vs an independent bookkeeping oracle, gate objects of one class independent). These hold for "
                  "the source after the fixes C09-2 (CPHASE dropped control_value) and C09-3 (TOFFOLI/FREDKIN/generic Gate ignored "
                  "it), found here and applied. "
                  "Tie: float rendering of the same syntax trees vs the functions on a 15-angle "
                  "grid incl. boundaries; exact library vs implementation for every name and all 32 angle residues (complete); "
                  "controlled_gate model vs implementation for every placement of <= 3 controls on <= 4 qubits and every control "
                  "value incl. refused ones (complete) plus argument shapes; constructor model vs implementation on the complete "
                  "grid of 7 x 7 argument shapes x all control values x arg_value shapes for every class and path (48k requests: "
                  "refusal kind, carried attributes, matrix).")
    level_note = ("Trusted: Lean kernel; py/translate/gates.py and py/translate/gatector.py (structural ast mapping, validated "
                  "against behaviour each run; an unrecognised statement in an __init__ is a TranslatorError); qutip's "
                  "sigmax/sigmay/sigmaz/qeye/identity/fock_dm constants, tensor = Kronecker product (first factor most significant), "
                  "block_diag and Qobj dims as modelled in Model/Ctrl.lean (compared with the implementation exhaustively), "
                  "Qobj.tidyup() of the CPHASE class path taken as the identity; globalphase/rotation are not modelled. cphase is "
                  "translated on its default arguments (N=2, control=0, target=1), the only call both paths make. Constructor model: "
                  "integer qubit labels only (no range / duplicate check exists in any constructor, modelled as such), arg_value by "
                  "shape with non-integral entries, controls=None for ControlledGate used directly and multi-qubit target gates are "
                  "outside the model; Python's missing-argument TypeError is modelled as one refusal kind. The correspondence of the "
                  "hard-coded matrix functions to GateCtor.hardOf is by name (hard_values_sound proves the matrices). No arity "
                  "guard exists in TOFFOLI / FREDKIN / the generic Gate (TOFFOLI(targets=[0, 1]) is accepted and fails only in "
                  "get_qobj): modelled as is, not part of the oracle.")
    trusted_base = ["Lean 4.33 kernel; axioms propext, Classical.choice, Quot.sound",
                    "py/translate/gates.py (ast -> Lean), validated by drv_gates float evaluation against the functions",
                    "py/translate/gatector.py (ast of the class bodies -> Gen/GateCtor.lean), validated by the constructor "
                    "correspondence on the complete grid of argument shapes",
                    "Model/Ctrl.lean as a description of block_diag / Qobj dims / expand_operator, validated exhaustively against "
                    "controlled_gate (all placements of <= 3 controls on <= 4 qubits, all control values, shapes)",
                    "Model/GateCtor.lean as a description of Python's call protocol along the MRO (required parameters, **kwargs "
                    "forwarding, super() order), validated against the implementation on every class x path x argument shape",
                    "py/props/c09.py, py/props/c09_ctor.py documented matrices (oracle) and harness"]
    rule = ("case = (gate function or gate name, parameter tuple from a grid with boundary values + seeded random, path) or "
            "(controlled_gate request: controls, targets, N, control value) or (circuit of several gate objects/names) or "
            "(constructor request: class key, path, shape of "
            "targets, shape of controls, shape of arg_value, control value); non-trivial = parametric gate, multi-qubit gate, "
            "any controlled_gate request, any constructor request")

    def regenerate(self, ctx):
        changed, known, chain, classes, class_map = tg.regenerate()
        self.known, self.chain, self.classes, self.class_map = known, chain, classes, class_map
        self.theorems = list(self.base_theorems) + list(tg.regenerate.path_theorems)
        self.path_skipped = tg.regenerate.path_skipped
        self.extra = tg.regenerate.extra
        _, self.ctor = tgc.regenerate((chain, classes, class_map))
        return ["GateDefs.lean", "GateDefsF.lean", "GateExtra.lean", "GatePaths.lean", "GateCtor.lean"]

    def finding_matches(self, witness, finding):
        fw = finding.get("witness") or {}
        if witness.get("kind") == "seq" and fw.get("kind") == "seq":
            return witness.get("container") in ("tuple", "array", "range") and fw.get("container") in ("tuple", "array", "range")
        return super().finding_matches(witness, finding)

    def _ctor(self):
        d = getattr(self, "ctor", None)
        if d is None:
            d = self.ctor = tgc.extract()
            for e in d["entries"]:
                e["argSpec"] = tgc.arg_spec(e["spec"])
            self.class_map = tg.name_chain()[2]
        return d

    # ---------------------------------------------------------------------------------
    def correspondence(self, ctx, res):
        import importlib
        gm = importlib.import_module("qutip_qip.operations.gates")
        rng = ctx.rng
        drv = ctx.driver("drv_gates")
        known = getattr(self, "known", None) or tg.regenerate()[1]
        # (a) translator validation: generated float rendering vs the functions
        cases = []
        for fn, (d, ps) in known.items():
            k = len(ps)
            grid = [[]] if k == 0 else [[ANGLES[(i + 4 * j) % len(ANGLES)] for j in range(k)] for i in range(len(ANGLES))] + \
                [[rng.uniform(-10, 10) for _ in range(k)] for _ in range(20 if not ctx.thorough else 200)]
            for a in grid:
                cases.append((fn, a))
        outs = drv.run([f"gatef fn={fn} args={','.join(str(f2b(x)) for x in a)}" for fn, a in cases])
        for (fn, a), o in zip(cases, outs):
            try:
                impl = call_fn(fn, a).full()
            except Exception as e:
                impl = "exc:" + type(e).__name__
            inp = {"function": fn, "args": a}
            res.case(inp, nontrivial=bool(a) or fn not in ("x_gate", "y_gate", "z_gate"), tags=["translator", f"fn={fn}"])
            if not o.startswith("ok") or isinstance(impl, str):
                res.disagree(inp, o[:60], str(impl)[:60], "generated gate function vs implementation", {"kind": "fn", "fn": fn, "args": a})
                continue
            M = np.array([[complex(b2f(c.split(":")[0]), b2f(c.split(":")[1])) for c in r.split(",")] for r in o[3:].split(";")])
            if M.shape != impl.shape or np.abs(M - impl).max() > 1e-13:
                res.disagree(inp, M.tolist(), impl.tolist(), "generated gate function vs implementation",
                             {"kind": "fn", "fn": fn, "args": a})
        # (b) exact library vs every path of the implementation: all names, all residues (complete)
        names = ["RX", "RY", "RZ", "PHASEGATE", "CRX", "CRY", "CRZ", "CPHASE", "X", "Y", "Z", "S", "T", "SNOT", "SQRTNOT",
                 "IDLE", "CNOT", "CSIGN", "CZ", "CY", "CS", "CT", "SWAP", "ISWAP", "SQRTSWAP", "SQRTISWAP", "BERKELEY",
                 "FREDKIN", "TOFFOLI"]
        cases = []
        for n in names:
            for n8 in (range(-32, 34, 2) if n in NARGS else [0]):
                cases.append((n, n8))
        outs = drv.run([f"gate name={n} n8={n8}" for n, n8 in cases])
        for (n, n8), o in zip(cases, outs):
            arg = n8 * PI / 8 if n in NARGS else None
            inp = {"gate": n, "n8": n8}
            res.case(inp, nontrivial=True, tags=["exact-library", f"gate={n}"])
            if not o.startswith("ok"):
                res.disagree(inp, o, "ok", "exact library refuses a library gate", {"kind": "gate", "name": n, "arg": arg})
                continue
            M = parse_dmat(o.split(" ", 2)[2])
            ps = paths(n, arg)
            if not ps:
                res.disagree(inp, "matrix", "no path offers the gate", "paths", {"kind": "gate", "name": n, "arg": arg})
            for pth, U in ps.items():
                if U.shape != M.shape or np.abs(U - M).max() > 1e-12:
                    res.disagree(dict(inp, path=pth), np.round(M, 6).tolist(), np.round(U, 6).tolist(),
                                 "exact gate library vs implementation", {"kind": "gate", "name": n, "arg": arg})
        res.exhaustive = True
        res.notes.append("exact library: every name x every residue of the angle (period 32 in units of pi/8 for even n8) x every path "
                         "— complete; translator: 15-angle boundary grid + seeded random arguments per function")
        # (c) the extracted name->function tables describe the behaviour of the two paths
        ns = {k: getattr(gm, k) for k in dir(gm)}
        from qutip_qip.operations import Gate
        for name, spec in self.chain.items():
            if spec == "raise" or name not in SHAPES:
                continue
            for i in range(3):
                arg = gate_args(name, rng, i)
                inp = {"name": name, "spec": spec, "arg": arg}
                res.case(inp, nontrivial=arg is not None, tags=["path-table"])
                try:
                    want = eval(spec.replace("*arg", "*ARG").replace("arg", "ARG"), dict(ns), {"ARG": arg}).full()
                    nc, nt = SHAPES[name]
                    got = Gate(name, targets=list(range(nc, nc + nt)), controls=(list(range(nc)) or None), arg_value=arg).get_compact_qobj().full()
                    ok = want.shape == got.shape and np.abs(want - got).max() < 1e-14
                except Exception as e:
                    ok, want, got = False, "exc", repr(e)
                if not ok:
                    res.disagree(inp, str(want)[:200], str(got)[:200], "extracted call specification vs Gate.get_compact_qobj",
                                 {"kind": "gate", "name": name, "arg": arg})

        # (c') the class table: keys = the runtime GATE_CLASS_MAP, class specification = behaviour of the class path;
        #      names outside the generic chain are refused by Gate(name).get_compact_qobj()
        import qutip
        from qutip_qip.operations import gateclass
        ns2 = dict(ns, sigmax=qutip.sigmax, sigmay=qutip.sigmay, sigmaz=qutip.sigmaz)
        for k in getattr(self, "extra", {}):
            if k.startswith("cls_"):
                ns2[k] = (lambda kk: (lambda *a: call_fn(kk, list(a[0]) if len(a) == 1 and isinstance(a[0], (list, tuple)) else list(a))))(k)
        inp = {"table": "GATE_CLASS_MAP keys"}
        res.case(inp, nontrivial=True, tags=["path-table"])
        if list(self.class_map) != list(gateclass.GATE_CLASS_MAP):
            res.disagree(inp, list(self.class_map), list(gateclass.GATE_CLASS_MAP), "extracted keys of GATE_CLASS_MAP", None)
        for name, cls in self.class_map.items():
            spec = self.classes.get(cls, "?")
            for i in range(3):
                arg = gate_args(name, rng, i) if name in SHAPES else None
                inp = {"name": name, "class-spec": spec, "arg": arg}
                res.case(inp, nontrivial=arg is not None, tags=["path-table", "class"])
                try:
                    want = eval(spec.replace("*arg", "*ARG").replace("arg", "ARG"), dict(ns2), {"ARG": arg}).full()
                    got = paths(name, arg)["class"]
                    ok = want.shape == got.shape and np.abs(want - got).max() < 1e-12      # CPHASE class path applies tidyup()
                except Exception as e:
                    ok, want, got = False, "exc", repr(e)
                if not ok:
                    res.disagree(inp, str(want)[:200], str(got)[:200], "extracted call specification vs the gate class",
                                 {"kind": "gate", "name": name, "arg": arg} if name in DOC else None)
        for name in [n for n in self.class_map if n not in self.chain] + ["GLOBALPHASE", "NOSUCHGATE"]:
            inp = {"name": name, "generic": "refused"}
            res.case(inp, nontrivial=False, tags=["path-table", "refusal"])
            try:
                Gate(name, targets=[0]).get_compact_qobj()
                got = "accepted"
            except NotImplementedError:
                got = "refused"
            except Exception as e:
                got = "exc:" + type(e).__name__
            if got != "refused":
                res.disagree(inp, "refused", got, "a name outside the extracted generic chain", None)

        # (d) model of controlled_gate (Model/Ctrl.lean) vs the implementation: every number of controls <= 3, every
        #     placement on <= 4 qubits, every control value incl. the refused ones, N given / defaulted; argument shapes
        self._corr_ctrl(ctx, res, drv)

        # (e) model of the constructor chains of the gate classes (Model/GateCtor.lean over the regenerated Gen/GateCtor.lean)
        #     vs the implementation: refusal kind, what the object carries, matrix of get_compact_qobj
        try:
            entries = self._ctor()["entries"]
        except tgc.TranslatorError as e:
            # already reported as a broken obligation by regenerate(); the oracle sweep does not need the table
            res.notes.append(f"constructor correspondence not run: the class bodies are no longer recognised ({e})")
        else:
            cc.correspondence(ctx, res, drv, entries, self.class_map)

        # (f) circuits holding several gate objects: the regenerated rule `_get_gate_unitary(gate) = gate.get_compact_qobj()`
        #     — the matrix reported through the circuit is the gate's own, whatever else the circuit holds
        cc.correspondence_multi(ctx, res)

        # (g) controlled objects AFTER expansion on a register: model GateCtor.expanded (rule Gen.G.gateGetQobj) vs
        #     get_qobj(dims=[2]*N), every ordered placement of 1..3 controls + target on 3 and 4 qubits x every value
        cc.correspondence_expand(ctx, res, drv)

        # (h) cross-OBJECT histories in one process: model CircHeap (circuit objects and the dictionary objects they hold; rule
        #     Gen.G.circuitDefaultUserGates) vs implementation — which matrix every circuit of the history reports for a name
        cc.correspondence_hist(ctx, res, drv)

    def _corr_ctrl(self, ctx, res, drv):
        import qutip
        from qutip_qip.operations import controlled_gate
        rng = ctx.rng
        U = qutip.rand_unitary(2, seed=rng.randrange(10 ** 6)).full()
        while min(abs(U.ravel())) < 0.05 or min(abs(U.ravel() - 1)) < 0.05:      # entries distinguishable from 0 and 1
            U = qutip.rand_unitary(2, seed=rng.randrange(10 ** 6)).full()
        UQ = qutip.Qobj(U)
        val = {"z": 0, "o": 1, "a": U[0, 0], "b": U[0, 1], "c": U[1, 0], "d": U[1, 1]}
        cases = []
        for N in range(1, 5):
            for m in range(0, 4):
                if m + 1 > N:
                    continue
                for qs in itertools.permutations(range(N), m + 1):
                    for v in range(-2 ** m - 1, 2 ** m + 2):
                        for n in (N, None):
                            cases.append((list(qs[:m]), [qs[m]], n, v, "placement"))
        shapes = [(0, 1, None, 1), (1, 0, None, 1), (1, 0, None, 0), (2, 0, 3, 1), (0, [1], None, 1), ([0], 1, None, 1),
                  ([0, 1], 2, 3, 1), ([0, 1], 2, None, 3), ([0], 1, None, 5), (0, [1], 4, 0), (0, 0, None, 1),
                  ([0], [0], None, 1), ([0], [3], None, 1), ([0, 0], [3], 4, 1), ([], [0], None, 1), ([], [0], None, 0),
                  ([0], [1, 2], None, 1), ([0], [], 1, 1), ([0], [], None, 1), ([0, 1], [], 2, 3), ([-1], [0], 2, 1),
                  ([0], [-1], 2, 1), ([0], [1], 1, 1), ([0], [1], 0, 1), ([3], [1], 3, 1), ([2, 0], [1], 5, 2)]
        for _ in range(40 if not ctx.thorough else 400):
            m = rng.randint(0, 3)
            N = rng.randint(1, 5)
            cs = [rng.randint(-1, N) for _ in range(m)]
            ts = [rng.randint(-1, N) for _ in range(rng.choice([1, 1, 1, 0, 2]))]
            shapes.append((cs if rng.random() < 0.8 or m != 1 else cs[0], ts if rng.random() < 0.8 or len(ts) != 1 else ts[0],
                           rng.choice([None, N]), rng.randint(-2 ** m - 1, 2 ** m + 1)))
        cases += [(c, t, n, v, "shape") for c, t, n, v in shapes]

        def fmt(a):
            return "s:%d" % a if isinstance(a, int) else "l:" + ",".join(map(str, a))

        outs = drv.run(["ctrl cs=%s ts=%s n=%s v=%d" % (fmt(c), fmt(t), "-" if n is None else n, v) for c, t, n, v, _ in cases])
        for (c, t, n, v, tag), o in zip(cases, outs):
            inp = {"controls": c, "targets": t, "N": n, "control_value": v}
            try:
                R = controlled_gate(UQ, controls=c, targets=t, N=n, control_value=v)
                impl = ("ok", len(R.dims[0]), R.full())
            except Exception as e:
                impl = ("err", classify_ctrl_exc(e))
            wellformed = (isinstance(c, list) and isinstance(t, list) and len(t) == 1 and len(set(c + t)) == len(c) + 1
                          and all(0 <= q < (n if n is not None else len(c) + 1) for q in c + t) and 0 <= v < 2 ** len(c))
            res.case(inp, nontrivial=True, tags=["controlled_gate-model", tag, "accepted" if o.startswith("ok") else o])
            if wellformed:
                wit = {"kind": "ctrl", "U_re": U.real.tolist(), "U_im": U.imag.tolist(), "controls": c, "targets": t,
                       "N": n if n is not None else len(c) + 1, "value": v}
            else:
                wit = {"kind": "ctrl-malformed", "input": inp}
            if o.startswith("err"):
                if impl[0] != "err" or impl[1] != o.split()[1]:
                    res.disagree(inp, o, impl[:2], "model of controlled_gate vs implementation (refusal)", wit)
            elif o.startswith("ok"):
                _, K, rows = o.split(" ")
                M = np.array([[val[ch] for ch in r] for r in rows.split(";")], dtype=complex)
                if impl[0] != "ok" or impl[1] != int(K) or M.shape != impl[2].shape or np.abs(M - impl[2]).max() > 1e-12:
                    res.disagree(inp, o[:200], "error " + str(impl[1]) if impl[0] == "err" else np.round(impl[2], 4).tolist(),
                                 "model of controlled_gate vs implementation (matrix)", wit)
            else:
                res.disagree(inp, o, impl[:2], "driver refused the request", wit)
        res.notes.append("controlled_gate model: every placement of <= 3 controls + target on <= 4 qubits x every control value in "
                         "[-2^m-1, 2^m+1] x N given/defaulted (complete), plus argument shapes and malformed placements")

    # ---------------------------------------------------------------------------------
    def oracle_replay(self, ctx, w):
        if w["kind"] == "fn":
            import importlib
            gm = importlib.import_module("qutip_qip.operations.gates")
            U = call_fn(w["fn"], w["args"]).full()
            d = np.abs(U.conj().T @ U - np.eye(U.shape[0])).max()
            if d > 1e-10:
                return True, f"{w['fn']}{tuple(w['args'])} is not unitary (|U*U-1| = {d:.3g})"
            fnmap = {"x_gate": "X", "y_gate": "Y", "z_gate": "Z", "cy_gate": "CY", "cz_gate": "CZ", "s_gate": "S", "cs_gate": "CS",
                     "t_gate": "T", "ct_gate": "CT", "rx": "RX", "ry": "RY", "rz": "RZ", "sqrtnot": "SQRTNOT", "snot": "SNOT",
                     "phasegate": "PHASEGATE", "qrot": "R", "qasmu_gate": "QASMU", "cnot": "CNOT", "csign": "CSIGN",
                     "berkeley": "BERKELEY", "swapalpha": "SWAPalpha", "swap": "SWAP", "iswap": "ISWAP", "sqrtswap": "SQRTSWAP",
                     "sqrtiswap": "SQRTISWAP", "molmer_sorensen": "MS", "fredkin": "FREDKIN", "toffoli": "TOFFOLI",
                     "cphase": "CPHASE", "cls_RZX": "RZX"}
            n = fnmap[w["fn"]]
            a = w["args"]
            D = DOC[n](a[0] if len(a) == 1 else (a if a else None))
            d = np.abs(U - D).max()
            if d > 1e-9:
                return True, f"{w['fn']}{tuple(a)} differs from the documented matrix by {d:.3g}"
            return False, "unitary and documented"
        if w["kind"] == "gate":
            n, arg = w["name"], w["arg"]
            ps = paths(n, arg)
            if not ps:
                return False, "no path offers the gate"
            D = DOC[n](arg)
            for pth, U in ps.items():
                if U.shape != D.shape or np.abs(U - D).max() > 1e-9:
                    return True, f"{n}({arg}) via path '{pth}' differs from the documented matrix"
                if np.abs(U.conj().T @ U - np.eye(len(U))).max() > 1e-10:
                    return True, f"{n}({arg}) via path '{pth}' is not unitary"
            return False, f"{len(ps)} path(s) agree with the documented unitary"
        if w["kind"] == "ctrl":
            from qutip_qip.operations import controlled_gate
            import qutip
            from props.c08 import spec_matrix
            U = np.array(w["U_re"]) + 1j * np.array(w["U_im"])
            cs, ts, N, v = w["controls"], w["targets"], w["N"], w["value"]
            try:
                R = controlled_gate(qutip.Qobj(U), controls=cs, targets=ts, N=N, control_value=v).full()
            except Exception as e:
                return True, f"controlled_gate(controls={cs}, targets={ts}, N={N}, control_value={v}) raises {type(e).__name__}: {e}"
            cs = [cs] if isinstance(cs, int) else list(cs)      # a bare integer means a one-element list
            ts = [ts] if isinstance(ts, int) else list(ts)
            nc = len(cs)
            blocks = np.eye(2 ** (nc + 1), dtype=complex)
            blocks[2 * v:2 * v + 2, 2 * v:2 * v + 2] = U
            exp = spec_matrix([2] * N, cs + ts, blocks)
            if R.shape != exp.shape:
                return True, f"controlled gate has shape {R.shape}, expected {exp.shape}"
            d = np.abs(R - exp).max()
            if d > 1e-12:
                return True, f"controlled gate differs from the block specification by {d:.3g}"
            d = np.abs(R.conj().T @ R - np.eye(len(R))).max()
            return bool(d > 1e-10), f"controlled gate of a unitary is not unitary (|R*R-1| = {d:.3g})" if d > 1e-10 else "block specification met"
        if w["kind"] == "ctor":
            return cc.oracle(w)
        if w["kind"] == "circ":
            return cc.oracle_multi(w)
        if w["kind"] == "expand":
            return cc.oracle_expand(w)
        if w["kind"] == "hist":
            return cc.oracle_hist(w)
        if w["kind"] == "fresh":
            return cc.oracle_fresh_gate(w)
        if w["kind"] == "seq":
            return cc.oracle_seq(w)
        if w["kind"] == "ctrl-malformed":
            return False, "malformed request to controlled_gate (outside the property); only the refusal kind is compared"
        return False, "unknown witness"

    def _witnesses(self, ctx, n):
        rng = ctx.rng
        import qutip
        for i in range(n):
            r = rng.random()
            if r < 0.5:
                name = rng.choice(list(SHAPES))
                yield {"kind": "gate", "name": name, "arg": gate_args(name, rng, rng.randrange(40))}
            else:
                nc = rng.randint(1, 3)
                N = rng.randint(nc + 1, 4)
                qs = rng.sample(range(N), nc + 1)
                U = qutip.rand_unitary(2, seed=rng.randrange(10 ** 6)).full()
                yield {"kind": "ctrl", "U_re": U.real.tolist(), "U_im": U.imag.tolist(), "controls": qs[:nc], "targets": qs[nc:],
                       "N": N, "value": rng.randrange(2 ** nc)}

    def _ctor_sweep(self, rng_seed=0, thorough=False):
        """constructor requests: every class / path, well-formed placements, every control value (no request class is left
        out; the sweep does not depend on the translator or the model)"""
        for w in cc.hist_requests(random.Random(rng_seed), thorough):
            f, det = cc.oracle_hist(w)      # first: state leaking between circuit objects would poison every later stream
            if f:
                yield w, det
        for w in cc.sweep_requests():
            f, det = cc.oracle(w)
            if f:
                yield w, det
        for w in cc.multi_requests(random.Random(rng_seed), thorough):
            f, det = cc.oracle_multi(w)
            if f:
                yield w, det
        for w in cc.expand_requests(random.Random(rng_seed), thorough):
            f, det = cc.oracle_expand(w)
            if f:
                yield w, det
        for w in cc.fresh_gate_requests():
            f, det = cc.oracle_fresh_gate(w)
            if f:
                yield w, det
        # qubits in other containers than int / list: numpy integers always; tuple / ndarray / range only on a tree whose
        # Gate.__init__ turns every sequence into a list (regenerated flag Gen.G.gateInitQubits = "list-copy", fix C09-5) — on
        # the "as-given" source these requests are outside the constructor model (QArg: integer | list) and recorded as the
        # proposed finding class `sequence-qubits`
        try:
            variant = self._ctor().get("qubits", "list-copy")
        except Exception:
            variant = "list-copy"
        for w in cc.seq_requests(("npint",) if variant == "as-given" else ("tuple", "array", "npint", "range")):
            f, det = cc.oracle_seq(w)
            if f:
                yield w, det

    def oracle_always(self, ctx):
        yield from self._ctor_sweep(ctx.rng.randrange(10 ** 9), ctx.thorough)
        for w in self._witnesses(ctx, 300 if not ctx.thorough else 3000):
            f, d = self.oracle_replay(ctx, w)
            if f:
                yield w, d

    def oracle_search(self, ctx, budget_s):
        t0 = time.time()
        yield from self._ctor_sweep(ctx.rng.randrange(10 ** 9), ctx.thorough)
        for name in SHAPES:
            for i in range(len(ANGLES) if name in NARGS else 1):
                w = {"kind": "gate", "name": name, "arg": gate_args(name, ctx.rng, i)}
                f, d = self.oracle_replay(ctx, w)
                if f:
                    yield w, d
        while time.time() - t0 < budget_s:
            for w in self._witnesses(ctx, 50):
                f, d = self.oracle_replay(ctx, w)
                if f:
                    yield w, d


CHECK = C09()
