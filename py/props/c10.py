"""C10 — exported OpenQASM is valid OpenQASM 2.0 and round-trips to the same circuit.

Correspondence: the text emitted by lean/QipVerif/Model/QasmExport.lean (driver drv_qasm) is
compared CHARACTER BY CHARACTER with circuit_to_qasm_str / save_qasm / print_qasm.
Oracle (independent of the model): props/qasm_std.py (strict OpenQASM 2.0 front end written from
the paper, dense evaluation of the standard's semantics) + re-import with the library's reader."""
import ast, contextlib, io, itertools, json, math, os, tempfile, time, warnings
import numpy as np

from vlib import paths
from vlib.core import PropertyCheck
from props import qasm_tables, qasm_std

ONE_Q = ["X", "Y", "Z", "SNOT", "S", "T", "SQRTNOT"]
ONE_Q_PARAM = ["RX", "RY", "RZ"]
CTRL = ["CNOT", "CS", "CT"]
CTRL_PARAM = ["CRX", "CRY", "CRZ"]
EXPORTABLE = ONE_Q + ONE_Q_PARAM + ["QASMU"] + CTRL + CTRL_PARAM + ["SWAP", "TOFFOLI"]
NON_EXPORTABLE = ["ISWAP", "SQRTSWAP", "SQRTISWAP", "BERKELEY", "CZ", "CY", "CSIGN", "CPHASE", "FREDKIN",
                  "SWAPALPHA", "MS", "R", "GLOBALPHASE", "PHASEGATE", "RZX", "IDLE", "mygate"]
# (number of controls, number of targets, parameter shape) of the exportable gates
SHAPE = {**{g: (0, 1, None) for g in ONE_Q}, **{g: (0, 1, "s") for g in ONE_Q_PARAM}, "QASMU": (0, 1, "v3"),
         **{g: (1, 1, None) for g in CTRL}, **{g: (1, 1, "s") for g in CTRL_PARAM}, "SWAP": (0, 2, None),
         "TOFFOLI": (2, 1, None)}
NONEXP_SHAPE = {"ISWAP": (0, 2, None), "SQRTSWAP": (0, 2, None), "SQRTISWAP": (0, 2, None), "BERKELEY": (0, 2, None),
                "CZ": (1, 1, None), "CY": (1, 1, None), "CSIGN": (1, 1, None), "CPHASE": (1, 1, "s"),
                "FREDKIN": (1, 2, None), "SWAPALPHA": (0, 2, "s"), "MS": (0, 2, "v2"), "R": (0, 1, "v2"),
                "GLOBALPHASE": (0, 0, "s"), "PHASEGATE": (0, 1, "s"), "RZX": (0, 2, "s"), "IDLE": (0, 1, None),
                "mygate": (0, 1, None)}

# gates that have a QASM name only on a tree with fix C10-4 (`"CSIGN": "cz"`, `"CZ": "cz"`)
LATE_SHAPE = {"CSIGN": (1, 1, None), "CZ": (1, 1, None)}
# shapes tried for a gate name that is in none of the tables (every name of GATE_CLASS_MAP is exercised)
SHAPE_CANDIDATES = [(0, 1, None), (0, 1, "s"), (0, 1, "v2"), (0, 1, "v3"), (0, 2, None), (0, 2, "s"), (0, 2, "v2"),
                    (1, 1, None), (1, 1, "s"), (1, 2, None), (2, 1, None)]
# how controls / targets may be given: list of ints (the model's `List Nat`), tuple, numpy array, list of numpy
# integers, a bare int, a bare numpy integer
QUBIT_KINDS = ["list", "tuple", "ndarray", "nplist", "int", "npint"]

SPECIAL_SCALARS = [0, 0.0, -0.0, 1, -3, 0.5, -0.25, math.pi, -math.pi / 2, 1e-20, -1e-20, 5e-324, -5e-324, 1.5e-07,
                   -2.5e-300, 1e16, 1e20, -1e20, 1.2345e+30, -7.5e+250, 1e-05, 123456789.125]
# values Python prints with an exponent and WITHOUT a decimal point (`1e-20`): not a `real` of OpenQASM 2.0 unless
# `_qasm_str` prints them with `_qasm_real` (fix C10-3)
BARE_EXPONENT = [1e-20, -1e-20, 5e-324, 1e16, 1e20]
# parameter TEXTS (string-valued `arg_value`): `_qasm_real` is `str`, `partition("e")`, `lstrip("-")`, `isdigit` — the
# model's `padExp` has to agree on every text, not only on numbers
PARAM_TEXTS = ["1e5", "-1e5", "--1e5", "e5", "-e5", "-", "", "1e", "-1e", "12e+5e7", "1.e5", ".5e3", "1.5e3", "1E5", "abc",
               "theta", "1e-5e", "0e0", "-0e0", "00e1", "1 e5", "1e 5", "e", "ee", "1ee5", "3", "-3", "0.0", "pi/2", "1e-20",
               "-1e-20", "1.0e-20", "1-e5", "1-2e5", "-1-e5", "inf", "-inf", "nan"]


def _lib():
    from qutip_qip.circuit import QubitCircuit
    from qutip_qip.operations import Gate, Measurement
    from qutip_qip import qasm
    return QubitCircuit, Gate, Measurement, qasm


# ---- witness <-> objects -------------------------------------------------------------------------
def py_value(a):
    """JSON argument -> the Python object stored in the gate"""
    if a is None:
        return None
    if "s" in a:
        v = a["s"]
        if a.get("np") == "f32":
            return np.float32(v)
        return np.float64(v) if a.get("np") else v
    vals = a["v"]
    if a.get("np") == "f32" and a["k"] in ("list", "tuple"):
        vals = [np.float32(x) for x in vals]
    if a["k"] == "list":
        return list(vals)
    if a["k"] == "tuple":
        return tuple(vals)
    if a["k"] == "ndarray":
        return np.array(vals, dtype=float)
    raise ValueError(a)


def qubits_value(idx, kind):
    """the Python object given as `targets` / `controls`: `idx` (list of ints or None) in the container `kind`"""
    if idx is None or kind in (None, "list"):
        return idx
    if kind == "tuple":
        return tuple(idx)
    if kind == "ndarray":
        return np.array(idx, dtype=int)
    if kind == "nplist":
        return [np.int64(i) for i in idx]
    if kind in ("int", "npint"):
        if len(idx) != 1:
            raise ValueError("scalar qubit argument needs exactly one index")
        return int(idx[0]) if kind == "int" else np.int64(idx[0])
    raise ValueError(kind)


def build(spec):
    QubitCircuit, Gate, Measurement, _ = _lib()
    qc = QubitCircuit(spec["N"], num_cbits=spec["c"])
    for op in spec["ops"]:
        if "m" in op:
            qc.add_measurement("M", targets=qubits_value(op["m"], op.get("tk")), classical_store=op["s"])
            continue
        t, c = qubits_value(op["t"], op.get("tk")), qubits_value(op["c"], op.get("ck"))
        k = qubits_value(op.get("k"), op.get("kk"))
        cvkw = {"control_value": op["cv"]} if "cv" in op else {}
        form = op.get("f") or ("raw" if op.get("raw") else "name")
        if form == "raw":        # generic Gate object carrying a name
            qc.add_gate(Gate(op["g"], targets=t, controls=c, arg_value=py_value(op["a"]),
                             classical_controls=k, classical_control_value=op.get("kv"), **cvkw))
        elif form == "name":     # add_gate(name, ...): the library builds the object (and passes name=...)
            qc.add_gate(op["g"], targets=t, controls=c, arg_value=py_value(op["a"]),
                        classical_controls=k, classical_control_value=op.get("kv"), **cvkw)
        elif form == "cls":      # instance of the library class / partial registered under the name, no `name=` given
            from qutip_qip.operations import gateclass
            kw = {"targets": t}
            if c is not None:
                kw["controls"] = c
            if op["a"] is not None:
                kw["arg_value"] = py_value(op["a"])
            if k is not None:
                kw.update(classical_controls=k, classical_control_value=op.get("kv"))
            qc.add_gate(gateclass.GATE_CLASS_MAP[op["g"]](**kw, **cvkw))
        elif form == "cg":       # ControlledGate(controls, targets, control_value, target_gate=<library class>)
            from qutip_qip.operations import gateclass
            kw = {}
            if op["a"] is not None:
                kw["arg_value"] = py_value(op["a"])
            if op.get("nm") is not None:
                kw["name"] = op["nm"]
            qc.add_gate(gateclass.ControlledGate(controls=c, targets=t, control_value=op.get("cv"),
                                                 target_gate=getattr(gateclass, op["tg"]), **kw))
        else:
            raise ValueError(form)
    return qc


def plain(spec):
    """the same circuit with its qubit arguments given as plain lists (the container type is not part of the
    circuit's meaning; the simulator has its own requirements on it)"""
    return {**spec, "ops": [{k: v for k, v in op.items() if k not in ("tk", "ck", "kk")} for op in spec["ops"]]}


def _int_or_none(v):
    import numbers
    return int(v) if isinstance(v, numbers.Integral) and not isinstance(v, bool) and v >= 0 else None


def exporter_view(spec):
    """What the exporter reads of every gate OBJECT of the built circuit: its `name` and its `control_value` (besides
    targets / controls / arg_value / classical_controls, which the objects store as given).  Returns the spec with
    `g` := the object's name, `cv` := the object's control_value, and for the object forms (`cls`, `cg`) `t` / `c` :=
    the object's targets / controls.  A circuit that cannot be built is returned unchanged."""
    try:
        with warnings.catch_warnings():
            warnings.simplefilter("ignore")
            qc = build(plain(spec))
    except Exception:
        return spec
    ops = []
    for op, g in zip(spec["ops"], qc.gates):
        if "m" in op:
            ops.append(op)
            continue
        o = dict(op, g=g.name, cv=_int_or_none(getattr(g, "control_value", None)))
        if getattr(g, "control_value", None) is not None and o["cv"] is None:
            o["cv"] = -1        # something that is no non-negative integer: never "all control qubits 1"
        if op.get("f") in ("cls", "cg"):
            try:
                o["t"] = None if g.targets is None else [int(x) for x in g.targets]
                o["c"] = None if g.controls is None else [int(x) for x in g.controls]
            except Exception:
                pass
        ops.append(o)
    return {**spec, "ops": ops}


def cv_all_ones(op):
    """no control_value, or controls and control_value = 2**len(controls)-1"""
    cv = op.get("cv")
    return cv is None or (bool(op.get("c")) and cv == 2 ** len(op["c"]) - 1)


_TREE = {}


def tree_tables():
    """what the checkout under verification exports, read from its source with `ast`: the names with a QASM name or
    an emitted definition, the names whose export path calls a method that does not exist (`_qasm_defn_resolve`),
    whether `_qasm_str` accepts any container of qubit indices.  Source not recognised: the repaired values (the
    oracle is then strict)."""
    key = paths.REPO
    if key not in _TREE:
        try:
            e = qasm_tables.export_tables()
            names = {k for k, _ in e["name_map"]} | {k for k, _ in e["defns"]}
            _TREE[key] = {"names": names, "crash": [n for n in e["resolvable"] if n not in names],
                          "containers": e["qubit_containers"], "cctrl_len": e["cctrl_len"],
                          "cv_checked": e["cv_checked"]}
        except Exception:
            _TREE[key] = {"names": set(SHAPE) | set(LATE_SHAPE), "crash": [], "containers": True, "cctrl_len": True,
                          "cv_checked": True}
    return _TREE[key]


def shape_of(name):
    return SHAPE.get(name) or LATE_SHAPE.get(name)


def exportable(name):
    return name in tree_tables()["names"] and shape_of(name) is not None


_DISCOVERED = {}


def discover_shape(name):
    """(controls, targets, parameter shape) with which `QubitCircuit.add_gate(name, ...)` builds a gate whose unitary
    the library can compute — for names that are in none of the tables above; None if there is none"""
    if name in _DISCOVERED:
        return _DISCOVERED[name]
    QubitCircuit, _, _, _ = _lib()
    found = None
    for nc, nt, ps in SHAPE_CANDIDATES:
        a = None if ps is None else 0.3 if ps == "s" else [0.3, 0.4] if ps == "v2" else [0.3, 0.4, 0.5]
        try:
            with warnings.catch_warnings():
                warnings.simplefilter("ignore")
                qc = QubitCircuit(3)
                qc.add_gate(name, targets=list(range(nc, nc + nt)), controls=list(range(nc)) or None, arg_value=a)
                qc.compute_unitary()
            found = (nc, nt, ps)
            break
        except Exception:
            continue
    _DISCOVERED[name] = found
    return found


def library_names():
    """every name of GATE_CLASS_MAP (legacy spellings included) + the names add_gate knows besides"""
    from qutip_qip.operations import gateclass
    return sorted(set(gateclass.GATE_CLASS_MAP) | set(SHAPE) | set(LATE_SHAPE) | set(NONEXP_SHAPE) - {"mygate"})


def hx(s):
    return s.encode("ascii").hex()


def enc_idx(l):
    # container and integer type of the qubit arguments are not part of the model: a tree whose `_qasm_str` joins
    # `list(q_controls) + list(q_targets)` treats them all alike, and only such a tree is given other containers
    return "N" if l is None else "L" + ".".join(str(int(i)) for i in l)


_PRINT = {}


def print_primitives():
    """Which Python primitive turns a parameter into text in `_qasm_str` of the tree under verification, read from the
    source with `ast`: (for a scalar, for an element of a list / tuple / ndarray), each "str" (`str(x)`) or "format"
    (`"{}".format(x)`, also when the object itself is put into the format string).  A parameter passed to `_qasm_real`
    gets the primitive of the first statement of `_qasm_real`.  The two texts are the same for int, float and
    numpy.float64 and differ for numpy.float32 (`'1e-20'` / `'9.999999682655225e-21'`)."""
    key = paths.REPO
    if key not in _PRINT:
        scalar, elem = "format", "str"
        try:
            tree = ast.parse(open(os.path.join(paths.REPO, "src", "qutip_qip", "qasm.py")).read())
            real = "str"
            for f in ast.walk(tree):
                if isinstance(f, ast.FunctionDef) and f.name == "_qasm_real":
                    for st in f.body:
                        if isinstance(st, ast.Assign) and isinstance(st.value, ast.Call):
                            fn = st.value.func
                            if isinstance(fn, ast.Attribute) and fn.attr == "format":
                                real = "format"
                            break
            for f in ast.walk(tree):
                if isinstance(f, ast.FunctionDef) and f.name == "_qasm_str":
                    for n in ast.walk(f):
                        if isinstance(n, ast.Call) and isinstance(n.func, ast.Name) and len(n.args) == 1 \
                                and isinstance(n.args[0], ast.Name):
                            prim = real if n.func.id == "_qasm_real" else "str" if n.func.id == "str" else None
                            if prim and n.args[0].id == "q_args":
                                scalar = prim
                            elif prim and n.args[0].id == "arg":
                                elem = prim
        except (OSError, SyntaxError):
            pass
        _PRINT[key] = (scalar, elem)
    return _PRINT[key]


def to_text(v, prim):
    return str(v) if prim == "str" else "{}".format(v)


def enc_arg(a):
    v = py_value(a)
    if v is None:
        return "N"
    scalar, elem = print_primitives()
    if isinstance(v, (list, tuple, np.ndarray)):
        return "Q%s/%s/%s" % (type(v).__name__, hx(to_text(v, scalar)), ",".join(hx(to_text(x, elem)) for x in v))
    return "S" + hx(to_text(v, scalar))


def enc_circuit(spec):
    """the model's input: the fields the exporter reads of each gate OBJECT (`exporter_view`)"""
    ops = []
    for op in exporter_view(spec)["ops"]:
        if "m" in op:
            ops.append("m:%s:%s" % (enc_idx(op["m"]), "N" if op["s"] is None else str(op["s"])))
        else:
            cv = op.get("cv")
            ops.append("g:%s:%s:%s:%s:%s:%s" % (op["g"], enc_idx(op["t"]), enc_idx(op["c"]), enc_arg(op["a"]),
                                                enc_idx(op.get("k")),
                                                "N" if cv is None else str(cv) if cv >= 0 else "99999"))
    return "export n=%d c=%d ops=%s" % (spec["N"], spec["c"], ";".join(ops))


def dec_answer(o):
    if o.startswith("ok"):
        body = o[3:]
        return "ok", [bytes.fromhex(h).decode("ascii") for h in body.split(",")]
    return o.replace("err ", ""), None


EXC = {NotImplementedError: "notImpl", AttributeError: "attr", TypeError: "type", IndexError: "index",
       ValueError: "value"}


def impl_export(spec, how="str"):
    _, _, _, qasm = _lib()
    try:
        qc = build(spec)
    except Exception as e:
        return "build:" + type(e).__name__, None
    import numbers
    for g in qc.gates:
        # a constructor may leave a qubit argument that is no sequence of integers behind (ControlledGate wraps a tuple
        # of controls into a list: `[(1,)]`): such an object is malformed, like a circuit that cannot be constructed
        for idx in (g.targets, getattr(g, "controls", None)):
            if idx is not None and not all(isinstance(i, numbers.Integral) for i in idx):
                return "build:malformed-object", None
    try:
        with warnings.catch_warnings():
            warnings.simplefilter("ignore")
            if how == "str":
                text = qasm.circuit_to_qasm_str(qc)
            elif how == "print":
                buf = io.StringIO()
                with contextlib.redirect_stdout(buf):
                    qasm.print_qasm(qc)
                text = buf.getvalue()
            else:
                with tempfile.TemporaryDirectory() as d:
                    p = os.path.join(d, "out.qasm")
                    qasm.save_qasm(qc, p)
                    text = open(p).read()
    except Exception as e:
        return EXC.get(type(e), "other:" + type(e).__name__), None
    assert text.endswith("\n")
    return "ok", text[:-1].split("\n")


# ---- generators ------------------------------------------------------------------------------------
def scalar_arg(rng, special=None):
    if special is not None:
        v = special
    else:
        r = rng.random()
        if r < 0.2:
            v = rng.choice(SPECIAL_SCALARS)
        elif r < 0.3:
            v = rng.randint(-9, 9)
        elif r < 0.45:
            v = rng.choice([-1, 1]) * 10.0 ** rng.uniform(-30, 30)
        else:
            v = rng.uniform(-2 * math.pi, 2 * math.pi)
    return {"s": v, "np": (rng.random() < 0.25 and isinstance(v, float))}


def vec_arg(rng, n, kind=None):
    kind = kind or rng.choice(["list", "tuple", "ndarray"])
    vals = [rng.choice(SPECIAL_SCALARS) if rng.random() < 0.3 else rng.uniform(-7, 7) for _ in range(n)]
    if kind == "ndarray":
        vals = [float(v) for v in vals]
    return {"k": kind, "v": vals}


def make_gate(rng, name, N, shape_table, qubits=None, arg=None):
    nc, nt, ps = shape_table[name]
    if qubits is None:
        qubits = rng.sample(range(N), nc + nt)
    op = {"g": name, "c": list(qubits[:nc]) if nc else None, "t": list(qubits[nc:]) if nt else None, "k": None}
    if arg is not None:
        op["a"] = arg
    elif ps == "s":
        op["a"] = scalar_arg(rng)
    elif ps == "v3":
        op["a"] = vec_arg(rng, 3)
    elif ps == "v2":
        op["a"] = vec_arg(rng, 2)
    else:
        op["a"] = None
    if name not in SHAPE and name != "mygate":
        op["raw"] = True     # generic Gate object: the class constructors differ in their signatures
    if name == "mygate":
        op["raw"] = True
    return op


def random_circuit(rng, with_meas=True, allow_nonexp=0.0, maxN=5, maxlen=10):
    N = rng.randint(1, maxN)
    c = rng.choice([0, 0, 1, 2, 3]) if with_meas else 0
    ops = []
    for _ in range(rng.randint(1, maxlen)):
        if c and rng.random() < 0.15:
            ops.append({"m": [rng.randrange(N)], "s": rng.randrange(c)})
            continue
        if rng.random() < allow_nonexp:
            cands = [g for g in NON_EXPORTABLE if sum(NONEXP_SHAPE[g][:2]) <= N]
            if cands:
                ops.append(make_gate(rng, rng.choice(cands), N, NONEXP_SHAPE))
                continue
        cands = [g for g in EXPORTABLE + sorted(LATE_SHAPE) if exportable(g) and sum(shape_of(g)[:2]) <= N]
        g = rng.choice(cands)
        op = make_gate(rng, g, N, {g: shape_of(g)})
        op.pop("raw", None)
        ops.append(op)
    return {"N": N, "c": c, "ops": ops}


def name_specs(rng):
    """every gate name the library knows (GATE_CLASS_MAP with its legacy spellings, the names `add_gate` accepts
    besides), alone and inside a circuit, built through `add_gate(name, …)` (the gate's own class) and as a generic
    `Gate` object: each must be exported, or refused with an error of the exporter — never crash"""
    out = []
    for name in library_names():
        shape = shape_of(name) or NONEXP_SHAPE.get(name) or discover_shape(name)
        if shape is None:
            continue
        table = {name: shape}
        for raw in (False, True):
            op = make_gate(rng, name, 3, table, list(range(shape[0] + shape[1])))
            op["raw"] = raw
            out.append({"N": 3, "c": 0, "ops": [op]})
            out.append({"N": 3, "c": 0, "ops": [make_gate(rng, "X", 3, SHAPE), dict(op), make_gate(rng, "CRX", 3, SHAPE)]})
    return out


def qubit_kind_specs(rng, names=None):
    """controls and targets given as list / tuple / numpy array / list of numpy integers / bare int / bare numpy
    integer, in every combination, for every exportable gate (and measurements)"""
    out = []
    for g in (names or [n for n in library_names() if exportable(n)]):
        nc, nt, ps = shape_of(g)
        for tk in QUBIT_KINDS:
            if tk in ("int", "npint") and nt != 1:
                continue
            for ck in (QUBIT_KINDS if nc else [None]):
                if ck in ("int", "npint") and nc != 1:
                    continue
                for raw in (False, True):
                    op = make_gate(rng, g, 3, {g: (nc, nt, ps)}, list(range(nc + nt))[::-1])
                    op.update(tk=tk, ck=ck, raw=raw)
                    out.append({"N": 3, "c": 0, "ops": [op]})
    for tk in QUBIT_KINDS:
        out.append({"N": 2, "c": 1, "ops": [{"g": "SNOT", "t": [1], "c": None, "a": None, "k": None},
                                             {"m": [1], "s": 0, "tk": tk}]})
    return out


CG_TARGETS = ["X", "Y", "Z", "SNOT", "S", "T", "SQRTNOT", "RX", "RY", "RZ", "PHASEGATE", "SWAP", "ISWAP"]
CG_NAMES = {("X", 1): ["CNOT", "CX"], ("X", 2): ["TOFFOLI"], ("Z", 1): ["CSIGN", "CZ"], ("Y", 1): ["CY"],
            ("SWAP", 1): ["FREDKIN"], ("PHASEGATE", 1): ["CPHASE"], ("SNOT", 1): ["CH"]}


def object_form_specs(rng):
    """the OBJECT-FORM dimension of an exported gate.  The same operation can reach the exporter as
    (a) `add_gate(name, …)`, (b) a generic `Gate(name, …)`, (c) an instance of the library class / partial registered
    under the name (no `name=`), (d) `ControlledGate(controls, targets, control_value, target_gate=<library class>)`
    with 1-2 controls, EVERY control value, without a name / named "C"+target / named like the library gate;
    (a)-(c) also with every `control_value` (the `_OneControlledGate` partials with control_value=0 included).
    Each is judged by the property: refused, or valid text with the object's unitary."""
    from qutip_qip.operations import gateclass
    out = []

    def arg_for(ps):
        return None if ps is None else {"s": rng.choice([0.7, -1.3, 2.1, 0.5]), "np": False} if ps == "s" else \
            {"k": "list", "v": [0.3, 0.4] if ps == "v2" else [0.3, 0.4, 0.5]}

    def put(N, op):
        out.append({"N": N, "c": 0, "ops": [op]})
        if rng.random() < 0.3:
            out.append({"N": N, "c": 0, "ops": [make_gate(rng, "SNOT", N, SHAPE), dict(op), make_gate(rng, "RZ", N, SHAPE)]})

    # (a)-(c): every library name, its own shape, with and without control_value
    for name in library_names():
        shape = shape_of(name) or NONEXP_SHAPE.get(name) or discover_shape(name)
        if shape is None:
            continue
        nc, nt, ps = shape
        N = max(2, nc + nt)
        qs = list(range(N))
        rng.shuffle(qs)
        base = {"g": name, "t": qs[nc:nc + nt], "c": qs[:nc] or None, "a": arg_for(ps), "k": None}
        forms = [{}, {"raw": True}] + ([{"f": "cls"}] if name in gateclass.GATE_CLASS_MAP else [])
        for f in forms:
            put(N, dict(base, **f))
            for cv in (range(2 ** nc) if nc else [0, 1]):
                put(N, dict(base, cv=cv, **f))
    # (d): ControlledGate over every library class
    for tg in CG_TARGETS:
        if not hasattr(gateclass, tg):
            continue
        _, nt, ps = SHAPE.get(tg) or NONEXP_SHAPE[tg]
        for nc in (1, 2):
            N = nc + nt
            for cv in range(2 ** nc):
                for nm in [None, "C" + tg] + CG_NAMES.get((tg, nc), []):
                    qs = list(range(N))
                    rng.shuffle(qs)
                    put(N, {"g": nm or "ControlledGate", "f": "cg", "tg": tg, "nm": nm, "cv": cv, "t": qs[nc:],
                            "c": qs[:nc], "a": arg_for(ps), "k": None})
    return out


# pairs / triples of DIFFERENT angles that agree in their first six significant digits, or are large: the importer
# caches the unitary of a user gate under the text of the call, so a re-imported circuit is only right if different
# angles give different keys
NEAR_ANGLES = [(0.7853981, 0.7853984), (1.0000001, 1.0000004), (-2.5000002, -2.5000009), (1000000.25, 1000003.0),
               (1e6 + 0.5, 1e6 + 1.0), (123456.7, 123456.9), (1e-7, 1.0000003e-7), (3.141592653589793, 3.1415927),
               (0.5, 0.50000004, 0.5000001), (1e9 + 1.0, 1e9 + 3.0, 1e9 + 2.0)]


def repeated_param_specs(rng):
    """the SAME parametrised gate used several times in one circuit with nearly equal / large angles — above all the
    gates exported through an auxiliary definition (`gate crx(theta) a,b {…}`, `cry`): re-imported they are user gates
    whose expansion the reader caches by the call's text"""
    out = []
    names = [n for n in library_names() if exportable(n) and shape_of(n)[2] == "s"]
    defined = set()
    try:
        defined = {k for k, _ in qasm_tables.export_tables()["defns"]}
    except Exception:
        pass
    names.sort(key=lambda n: n not in defined)          # CRX, CRY first
    for g in names:
        nc, nt, ps = shape_of(g)
        for angles in NEAR_ANGLES:
            for same_qubits in (True, False):
                ops = []
                for j, a in enumerate(angles):
                    qs = list(range(nc + nt)) if (same_qubits or j % 2 == 0) else list(range(nc + nt))[::-1]
                    op = make_gate(rng, g, 3, {g: (nc, nt, ps)}, qs, {"s": a, "np": False})
                    op.pop("raw", None)
                    ops.append(op)
                out.append({"N": max(2, nc + nt), "c": 0, "ops": ops})
            # with another gate between the two uses, and the first angle used again at the end
            a, b = angles[0], angles[1]
            ops = []
            for v in (a, b, a):
                op = make_gate(rng, g, 3, {g: (nc, nt, ps)}, list(range(nc + nt)), {"s": v, "np": False})
                op.pop("raw", None)
                ops += [op, {"g": "SNOT", "t": [0], "c": None, "a": None, "k": None}]
            out.append({"N": max(2, nc + nt), "c": 0, "ops": ops})
    return out


def conditioned_specs(rng, names=None):
    """classically conditioned gates: every exportable gate conditioned on the WHOLE classical register of 1-3 bits with
    EVERY value (and the default value), and on parts / permutations of the register.  The exporter may refuse them;
    a text it emits must act like the circuit under every classical state (a Gate reads its FIRST classical control as
    the MOST significant bit of classical_control_value; OpenQASM's `if(c==k)` reads c[0] as bit 0)."""
    out = []
    for g in (names or [n for n in library_names() if exportable(n)]):
        nc, nt, ps = shape_of(g)
        qs = list(range(nc + nt))
        for c in (1, 2, 3):
            whole = list(range(c))
            conds = [(whole, v) for v in [None] + list(range(2 ** c))]
            if c >= 2:
                conds += [([0], 1), ([c - 1], 0), (whole[::-1], 1), (whole[::-1], 2 ** c - 2), ([1, 0], 2), ([0, c - 1], 1)]
            for k, kv in conds:
                op = make_gate(rng, g, 3, {g: (nc, nt, ps)}, qs)
                op.pop("raw", None)
                op.update(k=list(k), kv=kv)
                out.append({"N": 3, "c": c, "ops": [op]})
    # container / integer type of the classical controls (a tree whose Gate._to_qasm tests their LENGTH; on another tree
    # a numpy array is the recorded finding: `[0]` as an array is falsy and the condition is dropped)
    if tree_tables()["cctrl_len"]:
        for g in (names or ["X", "CNOT", "CRX"]):
            if not exportable(g):
                continue
            nc, nt, ps = shape_of(g)
            for kk in QUBIT_KINDS:
                for k in ([0], [1], [0, 1], []):
                    if kk in ("int", "npint") and len(k) != 1:
                        continue
                    for raw in (False, True):
                        op = make_gate(rng, g, 3, {g: (nc, nt, ps)}, list(range(nc + nt)))
                        op.update(k=list(k), kk=kk, kv=None, raw=raw)
                        out.append({"N": 3, "c": 2, "ops": [op]})
    # inside a circuit, after measurements that set the bits
    for c, kv in ((2, 1), (2, 2), (3, 3), (3, 6)):
        ops = [{"g": "X", "t": [0], "c": None, "a": None, "k": None}] + \
              [{"m": [i], "s": i} for i in range(c)] + \
              [{"g": "X", "t": [2], "c": None, "a": None, "k": list(range(c)), "kv": kv},
               {"g": "CNOT", "t": [1], "c": [2], "a": None, "k": None}]
        out.append({"N": 3, "c": c, "ops": ops})
    return out


def in_class(spec, ignore_cv=False):
    """the class of the property's positive part: exportable gates of the right shape on distinct
    in-range qubits with numeric parameters, no control_value other than "all control qubits 1", measurements into
    existing classical bits.  `spec` is the exporter's view of the circuit (`exporter_view`: names and control values
    of the built objects)."""
    N = spec["N"]
    for op in spec["ops"]:
        if "m" in op:
            if not (len(op["m"]) == 1 and 0 <= op["m"][0] < N and op["s"] is not None and 0 <= op["s"] < spec["c"]):
                return False
            continue
        if not exportable(op["g"]):
            return False
        if not ignore_cv and not cv_all_ones(op):
            return False
        k = op.get("k")
        if k:       # a classical condition: distinct bits of the register, a value that fits them (or the default)
            kv = op.get("kv")
            if len(set(k)) != len(k) or not all(0 <= b < spec["c"] for b in k) or \
                    not (kv is None or 0 <= kv < 2 ** len(k)):
                return False
        nc, nt, ps = shape_of(op["g"])
        qs = (op["c"] or []) + (op["t"] or [])
        if len(op["c"] or []) != nc or len(op["t"] or []) != nt or len(set(qs)) != len(qs) or \
                not all(0 <= q < N for q in qs):
            return False
        a = op["a"]
        if ps is None and a is not None:
            return False
        if ps == "s" and not (a is not None and "s" in a and not isinstance(a["s"], str) and math.isfinite(a["s"])):
            return False
        if ps == "v3" and not (a is not None and "v" in a and len(a["v"]) == 3 and all(map(math.isfinite, a["v"]))):
            return False
    return True


def conditioned(spec):
    """some gate carries a (non-empty) classical condition: the exporter may refuse the circuit; what it does export
    must act like the circuit under EVERY classical state"""
    return any("g" in op and op.get("k") for op in spec["ops"])


def library_named(spec):
    """some gate is an object whose NAME the library chose (instance of a library class / partial, or a ControlledGate
    without `name=`): such an object is well formed whenever its constructor accepts it — what is exported for it
    must be valid and denote its unitary, whatever the shape table says about the name"""
    return any("g" in op and (op.get("f") == "cls" or (op.get("f") == "cg" and op.get("nm") is None))
               for op in spec["ops"])


def user_named_other_cv(spec):
    """some gate carries a NAME given by the user (add_gate(name), Gate(name), ControlledGate(name=...)) together with
    a control_value other than "all control qubits 1" — recorded finding C10-7 (the exporter reads the name alone)"""
    return any("g" in op and "cv" in op and not cv_all_ones(op) and
               not (op.get("f") == "cls" or (op.get("f") == "cg" and op.get("nm") is None)) for op in spec["ops"])


def has_nonexportable(spec):
    return any("g" in op and op["g"] not in tree_tables()["names"] for op in spec["ops"])


def exotic_qubits(spec):
    return any(op.get("tk") not in (None, "list") or op.get("ck") not in (None, "list") for op in spec["ops"])


def strict_number_texts(spec):
    """every parameter prints as an OpenQASM 2.0 `real`/`nninteger` (Python prints 1e-20 without a
    decimal point, which is not a `real` of the paper's grammar — recorded finding)"""
    import re
    for op in spec["ops"]:
        if "g" not in op or op["a"] is None:
            continue
        v = py_value(op["a"])
        xs = list(v) if isinstance(v, (list, tuple, np.ndarray)) else [v]
        for x in xs:
            s = str(x).lstrip("-")
            if not re.fullmatch(r"(?:[0-9]+\.[0-9]*|[0-9]*\.[0-9]+)(?:[eE][-+]?[0-9]+)?|[1-9]+[0-9]*|0", s):
                return False
    return True


# ---- the property on the real code -------------------------------------------------------------------
def lib_segments(qc):
    """[gates, (q, c), gates, ...]: the circuit split at its measurements"""
    QubitCircuit, Gate, Measurement, _ = _lib()
    out, cur = [], []
    for g in qc.gates:
        if isinstance(g, Measurement):
            out.append(cur)
            out.append((g.targets[0], g.classical_store))
            cur = []
        else:
            cur.append(g)
    out.append(cur)
    return out


def lib_unitary(qc, gates, cbits):
    """unitary of a run of gates under one classical state, by the library's own semantics: the simulator decides
    which classically controlled gates act (`CircuitSimulator.run(..., cbits=...)`)"""
    QubitCircuit, Gate, Measurement, _ = _lib()
    if not gates:
        return np.eye(2 ** qc.N, dtype=complex)
    if all(g.classical_controls is None for g in gates):
        sub = QubitCircuit(qc.N, num_cbits=qc.num_cbits)
        sub.user_gates = qc.user_gates
        for g in gates:
            sub.add_gate(g)
        return sub.compute_unitary().full()
    from props.c04 import sim_unitary
    return sim_unitary(qc, gates, cbits)


def classical_states(nc):
    return list(itertools.product([0, 1], repeat=nc)) if nc else [()]


def property_fails(spec, lenient_measure=False):
    """C10 evaluated on the implementation for one circuit -> (fails, detail)"""
    _, _, _, qasm = _lib()
    st, lines = impl_export(spec)
    if st.startswith("build:"):
        return False, "circuit cannot be constructed (%s)" % st
    if st == "attr" or st.startswith("other:"):
        # not a refusal: the export path itself is broken (e.g. a method that does not exist)
        return True, "export crashes instead of refusing (%s)" % st
    # the circuit as the exporter sees it: names and control values of the built gate OBJECTS
    view = exporter_view(spec)
    if has_nonexportable(view):
        return (st == "ok"), ("non-exportable gate exported" if st == "ok" else "refused (%s)" % st)
    cond = conditioned(spec)
    if st != "ok":
        if in_class(view) and not cond:
            return True, "circuit of exportable gates refused (%s)" % st
        return False, "refused (%s)" % st
    other_cv = any("g" in op and not cv_all_ones(op) for op in view["ops"])
    if not in_class(view) and not library_named(spec) and not (other_cv and in_class(view, ignore_cv=True)):
        return False, "outside the class (malformed gate); exported"
    text = "\n".join(lines) + "\n"
    chk = text
    if lenient_measure:
        import re
        chk = re.sub(r"^(measure q\[[0-9]+\] -> c\[[0-9]+\])$", r"\1;", text, flags=re.M)
    try:
        std = qasm_std.Std(chk)
    except qasm_std.QasmError as e:
        bad = [l for l in lines if l and not l.startswith("//")]
        return True, "exported text is not valid OpenQASM 2.0 (%s); text=%r" % (e, text[-200:])
    # the circuit's own unitary is computed from the same circuit with its qubit arguments given as plain lists (the
    # container type is not part of the circuit's meaning; the simulator has its own requirements on it)
    qc = build(plain(spec))
    N = spec["N"]
    try:
        for w in lib_segments(qc):
            if not isinstance(w, tuple):
                lib_unitary(qc, w, tuple([0] * spec["c"]))
    except Exception as e:
        if other_cv:
            return True, ("exported as the gate of its name although the gate carries another control_value and the "
                          "library refuses to compute its matrix (%s: %s)" % (type(e).__name__, e))
        if not in_class(view):
            return False, "outside the class (the library computes no unitary for the circuit); exported"
        raise
    if std.nq != N or (spec["c"] and std.nc != spec["c"]):
        return True, "register sizes differ"
    want = lib_segments(qc)
    got = qasm_std.segments(std.ops)
    if len(want) != len(got):
        return True, "number of measurements differs"
    states = classical_states(spec["c"]) if cond else [tuple([0] * spec["c"])]
    for i, (w, g) in enumerate(zip(want, got)):
        if isinstance(w, tuple):
            if (g[2], g[3]) != w or g[1] is not None:
                return True, f"measurement {i // 2}: exported text measures {g[2:]} instead of {w}"
        else:
            for cb in states:
                if not qasm_std.phase_equal(qasm_std.segment_unitary(g, N, list(cb)), lib_unitary(qc, w, cb)):
                    return True, (f"segment {i // 2}: the exported text denotes another unitary (standard semantics)"
                                  + (f" under the classical state c={list(cb)}" if cond else ""))
    try:
        with warnings.catch_warnings():
            warnings.simplefilter("ignore")
            back = qasm.read_qasm(text, strmode=True)
            rb = lib_segments(back)
    except Exception as e:
        return True, "re-import of the exported text fails: %s %s" % (type(e).__name__, e)
    if back.N != N or len(rb) != len(want):
        return True, "re-imported circuit has another shape"
    for i, (w, g) in enumerate(zip(want, rb)):
        if isinstance(w, tuple):
            if g != w:
                return True, f"re-import: measurement {i // 2} is {g}, expected {w}"
        else:
            for cb in states:
                if not qasm_std.phase_equal(lib_unitary(back, g, cb), lib_unitary(qc, w, cb)):
                    return True, (f"re-import: segment {i // 2} has another unitary"
                                  + (f" under the classical state c={list(cb)}" if cond else ""))
    return False, "valid, same unitary and measurements, re-import agrees"


class C10(PropertyCheck):
    id = "C10"
    lean_modules = ["QipVerif.Props.C10"]
    drivers = ["drv_qasm"]
    theorems = [
        "QipVerif.C10.export_valid_partial",
        "QipVerif.C10.export_valid_pynum_partial",
        "QipVerif.C10.export_den_pynum_partial",
        "QipVerif.C10.export_refuses",
        "QipVerif.C10.export_refuses_classical",
        "QipVerif.C10.export_ignores_control_value",
        "QipVerif.C10.export_refuses_control_value",
        "QipVerif.C10.export_control_value_counterexample",
        "QipVerif.C10.export_control_value_repaired",
        "QipVerif.C10.definitions_sound",
        "QipVerif.C10.export_den",
        "QipVerif.C10.export_den_G",
        "QipVerif.C10.roundtrip_den_partial",
        "QipVerif.C10.roundtrip_den",
        "QipVerif.C10.export_csign_counterexample",
        "QipVerif.C10.export_csign_repaired",
        "QipVerif.C10.export_cz_meaning",
        "QipVerif.C10.base_names_are_qelib1",
        "QipVerif.C10.export_measure_counterexample",
        "QipVerif.C10.export_exponent_counterexample",
        "QipVerif.C10.export_exponent_repaired",
    ]
    level_text = ("Lean 4 theorems about a character-level model of the exporter, for every circuit (any size, any length) of "
                  "exportable gates with well-formed controls/targets/parameters: the emitted text is accepted line by line "
                  "by a strict OpenQASM 2.0 recogniser written from the language paper, passes the standard's static "
                  "semantics, and denotes exactly the circuit's sequence of gate calls; its full expansion to U/CX has, on every "
                  "register size, the circuit's unitary (denG / denX of the central embedding algebra) up to one global phase "
                  "(export_den, by naturality of the expansion + localisation); for EVERY circuit of the class, emitted gate "
                  "definitions included, the importer model of C04 re-imports the text (it is a program of C04's class W1) to an "
                  "operation list of library gates and user gates with the same unitary up to one global phase (roundtrip_den; "
                  "roundtrip_den_partial for the base table); every auxiliary gate definition the "
                  "exporter emits denotes the documented matrix up to one global phase (matrix identities over C); circuits "
                  "with a non-exportable gate are refused. The model follows the tree (flag exportPadsExponent regenerated "
                  "from the source): where _qasm_str prints its parameters with _qasm_real (fix C10-3), the printed text of "
                  "every finite int/float Python can print (1e-20 -> 1.0e-20) is proved to be one numeric token of the "
                  "standard with the same real value, so the class of export_valid_pynum_partial / export_den_pynum_partial "
                  "has no condition on the numbers' texts; on a tree without _qasm_real the class requires every printed "
                  "parameter to be a numeric token and rx(1e-20) is proved to be a counter-example. Partial on both trees: "
                  "measurements (exported without ';') are excluded and proved to be a counter-example. The class of the theorems "
                  "follows the regenerated name table: on a tree that writes CSIGN / CZ as cz (fix C10-4) they are in it, on "
                  "other trees CSIGN is proved to crash the export (AttributeError). The container and integer type of "
                  "controls / targets is outside the Lean model (lists of naturals); it is covered by the correspondence on "
                  "a tree whose _qasm_str normalises them (fix C10-5, flag read from the exact source). The model is tied "
                  "to the code by regenerated tables and a character-exact correspondence.")
    level_note = ("Trusted: Lean kernel; the OpenQASM 2.0 grammar/semantics and qelib1.inc as transcribed in "
                  "Model/QasmSpec.lean (cross-checked against an independent Python front end); Python's str() / format() of "
                  "numbers (the theorem about _qasm_real is about every text of the shape digits[.digits][e[+-]digits], the "
                  "shape of str(int) and repr(float) of finite values); the documented gate matrices restated in "
                  "Lemmas/QasmDen.lean; the harness.")
    technique = ("Lean 4 proof (string-level model of the exporter incl. _qasm_real, strict recogniser and expansion "
                 "semantics of OpenQASM 2.0 in Lean, lexer-level proof that padded numerals are tokens, matrix identities "
                 "over C for the emitted gate definitions) + regenerated tables / model variant read from the source "
                 "+ character-exact model/implementation correspondence")
    trusted_base = [
        "Lean 4.33 kernel; axioms propext, Classical.choice, Quot.sound",
        "OpenQASM 2.0 semantics as written in Model/QasmSpec.lean from the language paper (U = Rz(phi)Ry(theta)Rz(lambda), "
        "CX, qelib1.inc bodies transcribed by hand), cross-checked on every run against the independent Python front end "
        "props/qasm_std.py",
        "Python's conversion of ints/floats to text — str(), or '{}'.format() for a scalar on a tree without _qasm_real; the "
        "harness reads from the source which one the tree uses and passes the text to the model — and that this text has "
        "the shape `isPyOut` (digits | digits.digits*[e[+-]digits] | digits e[+-]digits) for finite ints/floats",
        "py/props/qasm_tables.py (AST extraction of name maps, definition strings, format strings, the literal bodies of "
        "_qasm_str's printing branch and of _qasm_real)",
        "py/props/c10.py (harness, exception classes mapped to {notImpl, attr, type, index, value}; `exporter_view`: the "
        "projection of a built gate OBJECT to the six fields of the model's Export.Gate — name, targets, controls, "
        "arg_value, classical_controls, control_value — which is everything Gate._to_qasm / _qasm_str read of it; the "
        "class of the object and its target_gate are not part of the model)",
        "the meaning of a gate in the Lean theorems is the documented matrix of its NAME; objects whose control_value is "
        "not 'all control qubits 1' are outside the class of the positive theorems (GoodGate.ctrlOnes) and are judged by "
        "the oracle against the library's own unitary of the object",
    ]
    assumptions = ["documented matrices of the library gates as restated in Lemmas/QasmMat.lean (C09 proves them for the code)"]
    rule = ("case = circuit (N<=5, gate list with names, controls, targets, parameter values and container types, "
            "measurements); distinct by canonical JSON; non-trivial = at least one gate with a parameter or a control, "
            "or a refusal")

    def regenerate(self, ctx):
        return qasm_tables.regenerate()

    # ------------------------------------------------------------------------------------------------
    def _run_cases(self, ctx, res, specs, tags_extra=()):
        drv = ctx.driver("drv_qasm")
        outs = drv.run([enc_circuit(s) for s in specs])
        texts = []
        for idx, (spec, o) in enumerate(zip(specs, outs)):
            mv, ml = dec_answer(o)
            iv, il = impl_export(spec)
            names = sorted({op.get("g", "M") for op in spec["ops"]})
            kinds = sorted({("none" if op["a"] is None else "scalar" if "s" in op["a"] else op["a"]["k"])
                            for op in spec["ops"] if "g" in op})
            nontriv = iv != "ok" or any("g" in op and (op["a"] is not None or op["c"]) for op in spec["ops"])
            res.case(spec, nontrivial=nontriv,
                     tags=[f"verdict={iv}"] + [f"gate={n}" for n in names] + [f"arg={k}" for k in kinds] + list(tags_extra))
            if iv.startswith("build:"):
                continue
            if mv != iv or ml != il:
                first = None
                if ml and il:
                    first = next(((a, b) for a, b in itertools.zip_longest(ml, il) if a != b), None)
                res.disagree(spec, {"verdict": mv, "first_diff": first and first[0]},
                             {"verdict": iv, "first_diff": first and first[1]},
                             "exported text differs (character-exact comparison)", spec)
                continue
            if iv == "ok":
                texts.append((spec, il))
                if idx % 7 == 0:
                    for how in ("print", "save"):
                        v2, l2 = impl_export(spec, how)
                        if (v2, l2) != (iv, il):
                            res.disagree(spec, il, l2, f"{how}_qasm differs from circuit_to_qasm_str", spec)
        return texts

    def _recogniser_cross_check(self, ctx, res, texts):
        """Lean strict recogniser vs the independent Python front end, on emitted texts and on mutants"""
        rng = ctx.rng
        items = []
        for spec, lines in texts:
            items.append(lines)
            if rng.random() < 0.5:
                ls = list(lines)
                j = rng.randrange(len(ls))
                m = rng.choice(["dropsemi", "paren", "dropline", "dupdef", "badname", "bigindex"])
                if m == "dropsemi":
                    ls[j] = ls[j].rstrip(";")
                elif m == "paren":
                    ls[j] = ls[j].replace("(", "((", 1).replace(")", "))", 1)
                elif m == "dropline":
                    del ls[j]
                elif m == "dupdef":
                    ls.append(ls[j])
                elif m == "badname":
                    ls[j] = ls[j].replace("q[", "r[", 1)
                else:
                    ls[j] = ls[j].replace("q[0]", "q[77]", 1)
                items.append(ls)
        if not items:
            return
        outs = ctx.driver("drv_qasm").run(["accept lines=" + ",".join(hx(l) for l in ls) for ls in items])
        for ls, o in zip(items, outs):
            try:
                qasm_std.Std("\n".join(ls) + "\n")
                py = "true"
            except qasm_std.QasmError:
                py = "false"
            res.case({"recognise": ls[-3:], "n": len(ls)}, nontrivial=True, tags=["recogniser=" + py])
            if o != py:
                res.disagree({"text": ls}, o, py, "Lean strict recogniser and independent Python recogniser differ", None)

    def correspondence(self, ctx, res):
        rng = ctx.rng
        specs = []
        # exhaustive: every exportable gate, every placement on 3 qubits, every special parameter / container
        N = 3
        for g in EXPORTABLE:
            nc, nt, ps = SHAPE[g]
            for qs in itertools.permutations(range(N), nc + nt):
                if ps is None:
                    args = [None]
                elif ps == "s":
                    args = [{"s": v, "np": False} for v in SPECIAL_SCALARS] + [{"s": 0.0, "np": True}, {"s": 2.5, "np": True}] + \
                        [{"s": v, "np": True} for v in BARE_EXPONENT] + \
                        [{"s": v, "np": "f32"} for v in (0.0, 2.5, 1e-20, -1e-20)]
                else:
                    args = []
                    for kind in ("list", "tuple", "ndarray"):
                        args.append({"k": kind, "v": [0.1, 0.2, 0.3]})
                        args.append({"k": kind, "v": [0.0, 0.0, 0.0]})
                        args.append({"k": kind, "v": [-1e-20, 1e20, float(math.pi)]})
                        args.append({"k": kind, "v": [1e-20, -5e-324, 1e16]})
                        args.append({"k": kind, "v": [1.5e-07, -1e20, 5e-324]})
                    args.append({"k": "list", "v": [0, 1, -2]})
                    args.append({"k": "list", "v": [0.5, 1e-20, -2.5], "np": "f32"})
                    args.append({"k": "tuple", "v": [1e-20, 0.0, -1e-20], "np": "f32"})
                for a in args:
                    specs.append({"N": N, "c": 0, "ops": [make_gate(rng, g, N, SHAPE, list(qs), a)]})
        for g in NON_EXPORTABLE:
            nc, nt, ps = NONEXP_SHAPE[g]
            specs.append({"N": 3, "c": 0, "ops": [make_gate(rng, g, 3, NONEXP_SHAPE)]})
            specs.append({"N": 3, "c": 0, "ops": [make_gate(rng, "X", 3, SHAPE), make_gate(rng, g, 3, NONEXP_SHAPE),
                                                   make_gate(rng, "CRX", 3, SHAPE)]})
        for c in (0, 1, 2):
            for q in range(2):
                for s in range(max(c, 1)):
                    specs.append({"N": 2, "c": c, "ops": [{"m": [q], "s": s if c else None}]})
        # every gate name of the library: exported or refused, never a crash
        specs += name_specs(rng)
        # classically conditioned gates (whole register of 1-3 bits x every value, parts, permutations)
        specs += conditioned_specs(rng)
        # one parametrised gate several times with nearly equal / large angles (cache keys of the re-import)
        specs += repeated_param_specs(rng)
        # the object form of a gate: by name, generic Gate, library class / partial, ControlledGate over every library
        # class with every control value; the model is given what the exporter reads of the built OBJECT
        specs += object_form_specs(rng)
        # container / integer type of controls and targets (only a tree whose `_qasm_str` normalises them is given
        # anything but lists of Python ints: the model's qubit lists stand for exactly those on other trees)
        if tree_tables()["containers"]:
            specs += qubit_kind_specs(rng)
        # parameter texts: a string-valued arg_value is printed through the same code (`str`, then `_qasm_real`
        # where the source has it)
        try:
            text_params = qasm_tables.export_tables()["arg_test"] == "notNone"   # (a truthiness test looks at the object)
        except Exception:
            text_params = True
        for g in ("RX", "CRZ") if text_params else ():
            nc, nt, _ = SHAPE[g]
            for t in PARAM_TEXTS:
                op = make_gate(rng, g, N, SHAPE, list(range(nc + nt)), {"s": t, "np": False})
                op["raw"] = True
                specs.append({"N": N, "c": 0, "ops": [op]})
        texts = self._run_cases(ctx, res, specs, ["stream=exhaustive"])
        res.exhaustive = True
        res.notes.append("exhaustive: every exportable gate x every injective placement on 3 qubits x every special "
                         "parameter value (zero, negative zero, negative, tiny, huge, ints, numpy float64/float32; values "
                         "printed with a bare exponent: 1e-20, -1e-20, 5e-324, 1e+16, 1e+20) and container "
                         "type (list, tuple, ndarray, bare exponents inside); %d parameter texts (signs, several e, "
                         "empty mantissa, E) as string-valued parameters; every non-exportable gate alone and inside a "
                         "circuit; measurements; every gate name of GATE_CLASS_MAP / add_gate (own class and generic Gate object); "
                         "on a tree with fix C10-5: controls / targets as list, tuple, ndarray, list of numpy integers, bare "
                         "int, bare numpy integer in every combination for every exportable gate; every exportable gate conditioned "
                         "on the whole classical register of 1-3 bits with every value, and on parts / permutations of it; every "
                         "parametrised exportable gate used 2-3 times in one circuit with angles that agree in six significant "
                         "digits or are large (1e6+0.5 / 1e6+1.0)"
                         % len(PARAM_TEXTS))
        # random circuits
        n_rand = 15000 if ctx.thorough else 400
        specs = [random_circuit(rng, allow_nonexp=0.04) for _ in range(n_rand)]
        texts += self._run_cases(ctx, res, specs, ["stream=random"])
        # malformed stream
        specs = []
        for _ in range(6000 if ctx.thorough else 250):
            s = random_circuit(rng, maxlen=4)
            gi = [i for i, op in enumerate(s["ops"]) if "g" in op]
            if not gi:
                continue
            op = s["ops"][rng.choice(gi)]
            m = rng.choice(["notargets", "emptytargets", "cctrl", "emptycctrl", "nostore", "emptycontrols", "extraarg",
                            "noarg", "seq1", "emptyseq", "dupqubit", "bigqubit"])
            op["raw"] = True
            if m == "notargets":
                op["t"] = None
            elif m == "emptytargets":
                op["t"] = []
            elif m == "cctrl":
                op["k"] = [0]
            elif m == "emptycctrl":
                op["k"] = []
            elif m == "nostore":
                s["ops"].append({"m": [0], "s": None})
            elif m == "emptycontrols":
                op["c"] = []
            elif m == "extraarg":
                op["a"] = scalar_arg(rng)
            elif m == "noarg":
                op["a"] = None
            elif m == "seq1":
                op["a"] = vec_arg(rng, 1)
            elif m == "emptyseq":
                op["a"] = {"k": rng.choice(["list", "tuple", "ndarray"]), "v": []}
            elif m == "dupqubit":
                op["c"] = list(op["t"] or [0])
            elif m == "bigqubit":
                op["t"] = [s["N"] + 3]
            specs.append(s)
        self._run_cases(ctx, res, specs, ["stream=malformed"])
        # the two recognisers agree
        sel = texts if ctx.thorough else rng.sample(texts, min(len(texts), 300))
        self._recogniser_cross_check(ctx, res, sel)

    # ------------------------------------------------------------------------------------------------
    def oracle_replay(self, ctx, w):
        # witnesses found by the sweeps carry the mode they were evaluated in (measure lines repaired)
        return property_fails(w, lenient_measure=bool(w.get("_lenient_measure")))

    def _bare_exponent_excluded(self):
        """True only on a tree whose `_qasm_str` is recognised as the variant WITHOUT `_qasm_real` (recorded
        finding: `rx(1e-20)`); a tree with `_qasm_real`, or one the translator does not recognise, is swept strictly"""
        try:
            return qasm_tables.export_tables()["pads_exp"] is False
        except Exception:
            return False

    def _sweep_ok(self, spec, bare_excluded):
        """inputs outside the recorded findings' classes (measure without ';' is repaired by the lenient
        mode instead; numbers that Python prints without a decimal point are excluded on a tree without
        `_qasm_real` only — theorem export_exponent_counterexample)"""
        if any(op.get("g") in tree_tables()["crash"] for op in spec["ops"]):
            return False        # recorded finding: the export path of this name calls a method that does not exist
        if not tree_tables()["cv_checked"] and user_named_other_cv(spec):
            return False        # recorded finding C10-7: Gate._to_qasm reads the name alone (tree without the test)
        return (not bare_excluded) or strict_number_texts(spec)

    def _search_stream(self, ctx, full=False):
        rng = ctx.rng
        for g in EXPORTABLE:
            nc, nt, ps = SHAPE[g]
            qs = list(range(nc + nt))
            args = [None] if ps is None else \
                [{"s": v, "np": False} for v in (0, 0.0, -0.0, 0.5, -1.25, 1.5e-20, 2.5e+20, math.pi, *BARE_EXPONENT)] + \
                [{"s": 1e-20, "np": True}] if ps == "s" else \
                [{"k": k, "v": v} for k in ("list", "tuple", "ndarray")
                 for v in ([0.1, 0.2, 0.3], [0.0, 0.0, 0.0], [1e-20, -1e-20, 1e16])]
            for a in args:
                yield {"N": max(2, nc + nt), "c": 0, "ops": [make_gate(rng, g, 3, SHAPE, qs, a)]}
        for g in NON_EXPORTABLE:
            yield {"N": 3, "c": 0, "ops": [make_gate(rng, g, 3, NONEXP_SHAPE)]}
        tt = tree_tables()
        of = object_form_specs(rng)
        rng.shuffle(of)
        for spec in of[: (len(of) if (ctx.thorough or full) else 160)]:
            yield spec
        rp = repeated_param_specs(rng)
        for spec in rp[: (len(rp) if (ctx.thorough or full) else 50)]:
            yield spec
        cs = conditioned_specs(rng)
        rng.shuffle(cs)
        for spec in cs[: (len(cs) if (ctx.thorough or full) else 90)]:
            yield spec
        for spec in name_specs(rng):
            yield spec
        if tt["containers"]:
            ks = qubit_kind_specs(rng)
            rng.shuffle(ks)
            for spec in ks[: (len(ks) if (ctx.thorough or full) else 60)]:
                yield spec
        yield {"N": 1, "c": 1, "ops": [{"g": "SNOT", "t": [0], "c": None, "a": None, "k": None}, {"m": [0], "s": 0}]}
        while True:
            yield random_circuit(rng, allow_nonexp=0.05, maxN=4, maxlen=8)

    def oracle_search(self, ctx, budget_s):
        t0 = time.time()
        bare = self._bare_exponent_excluded()
        for spec in self._search_stream(ctx, full=True):
            if time.time() - t0 > budget_s:
                return
            if not self._sweep_ok(spec, bare):
                continue
            f, d = property_fails(spec, lenient_measure=True)
            if f:
                yield dict(spec, _lenient_measure=True), d

    def oracle_always(self, ctx):
        n = 0
        bare = self._bare_exponent_excluded()
        for spec in self._search_stream(ctx):
            n += 1
            if n > (4000 if ctx.thorough else 570):
                return
            if not self._sweep_ok(spec, bare):
                continue
            f, d = property_fails(spec, lenient_measure=True)
            if f:
                yield dict(spec, _lenient_measure=True), d


CHECK = C10()
