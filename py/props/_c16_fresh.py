"""C16 — process-fresh reference evaluation.

Module-level state (tables, caches) is not reset by constructing new objects: "a freshly constructed circuit /
exporter / compiler" in a process that has already made calls is not fresh with respect to such state.  The reference
used here is a NEW PROCESS in which nothing has been called yet: a pristine server process (interpreter started,
`props.c16` and the qutip_qip modules imported, no function of the package called) forks one child per request; the
child evaluates one function of `props.c16.FRESH_FUNCS` on one JSON argument and returns the (pickled) value.

    ref = fresh().call("query", {"name": "qasm", "w": witness})

Server protocol (stdin/stdout, binary): request = one JSON line; answer = 8-byte big-endian length + pickle of
("ok", value) | ("exc", class name, message) | ("timeout",)."""
import atexit, json, os, pickle, select, struct, subprocess, sys, time

TIMEOUT_S = 120


def tree_signature():
    """(path, mtime, size) of every source file of the package under test"""
    from vlib import paths
    import hashlib
    h = hashlib.sha1()
    root = os.path.join(paths.REPO, "src", "qutip_qip")
    for d, _, files in sorted(os.walk(root)):
        for f in sorted(files):
            if f.endswith(".py"):
                st = os.stat(os.path.join(d, f))
                h.update(f"{d}/{f}:{st.st_mtime_ns}:{st.st_size};".encode())
    return h.hexdigest()


SIG0 = tree_signature()          # when this process started using the package


class TreeChanged(RuntimeError):
    """the source tree was modified while the check was running: this process and the reference process do not run the
    same code, a difference between them says nothing about the property"""


def assert_same_tree():
    if tree_signature() != SIG0:
        raise TreeChanged("the source tree under test was modified during the check (new-process reference runs other "
                          "code than this process): run the check again")


class FreshServer:
    def __init__(self):
        env = dict(os.environ)
        env["OMP_NUM_THREADS"] = "1"
        env["OPENBLAS_NUM_THREADS"] = "1"
        env["MKL_NUM_THREADS"] = "1"
        self.p = subprocess.Popen([sys.executable, "-W", "ignore", "-c",
                                   "from props import _c16_fresh; _c16_fresh.serve()"],
                                  stdin=subprocess.PIPE, stdout=subprocess.PIPE, env=env)
        self.calls = 0

    def call(self, fn, arg):
        self.p.stdin.write((json.dumps({"fn": fn, "arg": arg}) + "\n").encode())
        self.p.stdin.flush()
        head = self._read(8)
        (n,) = struct.unpack(">Q", head)
        self.calls += 1
        return pickle.loads(self._read(n))

    def _read(self, n):
        buf = b""
        while len(buf) < n:
            chunk = self.p.stdout.read(n - len(buf))
            if not chunk:
                raise RuntimeError("fresh-process server ended unexpectedly")
            buf += chunk
        return buf

    def close(self):
        try:
            self.p.stdin.close()
            self.p.wait(timeout=5)
        except Exception:
            self.p.kill()


_SERVER = None


def fresh():
    """the (lazily started) server of this process"""
    global _SERVER
    if _SERVER is None or _SERVER.p.poll() is not None:
        _SERVER = FreshServer()
        atexit.register(_SERVER.close)
    return _SERVER


def serve():
    """server side: pristine parent, one forked child per request"""
    from props import c16                     # imports qutip / qutip_qip; calls nothing
    import qutip_qip.qasm, qutip_qip.circuit, qutip_qip.compiler, qutip_qip.device, qutip_qip.noise  # noqa
    import qutip_qip.transpiler.chain, qutip_qip.circuit.text_renderer                              # noqa
    out = sys.stdout.buffer
    for line in sys.stdin.buffer:
        req = json.loads(line)
        r, wfd = os.pipe()
        pid = os.fork()
        if pid == 0:
            os.close(r)
            try:
                try:
                    val = ("ok", c16.FRESH_FUNCS[req["fn"]](req["arg"]))
                except Exception as e:
                    val = ("exc", type(e).__name__, str(e)[:200])
                data = pickle.dumps(val)
                with os.fdopen(wfd, "wb") as f:
                    f.write(data)
            finally:
                os._exit(0)
        os.close(wfd)
        chunks = []
        t0 = time.time()
        timed_out = False
        while True:
            rl, _, _ = select.select([r], [], [], 1.0)
            if rl:
                b = os.read(r, 1 << 16)
                if not b:
                    break
                chunks.append(b)
            elif time.time() - t0 > TIMEOUT_S:
                timed_out = True
                try:
                    os.kill(pid, 9)
                except OSError:
                    pass
                break
        os.close(r)
        try:
            os.waitpid(pid, 0)
        except OSError:
            pass
        data = pickle.dumps(("timeout",)) if timed_out else b"".join(chunks)
        if not data:
            data = pickle.dumps(("exc", "ChildDied", "no answer from the forked child"))
        out.write(struct.pack(">Q", len(data)) + data)
        out.flush()
