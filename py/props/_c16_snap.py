"""C16 — deep snapshots (vars()-level, numpy arrays by value) and their comparison up to a numerical tolerance."""
import json
import numpy as np


# ------------------------------------------------------------------------------------------
# deep snapshots (vars()-level, numpy arrays by value)

def snap(x, memo=None):
    import qutip
    if memo is None:
        memo = {}
    if x is None or isinstance(x, (bool, int, str, bytes)):
        return x
    if isinstance(x, (float, complex)):
        return ("num", repr(x))
    if isinstance(x, np.generic):
        return ("num", repr(x.item()))
    if isinstance(x, np.ndarray):
        return ("nd", x.shape, str(x.dtype), x.tobytes() if x.dtype != object else tuple(snap(v, memo) for v in x.ravel()))
    if isinstance(x, qutip.Qobj):
        return ("Qobj", json.dumps(x.dims), snap(np.asarray(x.full()), memo))
    if id(x) in memo:
        return ("cycle", memo[id(x)])
    if isinstance(x, (list, tuple)):
        memo[id(x)] = len(memo)
        return (type(x).__name__,) + tuple(snap(v, memo) for v in x)
    if isinstance(x, dict):
        memo[id(x)] = len(memo)
        return ("dict",) + tuple(sorted(((repr(k), snap(v, memo)) for k, v in x.items()), key=lambda kv: kv[0]))
    if isinstance(x, (set, frozenset)):
        return ("set",) + tuple(sorted(repr(v) for v in x))
    if callable(x) and not hasattr(x, "__dict__"):
        return ("fn", getattr(x, "__qualname__", repr(type(x))))
    if isinstance(x, type) or type(x).__name__ in ("function", "method", "builtin_function_or_method", "partial"):
        return ("fn", getattr(x, "__qualname__", type(x).__name__))
    if hasattr(x, "__dict__"):
        memo[id(x)] = len(memo)
        return (type(x).__name__, snap(vars(x), memo))
    if hasattr(x, "__slots__"):
        memo[id(x)] = len(memo)
        return (type(x).__name__,) + tuple((s, snap(getattr(x, s, None), memo)) for s in x.__slots__)
    return ("repr", type(x).__name__)


def close(a, b, tol=1e-10):
    """equality of snapshots / results up to `tol` on numbers (results of repeated float computations)"""
    if type(a) != type(b):
        return False
    if isinstance(a, tuple):
        if len(a) != len(b):
            return False
        if a and a[0] == "num" and len(a) == 2:
            try:
                return abs(complex(a[1].replace("(", "").replace(")", "")) - complex(b[1].replace("(", "").replace(")", ""))) <= tol
            except ValueError:
                return a == b
        if a and a[0] == "nd" and len(a) == 4 and isinstance(a[3], bytes) and isinstance(b[3], bytes):
            if a[1] != b[1] or a[2] != b[2]:
                return False
            x = np.frombuffer(a[3], dtype=a[2])
            y = np.frombuffer(b[3], dtype=b[2])
            if x.dtype.kind in "fc":
                return bool(np.allclose(x, y, atol=tol, rtol=0, equal_nan=True))
            return a[3] == b[3]
        return all(close(u, v, tol) for u, v in zip(a, b))
    return a == b
