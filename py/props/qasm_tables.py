"""Translator (tie T) for the QASM properties C04 / C10.

Extracts, with `ast` only (the package is not imported), every piece of qasm.py / gateclass.py /
circuit.py / measurement.py that is a *table* or a *format string* and writes
lean/QipVerif/Gen/QasmTables.lean.  Raises TranslatorError when the source no longer has the
recognised shape."""
import ast, os

from vlib.core import TranslatorError
from vlib import paths


def _src(rel):
    p = os.path.join(paths.REPO, "src", "qutip_qip", rel)
    try:
        return ast.parse(open(p).read()), p
    except (OSError, SyntaxError) as e:
        raise TranslatorError(f"cannot parse {p}: {e}")


def _find(body, kind, name):
    for n in body:
        if isinstance(n, kind) and getattr(n, "name", None) == name:
            return n
    raise TranslatorError(f"{kind.__name__} {name} not found")


def _const_str(n, what):
    if isinstance(n, ast.Constant) and isinstance(n.value, str):
        return n.value
    raise TranslatorError(f"{what}: expected a string constant, got {ast.dump(n)[:80]}")


def lean_str(s):
    out = []
    for ch in s:
        if ch == '"':
            out.append('\\"')
        elif ch == "\\":
            out.append("\\\\")
        elif ch == "\n":
            out.append("\\n")
        elif ch == "\t":
            out.append("\\t")
        elif 32 <= ord(ch) < 127:
            out.append(ch)
        else:
            raise TranslatorError(f"unexpected character {ch!r} in a table string")
    return 'cs!"' + "".join(out) + '"'


def lean_list(items):
    return "[" + ", ".join(items) + "]"


def split_fmt(s, what, n):
    """'{}'-format string -> its n+1 literal pieces"""
    parts = s.split("{}")
    if len(parts) != n + 1 or "{" in "".join(parts).replace("{{", "").replace("}}", ""):
        raise TranslatorError(f"{what}: format string {s!r} does not have {n} plain fields")
    return [p.replace("{{", "{").replace("}}", "}") for p in parts]


# ------------------------------------------------------------------------------------------
def _output_calls(stmts, what):
    """the `X.output("const", n)` / `X.output(n=k)` calls in a statement list, in order
    (descending into if/else on the 2.0 branch only)."""
    res = []
    for st in stmts:
        if isinstance(st, ast.Expr) and isinstance(st.value, ast.Call) and \
                isinstance(st.value.func, ast.Attribute) and st.value.func.attr == "output":
            c = st.value
            line, n = "", 0
            if c.args:
                line = c.args[0]
            if len(c.args) > 1:
                n = c.args[1].value
            for kw in c.keywords:
                if kw.arg == "n":
                    n = kw.value.value
                elif kw.arg == "line":
                    line = kw.value
            res.append((line, n))
        elif isinstance(st, ast.If):
            res.append(("if", st))
    return res


def export_tables():
    qasm, _ = _src("qasm.py")
    # _GATE_NAME_TO_QASM_NAME ---------------------------------------------------------------
    name_map = None
    for n in qasm.body:
        if isinstance(n, ast.Assign) and len(n.targets) == 1 and isinstance(n.targets[0], ast.Name) \
                and n.targets[0].id == "_GATE_NAME_TO_QASM_NAME":
            if not isinstance(n.value, ast.Dict):
                raise TranslatorError("_GATE_NAME_TO_QASM_NAME is not a dict literal")
            name_map = [(_const_str(k, "name map key"), _const_str(v, "name map value"))
                        for k, v in zip(n.value.keys, n.value.values)]
    if name_map is None:
        raise TranslatorError("_GATE_NAME_TO_QASM_NAME not found")
    qo = _find(qasm.body, ast.ClassDef, "QasmOutput")
    # _qasm_defns: if-chain on gate.name -> gate_def string -----------------------------------
    fdef = _find(qo.body, ast.FunctionDef, "_qasm_defns")
    chain = [s for s in fdef.body if isinstance(s, ast.If)]
    if len(chain) != 1:
        raise TranslatorError("_qasm_defns: expected one if-chain")
    defns = []
    node = chain[0]
    while True:
        t = node.test
        if not (isinstance(t, ast.Compare) and len(t.ops) == 1 and isinstance(t.ops[0], ast.Eq)
                and isinstance(t.left, ast.Attribute) and t.left.attr == "name"):
            raise TranslatorError("_qasm_defns: test is not `gate.name == <const>`")
        gname = _const_str(t.comparators[0], "_qasm_defns gate name")
        if not (len(node.body) == 1 and isinstance(node.body[0], ast.Assign)
                and isinstance(node.body[0].targets[0], ast.Name)
                and node.body[0].targets[0].id == "gate_def"):
            raise TranslatorError("_qasm_defns: branch body is not `gate_def = <const>`")
        defns.append((gname, _const_str(node.body[0].value, "gate_def")))
        if len(node.orelse) == 1 and isinstance(node.orelse[0], ast.If):
            node = node.orelse[0]
            continue
        # final else: self._qasm_defn_resolve(gate); return
        oe = node.orelse
        if not (len(oe) == 2 and isinstance(oe[0], ast.Expr) and isinstance(oe[0].value, ast.Call)
                and getattr(oe[0].value.func, "attr", "") == "_qasm_defn_resolve"
                and isinstance(oe[1], ast.Return)):
            raise TranslatorError("_qasm_defns: unexpected else branch")
        break
    tail = [s for s in fdef.body if not isinstance(s, ast.If)
            and not (isinstance(s, ast.Expr) and isinstance(s.value, ast.Constant))]
    # self.output("// QuTiP definition for gate {}".format(gate.name)); self.output(gate_def);
    # self.gate_name_map[gate.name] = gate.name.lower()
    if len(tail) != 3:
        raise TranslatorError("_qasm_defns: unexpected statements after the if-chain")
    c0 = tail[0].value
    try:
        comment_fmt = _const_str(c0.args[0].func.value, "definition comment")
        assert c0.args[0].func.attr == "format"
        assert tail[1].value.args[0].id == "gate_def"
        lower = tail[2].value
        assert isinstance(lower, ast.Call) and lower.func.attr == "lower"
    except (AttributeError, AssertionError, IndexError):
        raise TranslatorError("_qasm_defns: unexpected output statements")
    # _qasm_defn_resolve: which names reach `qc._gate_<NAME>` --------------------------------------
    fres = _find(qo.body, ast.FunctionDef, "_qasm_defn_resolve")
    resolvable = []
    for s in ast.walk(fres):
        if isinstance(s, ast.Compare) and isinstance(s.left, ast.Attribute) and s.left.attr == "name" \
                and isinstance(s.comparators[0], ast.Constant):
            resolvable.append(s.comparators[0].value)
    # does QubitCircuit have the method it calls?
    circ, _ = _src("circuit/circuit.py")
    qc_cls = _find(circ.body, ast.ClassDef, "QubitCircuit")
    methods = {n.name for n in qc_cls.body if isinstance(n, ast.FunctionDef)}
    resolve_broken = [g for g in resolvable if ("_gate_" + g) not in methods]
    if resolve_broken != resolvable:
        raise TranslatorError("_qasm_defn_resolve: QubitCircuit now has _gate_* methods; the model of "
                              "the resolver (AttributeError) is out of date")
    # _qasm_output header ---------------------------------------------------------------------
    fout = _find(qo.body, ast.FunctionDef, "_qasm_output")
    header = []
    for line, n in _output_calls(fout.body, "_qasm_output"):
        if line == "if":
            st = n
            for l2, n2 in _output_calls(st.body, "_qasm_output"):
                header.append((_const_str(l2, "header line"), n2))
        else:
            header.append((_const_str(line, "header line"), n))
    # _qasm_str formats ----------------------------------------------------------------------------
    fstr = _find(qo.body, ast.FunctionDef, "_qasm_str")
    fmts = [n.func.value.value for n in ast.walk(fstr)
            if isinstance(n, ast.Call) and isinstance(n.func, ast.Attribute) and n.func.attr == "format"
            and isinstance(n.func.value, ast.Constant)]
    if sorted(fmts) not in (sorted(["q[{}]", "{}({}) {};", "{} {};"]), sorted(["q[{:d}]", "{}({}) {};", "{} {};"])):
        raise TranslatorError(f"_qasm_str: format strings changed: {fmts}")
    # the argument test and the container test (modelled by hand; recognised here)
    tests = [n for n in ast.walk(fstr) if isinstance(n, ast.If)]
    arg_if = [n for n in tests if "q_args" in ast.dump(n.test) and "isinstance" not in ast.dump(n.test)]
    inst_if = [n for n in tests if "q_args" in ast.dump(n.test) and "isinstance" in ast.dump(n.test)]
    if len(arg_if) != 1 or len(inst_if) != 1:
        raise TranslatorError("_qasm_str: argument tests not recognised")
    t = arg_if[0].test
    if isinstance(t, ast.Name):
        arg_test = "truthy"
    elif isinstance(t, ast.Compare) and isinstance(t.ops[0], ast.IsNot) and \
            isinstance(t.comparators[0], ast.Constant) and t.comparators[0].value is None:
        arg_test = "notNone"
    else:
        raise TranslatorError("_qasm_str: argument test is neither truthiness nor `is not None`")
    ti = inst_if[0].test
    kinds = []
    if isinstance(ti, ast.Call) and len(ti.args) == 2:
        a = ti.args[1]
        elts = a.elts if isinstance(a, ast.Tuple) else [a]
        for e in elts:
            kinds.append(e.id if isinstance(e, ast.Name) else e.attr if isinstance(e, ast.Attribute) else "?")
    else:
        raise TranslatorError("_qasm_str: isinstance test not recognised")
    # circuit._to_qasm formats ---------------------------------------------------------------------
    fto = _find(qc_cls.body, ast.FunctionDef, "_to_qasm")
    cfmts = [n.func.value.value for n in ast.walk(fto)
             if isinstance(n, ast.Call) and isinstance(n.func, ast.Attribute) and n.func.attr == "format"
             and isinstance(n.func.value, ast.Constant)]
    if len(cfmts) != 2:
        raise TranslatorError("QubitCircuit._to_qasm: expected two format strings")
    meas, _ = _src("operations/measurement.py")
    mcls = _find(meas.body, ast.ClassDef, "Measurement")
    mto = _find(mcls.body, ast.FunctionDef, "_to_qasm")
    mf = [n.func.value.value for n in ast.walk(mto)
          if isinstance(n, ast.Call) and isinstance(n.func, ast.Attribute) and n.func.attr == "format"
          and isinstance(n.func.value, ast.Constant)]
    if len(mf) != 1:
        raise TranslatorError("Measurement._to_qasm: expected one format string")
    # how `_qasm_str` prints a parameter: `str(arg)` or `_qasm_real(arg)` (decimal point inserted before an exponent)
    last = ast.unparse(fstr.body[-1])
    old_print = ("if q_args is not None:\n    if isinstance(q_args, (list, tuple, np.ndarray)):\n"
                 "        q_args = ','.join([str(arg) for arg in q_args])\n"
                 "    return '{}({}) {};'.format(q_name, q_args, q_regs)\nelse:\n    return '{} {};'.format(q_name, q_regs)")
    new_print = ("if q_args is not None:\n    if isinstance(q_args, (list, tuple, np.ndarray)):\n"
                 "        q_args = ','.join([_qasm_real(arg) for arg in q_args])\n    else:\n"
                 "        q_args = _qasm_real(q_args)\n"
                 "    return '{}({}) {};'.format(q_name, q_args, q_regs)\nelse:\n    return '{} {};'.format(q_name, q_regs)")
    freal = [n for n in qasm.body if isinstance(n, ast.FunctionDef) and n.name == "_qasm_real"]
    if arg_test == "notNone" and last == new_print:
        want = ["text = '{}'.format(value)", "mantissa, exp, exponent = text.partition('e')",
                "if exp and mantissa.lstrip('-').isdigit():\n    text = mantissa + '.0e' + exponent", "return text"]
        if len(freal) != 1 or [ast.unparse(x) for x in freal[0].body[1:]] != want:
            raise TranslatorError("_qasm_real: body not recognised")
        pads_exp = True
    elif last == old_print or (arg_test != "notNone" and last != new_print):
        pads_exp = False
    else:
        raise TranslatorError("_qasm_str: printing of the parameters not recognised: " + last)
    # how `_qasm_str` joins controls and targets: `q_controls + q_targets` (lists of Python ints only) or
    # `list(q_controls) + list(q_targets)` (any container of any integer type)
    head = [ast.unparse(x) for x in fstr.body[:-1] if not (isinstance(x, ast.Expr) and isinstance(x.value, ast.Constant))]
    old_head = ["if not q_controls:\n    q_controls = []", "q_regs = q_controls + q_targets",
                "if isinstance(q_targets[0], int):\n    q_regs = ','.join(['q[{}]'.format(reg) for reg in q_regs])\nelse:\n"
                "    q_regs = ','.join(q_regs)"]
    new_head = ["if q_controls is None:\n    q_controls = []", "q_regs = list(q_controls) + list(q_targets)",
                "if isinstance(q_targets[0], str):\n    q_regs = ','.join(q_regs)\nelse:\n"
                "    q_regs = ','.join(['q[{:d}]'.format(reg) for reg in q_regs])"]
    if head == old_head:
        qubit_containers = False
    elif head == new_head:
        qubit_containers = True
    else:
        raise TranslatorError(f"_qasm_str: treatment of controls / targets not recognised: {head}")
    # Gate._to_qasm: the three statements of the model's `gateLine` (name lookup, refusal of a classical condition, the
    # call of `_qasm_str`), and HOW the condition is detected: truthiness (a numpy array [0] is falsy) or length
    gcls, _ = _src("operations/gateclass.py")
    gto = _find(_find(gcls.body, ast.ClassDef, "Gate").body, ast.FunctionDef, "_to_qasm")
    gst = [ast.unparse(x) for x in gto.body if not (isinstance(x, ast.Expr) and isinstance(x.value, ast.Constant))]
    g_head = ["qasm_gate = qasm_out.qasm_name(self.name)",
              "if not qasm_gate:\n    error_str = \"{} gate's qasm defn is not specified\".format(self.name)\n"
              "    raise NotImplementedError(error_str)"]
    g_tail = (":\n    err_msg = 'Exporting controlled gates is not implemented yet.'\n    raise NotImplementedError(err_msg)\n"
              "else:\n    qasm_out.output(qasm_out._qasm_str(qasm_gate, self.controls, self.targets, self.arg_value))")
    # ... and, between the name lookup and the classical condition, the refusal of a `control_value` other than "all
    # control qubits 1" (the QASM gate is chosen by the name alone)
    g_cv = ("if self.control_value is not None and (self.controls is None or len(self.controls) == 0 or "
            "self.control_value != 2 ** len(self.controls) - 1):\n"
            "    err_msg = 'Exporting a gate with control_value={} is not implemented: a QASM gate acts when all the "
            "control qubits are 1.'.format(self.control_value)\n    raise NotImplementedError(err_msg)")
    cv_checked = len(gst) == 4 and gst[2] == g_cv
    if cv_checked:
        gst = gst[:2] + gst[3:]
    if gst == g_head + ["if self.classical_controls" + g_tail]:
        cctrl_len = False
    elif gst == g_head + ["if self.classical_controls is not None and len(self.classical_controls) > 0" + g_tail]:
        cctrl_len = True
    else:
        raise TranslatorError(f"Gate._to_qasm not recognised: {gst}")
    return {
        "cctrl_len": cctrl_len,
        "cv_checked": cv_checked,
        "qubit_containers": qubit_containers,
        "pads_exp": pads_exp,
        "name_map": name_map, "defns": defns, "comment_fmt": split_fmt(comment_fmt, "definition comment", 1),
        "header": header, "qreg_fmt": split_fmt(cfmts[0], "qreg", 1), "creg_fmt": split_fmt(cfmts[1], "creg", 1),
        "measure_fmt": split_fmt(mf[0], "measure", 2), "arg_test": arg_test, "seq_kinds": kinds,
        "resolvable": resolvable,
    }


# ------------------------------------------------------------------------------------------
def _sel(n, what):
    """qubit selector of an add_gate keyword: regs[i] / int(regs[i]) / regs / regs[:k] / [regs[i], ...]"""
    if isinstance(n, ast.Call) and isinstance(n.func, ast.Name) and n.func.id == "int" and len(n.args) == 1:
        return _sel(n.args[0], what)
    if isinstance(n, ast.Name):
        return ".all"
    if isinstance(n, ast.Subscript) and isinstance(n.value, ast.Name):
        s = n.slice
        if isinstance(s, ast.Constant) and isinstance(s.value, int):
            return f".one {s.value}"
        if isinstance(s, ast.Slice) and s.lower is None and s.step is None and isinstance(s.upper, ast.Constant):
            return f".pre {s.upper.value}"
    if isinstance(n, ast.List):
        idx = []
        for e in n.elts:
            r = _sel(e, what)
            if not r.startswith(".one "):
                raise TranslatorError(f"{what}: selector list element not recognised")
            idx.append(r[5:])
        return ".many [" + ", ".join(idx) + "]"
    raise TranslatorError(f"{what}: qubit selector not recognised: {ast.dump(n)[:100]}")


def import_tables():
    qasm, _ = _src("qasm.py")
    qp = _find(qasm.body, ast.ClassDef, "QasmProcessor")
    init = _find(qp.body, ast.FunctionDef, "__init__")
    predefined, qiskit = None, None
    for n in ast.walk(init):
        if isinstance(n, ast.Assign) and isinstance(n.targets[0], ast.Attribute):
            tgt = n.targets[0].attr
            v = n.value
            if tgt in ("predefined_gates", "qiskitgates") and isinstance(v, ast.Call) \
                    and getattr(v.func, "id", "") == "set" and v.args and isinstance(v.args[0], ast.List):
                names = [_const_str(e, tgt) for e in v.args[0].elts]
                if tgt == "predefined_gates" and predefined is None:
                    predefined = names
                elif tgt == "qiskitgates":
                    qiskit = names
    if predefined is None or qiskit is None:
        raise TranslatorError("QasmProcessor.__init__: gate name sets not recognised")
    fq = _find(qp.body, ast.FunctionDef, "_add_qiskit_gates")
    map1q = None
    chain = None
    for s in fq.body:
        if isinstance(s, ast.Assign) and getattr(s.targets[0], "id", "") == "gate_name_map_1q":
            map1q = [(_const_str(k, "1q key"), _const_str(v, "1q value"))
                     for k, v in zip(s.value.keys, s.value.values)]
        if isinstance(s, ast.If) and isinstance(s.test, ast.Compare) and \
                getattr(s.test.left, "id", "") == "name" and isinstance(s.test.ops[0], ast.Eq):
            chain = s
    if map1q is None or chain is None:
        raise TranslatorError("_add_qiskit_gates: name map / if-chain not recognised")
    rows = []
    node = chain
    generic = None
    while node is not None:
        t = node.test
        calls = [x.value for x in node.body if isinstance(x, ast.Expr) and isinstance(x.value, ast.Call)
                 and getattr(x.value.func, "attr", "") == "add_gate"]
        if len(calls) != 1:
            raise TranslatorError("_add_qiskit_gates: branch without exactly one add_gate call")
        c = calls[0]
        kw = {k.arg: k.value for k in c.keywords}
        if not {"classical_controls", "classical_control_value"} <= set(kw):
            raise TranslatorError("_add_qiskit_gates: add_gate call without the classical-control keywords")
        if isinstance(t.ops[0], ast.Eq):
            qn = _const_str(t.comparators[0], "qasm gate name")
            lib = _const_str(c.args[0], "library gate name")
            tg = _sel(kw["targets"], qn)
            ct = _sel(kw["controls"], qn) if "controls" in kw else "none"
            av = "arg_value" in kw
            if av and not (isinstance(kw["arg_value"], ast.Name) and kw["arg_value"].id == "args"):
                raise TranslatorError(f"_add_qiskit_gates[{qn}]: arg_value is not `args`")
            rows.append((qn, lib, tg, ct, av))
        elif isinstance(t.ops[0], ast.In) and getattr(t.comparators[0], "id", "") == "gate_name_map_1q":
            tg = _sel(kw["targets"], "1q")
            if tg != ".one 0" or "controls" in kw or "arg_value" not in kw:
                raise TranslatorError("_add_qiskit_gates: generic one-qubit branch changed")
            generic = True
        else:
            raise TranslatorError("_add_qiskit_gates: unrecognised test")
        if len(node.orelse) == 1 and isinstance(node.orelse[0], ast.If):
            node = node.orelse[0]
        elif not node.orelse:
            node = None
        else:
            raise TranslatorError("_add_qiskit_gates: unexpected else branch")
    if not generic:
        raise TranslatorError("_add_qiskit_gates: generic one-qubit branch missing")
    for qn, lib in map1q:
        rows.append((qn, lib, ".one 0", "none", True))
    # user gates of _get_qiskit_gates: recognised by their exact AST
    fg = _find(qasm.body, ast.FunctionDef, "_get_qiskit_gates")
    expect = {
        "u2": "qasmu_gate([np.pi / 2, args[0], args[1]])",
        "id": "qasmu_gate([0, 0, 0])",
        "sdg": "rz(-1 * np.pi / 2)",
        "tdg": "rz(-1 * np.pi / 4)",
        "cu3": "controlled_gate(qasmu_gate(args))",
        "ch": "controlled_gate(snot())",
    }
    got = {}
    for s in fg.body:
        if isinstance(s, ast.FunctionDef):
            rets = [x for x in s.body if isinstance(x, ast.Return)]
            if len(rets) != 1:
                raise TranslatorError(f"_get_qiskit_gates.{s.name}: not a single return")
            got[s.name] = ast.unparse(rets[0].value)
    if got != expect:
        raise TranslatorError(f"_get_qiskit_gates changed: {got}")
    # _GATE_SIGNATURES (arity table of the built-in and qelib1 gates)
    sigs = None
    for n in qasm.body:
        if isinstance(n, ast.Assign) and len(n.targets) == 1 and isinstance(n.targets[0], ast.Name) \
                and n.targets[0].id == "_GATE_SIGNATURES":
            if not isinstance(n.value, ast.Dict):
                raise TranslatorError("_GATE_SIGNATURES is not a dict literal")
            sigs = []
            for k, v in zip(n.value.keys, n.value.values):
                if not (isinstance(v, ast.Tuple) and len(v.elts) == 2 and
                        all(isinstance(e, ast.Constant) and isinstance(e.value, int) for e in v.elts)):
                    raise TranslatorError("_GATE_SIGNATURES: value is not a pair of ints")
                sigs.append((_const_str(k, "signature key"), v.elts[0].value, v.elts[1].value))
    # does Gate.__init__ reject a classical_control_value outside [0, 2**len(classical_controls))?
    gc, _ = _src("operations/gateclass.py")
    gate_cls = _find(gc.body, ast.ClassDef, "Gate")
    ginit = _find(gate_cls.body, ast.FunctionDef, "__init__")
    cv_check = False
    for n in ast.walk(ginit):
        if isinstance(n, ast.If) and any(isinstance(b, ast.Raise) for b in n.body):
            t = ast.unparse(n.test)
            if "classical_control_value" in t and "2 ** len(self.classical_controls)" in t:
                if t.replace(" ", "").replace("(", "").replace(")", "") != (
                        "self.classical_controlsisnotNoneandnot0<=self.classical_control_value"
                        "<2**lenself.classical_controls"):
                    raise TranslatorError("Gate.__init__: range test of classical_control_value not recognised: " + t)
                cv_check = True
    # does _custom_gate reject a repeated qubit among the (substituted) arguments of a body statement?
    fcg = _find(qp.body, ast.FunctionDef, "_custom_gate")
    body_dup = False
    for n in ast.walk(fcg):
        if isinstance(n, ast.If) and any(isinstance(b, ast.Raise) for b in n.body) and "com_regs" in ast.unparse(n.test):
            if ast.unparse(n.test).replace(" ", "") != "len(set(com_regs))!=len(com_regs)":
                raise TranslatorError("_custom_gate: test on com_regs not recognised: " + ast.unparse(n.test))
            body_dup = True
    flags = _import_variants(qp)
    return {"predefined": predefined, "qiskit": qiskit, "rows": rows, "user_gates": sorted(expect),
            "sigs": sigs, "cv_check": cv_check, "body_dup": body_dup, **flags}


def _chain(node):
    """an if / elif / else chain -> [(test source, body)], else-body"""
    out = []
    while True:
        out.append((ast.unparse(node.test), node.body))
        if len(node.orelse) == 1 and isinstance(node.orelse[0], ast.If):
            node = node.orelse[0]
        else:
            return out, node.orelse


def _import_variants(qp):
    """Which of the repairs of `_final_pass` / `_regs_processor` / `_gate_add` / `_initialize_pass` the checkout
    has.  These functions are modelled by hand (Model/QasmImport.lean); the statements the model depends on are
    recognised by their exact source, anything else is refused."""
    U = ast.unparse
    # _final_pass ---------------------------------------------------------------------------------
    fp = _find(qp.body, ast.FunctionDef, "_final_pass")
    loops = [n for n in fp.body if isinstance(n, ast.For)]
    if len(loops) != 1 or U(loops[0].iter) != "self.commands" or len(loops[0].body) != 1 \
            or not isinstance(loops[0].body[0], ast.If):
        raise TranslatorError("_final_pass: loop over self.commands not recognised")
    chain, orelse = _chain(loops[0].body[0])
    tests = [t for t, _ in chain]
    if [U(x) for x in orelse] != ["err = 'QASM: {} is not a valid QASM command.'.format(command[0])",
                                  "raise SyntaxError(err)"]:
        raise TranslatorError("_final_pass: else branch not recognised")
    with_barrier = ["command[0] in self.gate_names", "command[0] == 'measure'", "command[0] == 'barrier'",
                    "command[0] == 'if'"]
    without_barrier = [t for t in with_barrier if "barrier" not in t]
    if tests == with_barrier:
        fp_barrier = True
        if [U(x) for x in chain[2][1]] != ["self._regs_processor(command[1:], 'barrier')"]:
            raise TranslatorError("_final_pass: barrier branch not recognised")
    elif tests == without_barrier:
        fp_barrier = False
    else:
        raise TranslatorError(f"_final_pass: branches not recognised: {tests}")
    if [U(x) for x in chain[0][1]] != ["self._gate_add(qc, command, custom_gates)"]:
        raise TranslatorError("_final_pass: gate branch not recognised")
    if [U(x) for x in chain[1][1]] != [
            "reg_set = self._regs_processor(command[1:], 'measure')",
            "for regs in reg_set:\n    qc.add_measurement('M', targets=[regs[0]], classical_store=regs[1])"]:
        raise TranslatorError("_final_pass: measure branch not recognised")
    ifb = [U(x) for x in chain[-1][1]]
    head = ["cbit_reg, classical_control_value = command[2].split('==')", "cbit_inds = self.cbit_regs[cbit_reg]",
            "classical_control_value = int(classical_control_value)"]
    tail = ["self._gate_add(qc, command[4:], custom_gates, cbit_inds, classical_control_value)"]
    skip = ("if classical_control_value >= 2 ** len(cbit_inds):\n"
            "    self._gate_add(QubitCircuit(qc.N), command[4:], custom_gates)\n    continue")
    rev = "classical_control_value = int('{:0{}b}'.format(classical_control_value, len(cbit_inds))[::-1], 2)"
    if not (ifb and ifb[0].startswith("warnings.warn(")):
        raise TranslatorError("_final_pass: if branch not recognised")
    mid = ifb[1:]
    if mid[:3] != head or mid[-1:] != tail:
        raise TranslatorError("_final_pass: if branch not recognised: " + " ; ".join(mid))
    mid = mid[3:-1]
    if mid == []:
        if_skip, if_rev = False, False
    elif mid == [skip]:
        if_skip, if_rev = True, False
    elif mid == [rev]:
        if_skip, if_rev = False, True
    elif mid == [skip, rev]:
        if_skip, if_rev = True, True
    else:
        raise TranslatorError("_final_pass: treatment of the condition value not recognised: " + " ; ".join(mid))
    # _regs_processor -------------------------------------------------------------------------------
    rp = _find(qp.body, ast.FunctionDef, "_regs_processor")
    ex = []
    for n in ast.walk(rp):
        if isinstance(n, ast.If) and "expand" in U(n.test):
            ex.append("if " + U(n.test))
        if isinstance(n, ast.Assign) and U(n.targets[0]) == "expand":
            ex.append(U(n))
    ex = sorted(ex)
    variants = {
        (False, False): ["expand = 0", "expand = len(qubit)", "if expand", "if expand and expand != len(qubit)"],
        (True, False): ["expand = 0", "expand = len(qubit)", "if expand",
                        "if reg_type != 'barrier' and expand and (expand != len(qubit))"],
        (False, True): ["expand = None", "expand = len(qubit)", "if expand is not None",
                        "if expand is not None and expand != len(qubit)"],
        (True, True): ["expand = None", "expand = len(qubit)", "if expand is not None",
                       "if reg_type != 'barrier' and expand is not None and (expand != len(qubit))"],
    }
    hit = [k for k, v in variants.items() if sorted(v) == ex]
    if len(hit) != 1:
        raise TranslatorError(f"_regs_processor: treatment of `expand` not recognised: {ex}")
    rp_barrier, rp_empty = hit[0]
    # _gate_add ---------------------------------------------------------------------------------------
    ga = _find(qp.body, ast.FunctionDef, "_gate_add")
    st = [U(x) for x in ga.body if not (isinstance(x, ast.Expr) and isinstance(x.value, ast.Constant))]
    common_a = ["args, regs = _gate_processor(command)", "reg_set = list(self._regs_processor(regs, 'gate'))"]
    name_if = ("if args:\n    gate_name = '{}({})'.format(command[0], ','.join(args))\nelse:\n"
               "    gate_name = '{}'.format(command[0])")

    def user_part(n):
        return [
            "if command[0] not in self.predefined_gates:\n    gate = self.qasm_gates[command[0]]\n"
            f"    _check_arity(command[0], len(args), {n}, (len(gate.gate_args), len(gate.gate_regs)))",
            "if command[0] not in self.predefined_gates and gate_name not in custom_gates:\n"
            f"    n = {n}\n    qc_temp = QubitCircuit(n)\n"
            "    self._custom_gate(qc_temp, [command[0], args, [str(i) for i in range(n)]])\n"
            "    unitary_mat = qc_temp.compute_unitary()\n    custom_gates[gate_name] = unitary_mat",
            "qc.user_gates = custom_gates"]
    ev_old = "if command[0] in self.predefined_gates:\n    args = [_eval_param(arg) for arg in args]"
    ev_new = (ev_old + "\n    if command[0] in _GATE_SIGNATURES:\n"
              "        _check_arity(command[0], len(args), n_regs, _GATE_SIGNATURES[command[0]])")
    old_ga = common_a + [name_if] + user_part("len(reg_set[0])") + [ev_old]
    new_ga = common_a + ["n_regs = len(regs) - 3 * regs.count('[')", name_if] + user_part("n_regs") + [ev_new]
    if st[:-1] == old_ga:
        ga_empty = False
    elif st[:-1] == new_ga:
        ga_empty = True
    else:
        raise TranslatorError("_gate_add: statements before the loop not recognised")
    loop = st[-1]
    if not loop.startswith("for regs in reg_set:\n    regs = [int(i) for i in regs]\n"
                           "    if len(set(regs)) != len(regs):\n        raise ValueError("):
        raise TranslatorError("_gate_add: loop over reg_set not recognised")
    # _initialize_pass: barrier statements ----------------------------------------------------------------
    ip = _find(qp.body, ast.FunctionDef, "_initialize_pass")
    sites = [(U(n.test), [U(x) for x in n.body]) for n in ast.walk(ip)
             if isinstance(n, ast.If) and ("barrier" in U(n.test) or U(n.test) == "command[0] == 'include'")]
    body_check = ("for reg in command[1:]:\n    if reg not in curr_gate.gate_regs:\n"
                  "        raise ValueError('QASM: {} is not a qubit argument of gate {}'.format(reg, curr_gate.name))")
    if sites == [("command[0] == 'barrier'", ["continue"]), ("command[0] in ['barrier', 'include']", ["continue"])]:
        ip_barrier = False
    elif sites == [("command[0] == 'barrier'", [body_check, "continue"]), ("command[0] == 'include'", ["continue"])]:
        ip_barrier = True
    else:
        raise TranslatorError(f"_initialize_pass: treatment of barrier / include not recognised: {sites}")
    # _initialize_pass: the closing brace of a definition (empty bodies refused as "opaque"?)
    closing = [n for n in ast.walk(ip) if isinstance(n, ast.If) and U(n.test) == "command[0] == '}'"]
    if len(closing) != 1:
        raise TranslatorError("_initialize_pass: branch of the closing brace not recognised")
    cb = [U(x) for x in closing[0].body]
    tail_cb = ["open_bracket_mode = False", "self.gate_names.add(curr_gate.name)",
               "self.qasm_gates[curr_gate.name] = curr_gate", "continue"]
    if cb == tail_cb:
        empty_body_ok = True
    elif len(cb) == 5 and cb[1:] == tail_cb and cb[0].startswith("if not curr_gate.gates_inside:\n    raise NotImplementedError("):
        empty_body_ok = False
    else:
        raise TranslatorError(f"_initialize_pass: closing brace of a gate definition not recognised: {cb}")
    # _initialize_pass: a statement of a gate body (checked when the definition is read?)
    stm = [n for n in ast.walk(ip) if isinstance(n, ast.If) and U(n.test) == "command[0] in self.gate_names"]
    if len(stm) != 1:
        raise TranslatorError("_initialize_pass: branch of a body statement not recognised")
    sb = [U(x) for x in stm[0].body]
    head_sb = ["name = command[0]", "gate_args, gate_regs = _gate_processor(command)"]
    app = "curr_gate.gates_inside.append([name, gate_args, gate_regs])"
    fchk = [n for n in qp.body if isinstance(n, ast.FunctionDef) and n.name == "_check_body_call"]
    if sb == head_sb + ["gate_added = self.qasm_gates[name]", app]:
        body_checked = False
    elif sb == head_sb + ["self._check_body_call(curr_gate, name, gate_args, gate_regs)", app]:
        want = [
            "for reg in gate_regs:\n    if reg not in curr_gate.gate_regs:\n        raise ValueError('QASM: {} is not a "
            "qubit argument of gate {}'.format(reg, curr_gate.name))",
            "if len(set(gate_regs)) != len(gate_regs):\n    raise ValueError('QASM: a qubit is used twice in one statement')",
            "if name in _GATE_SIGNATURES:\n    expected = _GATE_SIGNATURES[name]\nelse:\n    gate = self.qasm_gates[name]\n"
            "    expected = (len(gate.gate_args), len(gate.gate_regs))",
            "_check_arity(name, len(gate_args), len(gate_regs), expected)",
            "params = [arg.strip() for arg in curr_gate.gate_args]",
            "for arg in gate_args:\n    if '^' in arg or '**' in arg:\n        raise NotImplementedError('QASM: the power "
            "operator is not supported in expressions.')\n    for ident in re.findall('(?<![\\\\w.])[A-Za-z_]\\\\w*', arg):\n"
            "        if ident != 'pi' and ident not in params:\n            raise NameError('QASM: {} is not a parameter of "
            "gate {}'.format(ident, curr_gate.name))"]
        if len(fchk) != 1 or [U(x) for x in fchk[0].body[1:]] != want:
            raise TranslatorError("_check_body_call: body not recognised")
        body_checked = True
    else:
        raise TranslatorError(f"_initialize_pass: statement of a gate body not recognised: {sb}")
    # _initialize_pass: declarations (is a second declaration of a register / a user gate refused?)
    def branch(test):
        r = [n for n in ast.walk(ip) if isinstance(n, ast.If) and U(n.test) == test and
             not any(isinstance(b, ast.Raise) for b in n.body)]
        if len(r) != 1:
            raise TranslatorError(f"_initialize_pass: branch `{test}` not recognised")
        return [U(x) for x in r[0].body]
    g_old = ["gate_name = command[1]", "gate_args, gate_regs = _gate_processor(command[1:])",
             "curr_gate = QasmGate(gate_name, gate_args, gate_regs)", "gate_defn_mode = True"]
    g_chk = ("if gate_name in self.gate_names and gate_name not in self.predefined_gates:\n"
             "    raise ValueError('QASM: gate {} is already defined'.format(gate_name))")

    def reg_branch(var, table, count, chk):
        return ["groups = re.match('(.*)\\\\[(.*)\\\\]', ''.join(command[1:]))",
                f"if groups:\n    {var} = groups.group(1)\n" + (f"    self._check_new_register({var})\n" if chk else "") +
                f"    num_regs = int(groups.group(2))\n    self.{table}[{var}] = list(range(self.{count}, self.{count} + num_regs))\n"
                f"    self.{count} += num_regs\nelse:\n    raise SyntaxError('QASM: incorrect bracket formatting')"]
    gb, qb, cb2 = branch("command[0] == 'gate'"), branch("command[0] == 'qreg'"), branch("command[0] == 'creg'")
    fnr = [n for n in qp.body if isinstance(n, ast.FunctionDef) and n.name == "_check_new_register"]
    if gb == g_old and qb == reg_branch("qubit_name", "qubit_regs", "num_qubits", False) and \
            cb2 == reg_branch("cbit_name", "cbit_regs", "num_cbits", False):
        redecl = False
    elif gb == [g_old[0], g_chk] + g_old[1:] and qb == reg_branch("qubit_name", "qubit_regs", "num_qubits", True) and \
            cb2 == reg_branch("cbit_name", "cbit_regs", "num_cbits", True):
        if len(fnr) != 1 or [U(x) for x in fnr[0].body[1:]] != [
                "if name in self.qubit_regs or name in self.cbit_regs:\n"
                "    raise ValueError('QASM: register {} is already declared'.format(name))"]:
            raise TranslatorError("_check_new_register: body not recognised")
        redecl = True
    else:
        raise TranslatorError(f"_initialize_pass: declarations not recognised: {gb} / {qb} / {cb2}")
    if not (fp_barrier == rp_barrier == ip_barrier):
        raise TranslatorError("barrier statements: _initialize_pass, _final_pass and _regs_processor do not belong to "
                              "the same variant")
    if rp_empty != ga_empty:
        raise TranslatorError("empty registers: _regs_processor and _gate_add do not belong to the same variant")
    return {"if_skip": if_skip, "if_rev": if_rev, "barrier_checked": fp_barrier, "empty_reg_ok": rp_empty,
            "empty_body_ok": empty_body_ok, "body_checked": body_checked, "redecl_checked": redecl}


# ------------------------------------------------------------------------------------------
def render():
    e = export_tables()
    i = import_tables()
    L = []
    A = L.append
    A("import QipVerif.Model.QasmSpec")
    A("/-! GENERATED by py/props/qasm_tables.py from qasm.py, circuit/circuit.py, operations/measurement.py")
    A("of the checkout under verification — do not edit. -/")
    A("namespace QipVerif.Qasm.Gen")
    A("open QipVerif.Qasm")
    A("")
    A("/-- `_GATE_NAME_TO_QASM_NAME` -/")
    A("def gateNameToQasm : List (Str × Str) := " +
      lean_list([f"({lean_str(k)}, {lean_str(v)})" for k, v in e["name_map"]]))
    A("")
    A("/-- the if-chain of `QasmOutput._qasm_defns`: gate name, emitted definition line -/")
    A("def qasmDefns : List (Str × Str) := [")
    A(",\n".join(f"  ({lean_str(k)}, {lean_str(v)})" for k, v in e["defns"]))
    A("]")
    A("")
    A("/-- names for which `_qasm_defn_resolve` calls a `QubitCircuit._gate_*` method that does not exist -/")
    A("def resolveAttrError : List Str := " + lean_list([lean_str(x) for x in e["resolvable"]]))
    A("")
    A("/-- `\"// QuTiP definition for gate {}\"` split at the field -/")
    A("def defnCommentFmt : Str × Str := (%s, %s)" % tuple(map(lean_str, e["comment_fmt"])))
    A("/-- header of `_qasm_output`: line, number of blank lines appended -/")
    A("def headerLines : List (Str × Nat) := " +
      lean_list([f"({lean_str(l)}, {n})" for l, n in e["header"]]))
    A("def qregFmt : Str × Str := (%s, %s)" % tuple(map(lean_str, e["qreg_fmt"])))
    A("def cregFmt : Str × Str := (%s, %s)" % tuple(map(lean_str, e["creg_fmt"])))
    A("/-- `Measurement._to_qasm` format split at its two fields -/")
    A("def measureFmt : Str × Str × Str := (%s, %s, %s)" % tuple(map(lean_str, e["measure_fmt"])))
    A("/-- `_qasm_str`: is the parameter test `is not None` (true) or truthiness (false)? -/")
    A("def argTestNotNone : Bool := " + ("true" if e["arg_test"] == "notNone" else "false"))
    A("/-- `_qasm_str` prints a parameter with `_qasm_real`: `1e-20` becomes `1.0e-20` -/")
    A("def exportPadsExponent : Bool := " + ("true" if e["pads_exp"] else "false"))
    A("/-- `_qasm_str` joins `list(q_controls) + list(q_targets)` and formats every element: controls / targets may be")
    A("lists, tuples or arrays of Python or numpy integers (otherwise: lists of Python ints only, which is what the")
    A("model's `List Nat` stands for; the harness sends other containers only to a tree with this flag) -/")
    A("def qubitContainersOk : Bool := " + ("true" if e["qubit_containers"] else "false"))
    A("/-- `Gate._to_qasm` refuses a gate when `classical_controls` is not None and has positive LENGTH (otherwise: when it")
    A("is truthy — a numpy array `[0]` is falsy and the gate is exported without its condition; the model's")
    A("`cctrl : Option (List Nat)` stands for a list, the harness sends other containers only to a tree with this flag) -/")
    A("def cctrlLenTest : Bool := " + ("true" if e["cctrl_len"] else "false"))
    A("/-- `Gate._to_qasm` refuses (NotImplementedError) a gate whose `control_value` is not None and not 2**len(controls)-1")
    A("(otherwise `control_value` is not read by the exporter at all: the QASM gate is chosen by the name alone) -/")
    A("def exportChecksCv : Bool := " + ("true" if e["cv_checked"] else "false"))
    A("/-- `_qasm_str`: container types joined element-wise -/")
    A("def seqKinds : List Str := " + lean_list([lean_str(k) for k in e["seq_kinds"]]))
    A("")
    A("/-! importer -/")
    A("def predefinedGates : List Str := " + lean_list([lean_str(x) for x in i["predefined"]]))
    A("def qiskitGates : List Str := " + lean_list([lean_str(x) for x in i["qiskit"]]))
    A("")
    A("/-- `_add_qiskit_gates`: qasm name, library gate name, targets, controls, passes `arg_value=args` -/")
    A("def shortcutRows : List (Str × Str × Sel × Sel × Bool) := [")
    A(",\n".join(f"  ({lean_str(q)}, {lean_str(l)}, {t}, {'.none' if c == 'none' else c}, {'true' if a else 'false'})"
                 for q, l, t, c, a in i["rows"]))
    A("]")
    A("")
    A("/-- `_GATE_SIGNATURES`: name, number of parameters, number of qubit arguments; `none` = the")
    A("table does not exist (no arity check in the importer) -/")
    if i["sigs"] is None:
        A("def gateSignatures : Option (List (Str × Nat × Nat)) := none")
    else:
        A("def gateSignatures : Option (List (Str × Nat × Nat)) := some [")
        A(",\n".join(f"  ({lean_str(n)}, {a}, {b})" for n, a, b in i["sigs"]))
        A("]")
    A("")
    A("/-- `Gate.__init__` raises ValueError unless 0 <= classical_control_value < 2**len(classical_controls) -/")
    A("def gateChecksControlValue : Bool := " + ("true" if i["cv_check"] else "false"))
    A("")
    A("/-- `_custom_gate` raises ValueError when a body statement repeats a qubit argument -/")
    A("def customChecksRepeat : Bool := " + ("true" if i["body_dup"] else "false"))
    A("")
    A("/-- `_final_pass`: `if(c==k)` with `k >= 2**len(c)` adds nothing (the operation is only checked) -/")
    A("def ifSkipsUnsat : Bool := " + ("true" if i["if_skip"] else "false"))
    A("/-- `_final_pass`: the value of `if(c==k)` is passed on bit-reversed (first classical control = most")
    A("significant bit of `classical_control_value`, `c[0]` = least significant bit of `k`) -/")
    A("def ifReversesValue : Bool := " + ("true" if i["if_rev"] else "false"))
    A("/-- barrier statements are checked (declared registers, indices; formal qubits inside a gate body) -/")
    A("def barrierChecked : Bool := " + ("true" if i["barrier_checked"] else "false"))
    A("/-- `_regs_processor` / `_gate_add`: a statement on empty registers has no instance (arity still checked) -/")
    A("def emptyRegOk : Bool := " + ("true" if i["empty_reg_ok"] else "false"))
    A("")
    A("/-- `_initialize_pass` refuses a second declaration of a register or of a user-defined gate -/")
    A("def redeclChecked : Bool := " + ("true" if i["redecl_checked"] else "false"))
    A("/-- `_initialize_pass` checks every statement of a gate body when the definition is read (`_check_body_call`) -/")
    A("def bodyChecked : Bool := " + ("true" if i["body_checked"] else "false"))
    A("/-- `_initialize_pass` accepts a gate definition without any gate statement in its body (the identity) -/")
    A("def emptyBodyOk : Bool := " + ("true" if i["empty_body_ok"] else "false"))
    A("")
    A("/-- user gates installed by `_get_qiskit_gates` (bodies recognised by the translator) -/")
    A("def userGates : List Str := " + lean_list([lean_str(x) for x in i["user_gates"]]))
    A("")
    A("end QipVerif.Qasm.Gen")
    return "\n".join(L) + "\n"


def regenerate():
    text = render()
    path = os.path.join(paths.LEAN, "QipVerif", "Gen", "QasmTables.lean")
    os.makedirs(os.path.dirname(path), exist_ok=True)
    old = open(path).read() if os.path.exists(path) else None
    if old != text:
        with open(path, "w") as f:
            f.write(text)
        return [path]
    return []
